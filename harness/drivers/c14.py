"""C14 - DHT routing table (ipv8/dht/routing.py, trie.py) against specs/Kademlia.tla.

R  the state graphs of small configurations (3..4 bit identifiers) are replayed on the real RoutingTable: in every
   reached TLC state every enabled action label is executed on the real objects and the projected table must be one
   of the successors TLC computed for that label (the specification leaves the eviction choice open);
T  seeded histories with real 160 bit identifiers (uniform / clustered around our own id, up to 2000 adds) are
   recorded in chunks and validated by TLC against specs/KademliaTrace.tla, which re-uses the actions of
   Kademlia.tla, re-evaluates the structural invariants and decides every logged closest_nodes answer with the brute
   force definition IsClosest;
E  Bucket.generate_id is sampled for every bucket of recorded tables (and forced to the extremes of its random
   source); TLC decides membership through the GenerateId action.
"""
from __future__ import annotations

import copy
import hashlib
import json
import os
import random
import re
import shutil
import time as _time
from concurrent.futures import ThreadPoolExecutor

from ..common import Ctx, setup_repo_path
from ..tlc import FrozenDict, MachineryError, parse_label, parse_state, run_tlc, scratch_dir

PID = "C14"
WIDTH = 160


# ------------------------------------------------------------------------------------------------------
# real objects
# ------------------------------------------------------------------------------------------------------
class Real:
    """Access to the real classes; nodes get a fixed id the way ipv8/test/dht/test_routing.py does it."""

    def __init__(self):
        from ipv8.dht import routing
        from ipv8.keyvault.private.openssl import OpenSSLSK
        from ipv8.messaging.interfaces.udp.endpoint import UDPv4Address
        self.routing = routing
        self.BAD = routing.NODE_STATUS_BAD
        self.UDPv4Address = UDPv4Address
        self._sk = OpenSSLSK
        self._keys = {}

        class FixedNode(routing.Node):
            def __init__(self, key, node_id, address):
                super().__init__(key, address)
                self._id = node_id

            @property
            def id(self):
                return self._id

        self.FixedNode = FixedNode

    def key(self, node_id):
        k = self._keys.get(node_id)
        if k is None:
            k = self._sk(b"LibNaCLSK:" + hashlib.sha512(b"c14" + node_id).digest()).pub()
            self._keys[node_id] = k
        return k

    def address(self, a):
        return self.UDPv4Address("10.%d.%d.%d" % ((a >> 16) & 255, (a >> 8) & 255, a & 255), 7000 + (a % 1000))

    @staticmethod
    def addr_num(address):
        parts = address[0].split(".")
        return (int(parts[1]) << 16) | (int(parts[2]) << 8) | int(parts[3])

    def table(self, my_id, cap):
        rt = self.routing.RoutingTable(my_id)
        rt.trie[""].max_size = cap
        return rt

    def node(self, node_id, rtt, bad, addr, rng):
        n = self.FixedNode(self.key(node_id), node_id, self.address(addr))
        n.rtt = float(rtt)
        n.failed = rng.choice((2, 3, 5)) if bad else rng.choice((0, 0, 1))
        if rng.random() < 0.5:
            n.last_response = _time.time()       # GOOD instead of UNKNOWN: must not matter for the table
        return n

    def touch(self, node, rtt, bad, rng):
        node.rtt = float(rtt)
        node.failed = rng.choice((2, 3)) if bad else rng.choice((0, 1))


def bits_of(node_id, width=WIDTH):
    return tuple(int(c) for c in format(int.from_bytes(node_id, "big"), "0%db" % (8 * len(node_id)))[:width])


def id_of_bits(bits):
    """W bit model identifier -> 20 byte identifier (padded with zero bits)."""
    s = "".join(str(b) for b in bits) + "0" * (WIDTH - len(bits))
    return int(s, 2).to_bytes(20, "big")


class Projection:
    """The observable table: trie keys -> ids (in bucket order), plus everything odd that was seen on the way."""

    def __init__(self, real, rt, lookups=None):
        """lookups: ids whose public lookup is cross-checked (None: every stored node and the trie's value list)"""
        self.buckets = {}     # prefix string -> [node ids]
        self.nodes = {}       # id -> Node object (last seen)
        self.problems = []
        stack = [("", rt.trie.root)]
        while stack:
            key, tn = stack.pop()
            if tn.value is not None:
                b = tn.value
                if b.prefix_id != key:
                    self.problems.append("bucket stored under trie key %r has prefix_id %r" % (key, b.prefix_id))
                ids = []
                for k, n in b.nodes.items():
                    if n.id != k:
                        self.problems.append("bucket %r indexes node %s under key %s" % (key, n.id.hex(), k.hex()))
                    if k in self.nodes:
                        self.problems.append("node %s is stored in two buckets" % k.hex())
                    ids.append(k)
                    self.nodes[k] = n
                self.buckets[key] = ids
            for ch, sub in tn.children.items():
                stack.append((key + ch, sub))
        # the table as seen through the public lookups
        if lookups is None:
            if set(map(id, rt.trie.values())) != {id(rt.trie[k]) for k in self.buckets}:
                self.problems.append("trie.values() disagrees with the keys reachable in the trie")
            lookups = self.nodes
        for k in lookups:
            n = self.nodes.get(k)
            if n is not None and rt.get(k) is not n:
                self.problems.append("RoutingTable.get(%s) does not find the stored node" % k.hex())
        self.bad = {k for k, n in self.nodes.items() if n.status == real.BAD}

    def attrs(self, real):
        return {k: (int(n.rtt), k in self.bad, real.addr_num(n.address)) for k, n in self.nodes.items()}


# ------------------------------------------------------------------------------------------------------
# recording (bindings T and E): chunks of histories as JSON for specs/KademliaTrace.tla
# ------------------------------------------------------------------------------------------------------
class Chunk:
    """One trace of the file read by specs/KademliaTrace.tla, still with raw identifiers (bytes) and trie keys (str)."""

    def __init__(self, real, my_id, cap, width, proj):
        self.real = real
        self.width = width
        self.doc = {"w": width, "my": my_id, "cap": cap, "events": []}
        self.doc["table"], self.doc["attr"] = self.snapshot(proj)

    def snapshot(self, proj):
        for key in proj.buckets:
            if len(key) > self.width or set(key) - {"0", "1"}:
                raise OddTable("bucket key %r is not a prefix of an identifier" % key)
        table = [{"p": key, "n": list(proj.buckets[key])} for key in sorted(proj.buckets)]
        attr = [{"i": k, "rtt": rtt, "bad": bad, "addr": addr} for k, (rtt, bad, addr) in sorted(proj.attrs(self.real).items())]
        return table, attr

    def change(self, ev, before, after, snap):
        ev["ev"] = sorted(set(before.nodes) - set(after.nodes))
        ev["sp"] = len(after.buckets) - len(before.buckets)
        ev["snap"] = 1 if snap else 0
        ev["table"], ev["attr"] = self.snapshot(after) if snap else ([], [])
        self.doc["events"].append(ev)

    def closest(self, target, k, excl, answer):
        self.doc["events"].append({"op": "closest", "t": target, "k": k, "x": [excl] if excl is not None else [],
                                   "ans": list(answer)})

    def gen(self, key, node_id, forced=None):
        ev = {"op": "gen", "p": key, "i": node_id}
        if forced:
            ev["forced"] = forced
        self.doc["events"].append(ev)


def encode(docs):
    """-> the JSON document of a trace file: identifiers once, in a dictionary of bit sequences, else by index."""
    width = docs[0]["w"]
    ids, index = [], {}

    def ix(node_id):
        i = index.get(node_id)
        if i is None:
            ids.append(list(bits_of(node_id, width)))
            i = index[node_id] = len(ids)
        return i

    def pre(key):
        return [int(c) for c in key]

    def table(tb):
        return [{"p": pre(b["p"]), "n": [ix(k) for k in b["n"]]} for b in tb]

    def attr(at):
        return [{"i": ix(a["i"]), "rtt": a["rtt"], "bad": a["bad"], "addr": a["addr"]} for a in at]

    traces = []
    for d in docs:
        if d["w"] != width:
            raise MachineryError("traces of different identifier widths in one file")
        evs = []
        for e in d["events"]:
            if e["op"] == "closest":
                evs.append({"op": "closest", "t": ix(e["t"]), "k": e["k"], "x": [ix(x) for x in e["x"]],
                            "ans": [ix(a) for a in e["ans"]]})
            elif e["op"] == "gen":
                evs.append({"op": "gen", "p": pre(e["p"]), "i": ix(e["i"])})
            else:
                o = {"op": e["op"], "ev": [ix(k) for k in e["ev"]], "sp": e["sp"], "snap": e["snap"],
                     "table": table(e["table"]), "attr": attr(e["attr"])}
                if e["op"] != "removebad":
                    o.update(i=ix(e["i"]), rtt=e["rtt"], bad=e["bad"])
                if e["op"] == "add":
                    o["addr"] = e["addr"]
                evs.append(o)
        traces.append({"my": ix(d["my"]), "cap": d["cap"], "table": table(d["table"]), "attr": attr(d["attr"]),
                       "events": evs})
    return {"w": width, "ids": ids, "traces": traces}


class OddTable(Exception):
    """Something that cannot even be written down as a table of the specification."""


class ExtremeRandom:
    """Stands in for the `random` module inside ipv8.dht.routing: every draw returns an end of its range."""

    def __init__(self, hi):
        self.hi = hi

    def randint(self, a, b):
        return b if self.hi else a

    def randrange(self, a, b=None, step=1):
        if b is None:
            a, b = 0, a
        return b - 1 if self.hi else a

    def getrandbits(self, k):
        return (1 << k) - 1 if self.hi else 0

    def random(self):
        return 1.0 - 2.0 ** -53 if self.hi else 0.0

    def choice(self, seq):
        return seq[-1] if self.hi else seq[0]

    def randbytes(self, n):
        return (b"\xff" if self.hi else b"\x00") * n

    def __getattr__(self, name):
        return getattr(random, name)


def sample_generate_id(ctx, real, rt, proj, chunk, samples, forced):
    """E: Bucket.generate_id of every bucket: `samples` seeded draws, or (forced) both extremes of its random source."""
    n = 0
    for key in sorted(proj.buckets):
        bucket = rt.trie[key]
        if forced:
            draws = [("max", ExtremeRandom(True)), ("min", ExtremeRandom(False))]
        else:
            draws = [(None, None)] * samples
        for tag, fake in draws:
            orig = getattr(real.routing, "random", None)
            try:
                if fake is not None:
                    real.routing.random = fake
                try:
                    got = bucket.generate_id()
                finally:
                    if fake is not None:
                        real.routing.random = orig
            except Exception as e:  # noqa: BLE001
                ctx.violation("gen:exception:%s" % ("forced-" + tag if tag else "sampled"),
                              "Bucket(%r).generate_id() raised %s: %s%s" % (
                                  key, type(e).__name__, e,
                                  " when its random source returns its %s value" % tag if tag else ""),
                              {"prefix": key, "random_source": tag or "seeded"})
                continue
            if not isinstance(got, bytes) or len(got) != WIDTH // 8:
                ctx.violation("gen:not-an-id", "Bucket(%r).generate_id() returned %r, not a %d byte identifier"
                              % (key, got, WIDTH // 8), {"prefix": key, "random_source": tag or "seeded"})
                continue
            chunk.gen(key, got, tag)
            n += 1
    return n


# ------------------------------------------------------------------------------------------------------
# TLC validation of chunks
# ------------------------------------------------------------------------------------------------------
def run_validation(docs):
    """TLC on a batch of traces (no bookkeeping: may run in a worker thread) -> TlcResult"""
    tmp = scratch_dir("c14t-")
    try:
        path = os.path.join(tmp, "traces.json")
        with open(path, "w", encoding="utf-8") as f:
            json.dump(encode(docs), f, separators=(",", ":"))
        # deep tables need deep (bounded) recursion of FullTree / AddRes: larger thread stacks
        opts = dict(env={"TRACE_FILE": path}, coverage=False, java_opts=("-Xss64m",))
        try:
            r = run_tlc("KademliaTrace.tla", "KademliaTrace.cfg", **opts)
            consumed = r.violated != "postcondition"
        except MachineryError as e:
            if "Postcondition AllConsumed" not in str(e):
                raise
            consumed = False
        if not consumed:
            # some event was not a step of the specification: let ENABLED name the trace and the event
            r2 = run_tlc("KademliaTrace.tla", "KademliaTrace_locate.cfg", **opts)
            if r2.ok:
                raise MachineryError("AllConsumed failed but KademliaTrace_locate.cfg accepts the same traces")
            r = r2
    finally:
        shutil.rmtree(tmp, ignore_errors=True)
    return r


def validate(ctx, docs, tag, expect_reject=False, count=True, result=None):
    """-> (accepted, TlcResult). On rejection of real traces a violation is recorded.
    result: the TlcResult when TLC already ran (in a worker thread)."""
    r = result if result is not None else run_validation(docs)
    if expect_reject:
        return (not r.ok), r
    ctx.add_tlc(tag, r)
    if r.ok:
        if count:
            ctx.traces(len(docs))
            ctx.evaluated(sum(len(d["events"]) for d in docs))
        return True, r
    last = r.error_trace[-1][1] if r.error_trace else {}
    tid, lno = last.get("tid"), last.get("l")
    if not isinstance(tid, int) or not isinstance(lno, int):
        mt = re.findall(r"^/\\ tid = (\d+)", r.output, re.M)
        ml = re.findall(r"^/\\ l = (\d+)", r.output, re.M)
        tid, lno = (int(mt[-1]) if mt else None), (int(ml[-1]) if ml else None)
    doc = docs[tid - 1] if isinstance(tid, int) and 0 < tid <= len(docs) else None
    ev = None
    if doc is not None and isinstance(lno, int) and r.violated == "TraceAccepted" and lno <= len(doc["events"]):
        ev = doc["events"][lno - 1]
    what = describe_rejection(r.violated, doc, ev, lno)
    sig = "trace:%s" % r.violated if ev is None else "trace:%s:%s" % (r.violated, ev["op"])
    if ev is not None and ev["op"] == "gen" and ev.get("forced"):
        sig += ":forced-" + ev["forced"]
    ctx.violation(sig, what, {"violated": r.violated, "event_index": lno, "event": ev, "origin": doc.get("origin") if doc else None,
                              "trace": slim(doc)})
    return False, r


def hexid(node_id, width):
    return node_id.hex() if width == WIDTH else "".join(map(str, bits_of(node_id, width)))


def describe_rejection(violated, doc, ev, lno):
    if doc is None:
        return "recorded history rejected by KademliaTrace.tla (%s)" % violated
    w = doc["w"]
    if ev is None:
        return ("the real routing table violates %s of Kademlia.tla (history %s, around event %s)"
                % (violated, doc.get("origin"), lno))
    if ev["op"] == "gen":
        return ("Bucket(prefix %r).generate_id() returned %s which does not start with the bucket prefix%s"
                % (ev["p"], hexid(ev["i"], w),
                   " (random source forced to its %s value)" % ev["forced"] if ev.get("forced") else ""))
    if ev["op"] == "closest":
        return ("closest_nodes(target=%s, max_nodes=%d, exclude=%s) returned %s: not the k nearest live nodes, nearest first"
                " (table: %s)" % (hexid(ev["t"], w), ev["k"], [hexid(x, w) for x in ev["x"]] or None,
                                  [hexid(a, w) for a in ev["ans"]], doc.get("origin")))
    return ("%s event %d of history %s is not a step of Kademlia.tla (evicted=%s splits=%s)"
            % (ev["op"], lno, doc.get("origin"), [hexid(a, w) for a in ev.get("ev", [])], ev.get("sp")))


def slim(doc):
    if doc is None:
        return None
    if sum(len(e.get("table", ())) + 1 for e in doc["events"]) < 400:
        return doc
    return {"origin": doc.get("origin"), "note": "chunk too large to embed; re-run with the same seed"}


# ------------------------------------------------------------------------------------------------------
# binding R: graph guided replay
# ------------------------------------------------------------------------------------------------------
_RE_NODE = re.compile(r'^(-?\d+) \[label="((?:[^"\\]|\\.)*)"', re.M)
_RE_EDGE = re.compile(r'^(-?\d+) -> (-?\d+) \[label="((?:[^"\\]|\\.)*)"', re.M)


def _unescape(lbl):
    return lbl.replace("\\n", "\n").replace("\\\\", "\\").replace('\\"', '"')


def state_key(st):
    attrs = st["attrs"] if isinstance(st["attrs"], dict) else {}
    return (frozenset((p, frozenset(ns)) for p, ns in st["buckets"].items()),
            frozenset((n, a["rtt"], a["bad"], a["addr"]) for n, a in attrs.items()))


def load_graph(path):
    with open(path, encoding="utf-8") as f:
        text = f.read()
    states, init = {}, None
    for m in _RE_NODE.finditer(text):
        sid = int(m.group(1))
        if sid not in states:
            states[sid] = parse_state(_unescape(m.group(2)))
            if init is None and "style = filled" in text[m.end():m.end() + 20]:
                init = sid
    labels = {}
    out = {}
    nedges = 0
    for m in _RE_EDGE.finditer(text):
        s, d, raw = int(m.group(1)), int(m.group(2)), m.group(3)
        lab = labels.get(raw)
        if lab is None:
            lab = labels[raw] = parse_label(_unescape(raw))
        dsts = out.setdefault(s, {}).setdefault(lab, set())
        if d not in dsts:
            dsts.add(d)
            nedges += 1
    if init is None:
        raise MachineryError("no initial state in dot dump")
    return states, init, out, nedges


class ModelWorld:
    """One real RoutingTable driven with the W bit identifiers of a model configuration."""

    def __init__(self, real, st0, rng):
        self.real = real
        self.rng = rng
        self.w = len(st0["my"])
        self.cap = st0["cap"]
        self.my = id_of_bits(st0["my"])
        self.rt = real.table(self.my, self.cap)

    def apply(self, name, args):
        real, rt = self.real, self.rt
        if name == "Add":
            bits, rtt, bad, addr = args
            rt.add(real.node(id_of_bits(bits), rtt, bad, addr, self.rng))
        elif name == "Touch":
            bits, rtt, bad = args
            n = rt.get(id_of_bits(bits))
            if n is None:
                raise Diverged("Touch of a node the real table does not hold")
            real.touch(n, rtt, bad, self.rng)
        elif name == "RemoveBad":
            rt.remove_bad_nodes()
        else:
            raise MachineryError("unknown action " + name)

    def project(self):
        p = Projection(self.real, self.rt)
        w = self.w
        for k in p.nodes:
            if int.from_bytes(k, "big") & ((1 << (WIDTH - w)) - 1):
                raise MachineryError("model identifier with non-zero padding in the real table")
        key = (frozenset((tuple(int(c) for c in pk), frozenset(bits_of(k, w) for k in ids))
                         for pk, ids in p.buckets.items()),
               frozenset((bits_of(k, w),) + a for k, a in p.attrs(self.real).items()))
        return p, key


class Diverged(Exception):
    pass


def label_text(lab):
    name, args = lab
    return "%s(%s)" % (name, ", ".join("".join(map(str, a)) if isinstance(a, tuple) else str(a) for a in args))


def dump_graph(cfg):
    """TLC state graph of a configuration (no bookkeeping: may run in a worker thread)"""
    tmp = scratch_dir("c14g-")
    try:
        dot = os.path.join(tmp, "g.dot")
        r = run_tlc("Kademlia.tla", cfg, dump=dot)
        if not r.ok:
            raise MachineryError("Kademlia %s: TLC reports %s on the specification itself" % (cfg, r.violated))
        check_coverage(r, cfg, ("Add", "Touch", "RemoveBad"))
        return (r,) + load_graph(dot)
    finally:
        shutil.rmtree(tmp, ignore_errors=True)


def replay_graph(ctx, real, cfg, tag, rng, max_ops, queries_per_state, qdocs, graph=None):
    r, states, init, out, nedges = graph if graph is not None else dump_graph(cfg)
    ctx.add_tlc(tag, r)
    index = {}
    for sid, st in states.items():
        index[state_key(st)] = sid
    if len(index) != len(states):
        raise MachineryError("projection of %s is not injective on the TLC states" % cfg)
    path = {init: ()}
    order = [init]
    todo = {init: sorted(out.get(init, {}), key=repr)}
    covered = 0
    ops = 0
    walks = 0
    pos = 0
    shuffled = False
    st0 = states[init]
    while pos < len(order):
        s = order[pos]
        if not todo.get(s):
            pos += 1
            continue
        if max_ops is not None and ops >= max_ops:
            break
        # rebuild the real table of state s by replaying the labels that led there
        w = ModelWorld(real, st0, rng)
        labels = []
        try:
            for lab in path[s]:
                w.apply(*lab)
                labels.append(label_text(lab))
                ops += 1
            _p, key = w.project()
            if index.get(key) != s:
                raise MachineryError("replay of a known path does not reproduce its state (eviction choice unstable?)")
            cur = s
            while todo.get(cur):
                lab = todo[cur].pop()
                labels.append(label_text(lab))
                w.apply(*lab)
                ops += 1
                p, key = w.project()
                dst = index.get(key)
                covered += 1
                ctx.nontrivial((tag, cur, lab))
                if p.problems:
                    ctx.violation("replay:odd-table", "real table after %s: %s" % (labels[-1], p.problems[0]),
                                  {"cfg": cfg, "actions": labels, "problems": p.problems})
                    return
                if dst is None or dst not in out[cur][lab]:
                    # report the (shorter) known path to this state + the failing call, if that diverges as well
                    short = [label_text(x) for x in path[cur] + (lab,)]
                    w2 = ModelWorld(real, st0, rng)
                    try:
                        for x in path[cur] + (lab,):
                            w2.apply(*x)
                        if w2.project()[1] == key:
                            labels = short
                    except Exception:  # noqa: BLE001
                        pass
                    ctx.violation("replay:%s" % lab[0],
                                  "real RoutingTable leaves Kademlia.tla at %s (after %d calls): table %s is none of the %d "
                                  "tables the specification allows" % (labels[-1], len(labels) - 1, show_table(p, w.w),
                                                                       len(out[cur][lab])),
                                  {"cfg": cfg, "my": "".join(map(str, st0["my"])), "cap": st0["cap"], "actions": labels,
                                   "real_table": show_table(p, w.w)})
                    return
                if dst not in path:
                    path[dst] = path[cur] + (lab,)
                    order.append(dst)
                    todo[dst] = sorted(out.get(dst, {}), key=repr)
                    if queries_per_state and (queries_per_state > 1 or len(order) % 3 == 0):
                        query_state(real, w, p, rng, queries_per_state, qdocs,
                                    "%s:%s" % (tag, "/".join(label_text(x) for x in path[dst])))
                cur = dst
        except Diverged as e:
            ctx.violation("replay:diverged", str(e), {"cfg": cfg, "actions": labels})
            return
        except MachineryError:
            raise
        except Exception as e:  # noqa: BLE001
            ctx.violation("replay:exception:%s" % type(e).__name__,
                          "real RoutingTable raised %s: %s during %s" % (type(e).__name__, e, labels[-1] if labels else "?"),
                          {"cfg": cfg, "actions": labels})
            return
        walks += 1
        if walks <= 2:
            ctx.sample({"model": cfg, "replayed_actions": labels[:12]})
        if max_ops is not None and not shuffled and ops * 3 > max_ops:
            # not everything fits: continue in seeded order so the sample is not biased to shallow states
            rest = order[pos:]
            rng.shuffle(rest)
            order[pos:] = rest
            shuffled = True
    total = sum(len(v) for v in out.values())
    pairs_all = sum(len(out.get(s, {})) for s in path)
    ctx.evaluated(ops)
    ctx.traces(walks)
    ctx.note("replay_" + tag, {"cfg": cfg, "graph_states": len(states), "graph_edges": nedges,
                               "state_label_pairs_in_graph": total, "states_reached_by_real_code": len(path),
                               "state_label_pairs_executed": covered,
                               "state_label_pairs_of_reached_states": pairs_all,
                               "complete": covered == pairs_all, "real_operations": ops, "walks": walks})


def show_table(p, width=4):
    w = max([width] + [len(k) for k in p.buckets])
    return {k or "''": ["".join(map(str, bits_of(i, w))) for i in ids] for k, ids in sorted(p.buckets.items())}


def query_state(real, w, proj, rng, nq, qdocs, origin):
    """closest_nodes of a model-width table: sampled (target, k, exclude) triples, decided later by TLC."""
    ch = Chunk(real, w.my, w.cap, w.w, proj)
    ch.doc["origin"] = origin
    live = [k for k in proj.nodes if k not in proj.bad]
    for _ in range(nq):
        t = id_of_bits(tuple(rng.randrange(2) for _ in range(w.w)))
        k = rng.randrange(1, 5)
        x = rng.choice(live) if live and rng.random() < 0.4 else None
        ans = w.rt.closest_nodes(t, max_nodes=k, exclude_node=proj.nodes[x] if x else None)
        ch.closest(t, k, x, [n.id for n in ans])
    qdocs.append(ch.doc)


def check_coverage(r, cfg, actions):
    for a in actions:
        if r.coverage.get(a, (0, 0))[1] == 0:
            raise MachineryError("action %s never taken in %s (vacuous model)" % (a, cfg))


# ------------------------------------------------------------------------------------------------------
# binding T: seeded histories with real identifiers
# ------------------------------------------------------------------------------------------------------
def random_id(rng, my_int, kind):
    """a 160 bit identifier: uniform, or sharing `shared` leading bits with our own identifier"""
    if kind == "uniform":
        return rng.getrandbits(WIDTH)
    if kind == "tight":                       # long common prefixes with us and with each other
        shared = rng.randrange(WIDTH - 24, WIDTH)
    elif kind == "near":                      # the usual crowd around our own id
        shared = min(WIDTH - 1, int(rng.expovariate(1 / 8.0)))
    elif kind == "clustered":
        shared = min(WIDTH - 1, int(rng.expovariate(1 / 24.0)))
    else:  # "stairs": every depth of our own path gets company
        shared = rng.randrange(0, WIDTH)
    low = WIDTH - shared - 1          # bits below the first differing one
    v = (my_int >> (low + 1) << (low + 1)) | ((~my_int >> low & 1) << low)
    return v | rng.getrandbits(low) if low else v


MIXES = {"mixed": ("uniform", "clustered", "tight", "stairs"), "crowd": ("uniform", "uniform", "near")}


def record_history(ctx, real, rng, kind, n_adds, cap, chunk_len, origin, gen_samples=0, gen_docs=None, gen_every=3):
    """-> list of chunk documents. Drives one real RoutingTable through a seeded history.
    gen_docs = (sampled, forced): lists receiving the generate_id documents of the tables that start the chunks."""
    my_int = rng.getrandbits(WIDTH)
    my = my_int.to_bytes(20, "big")
    rt = real.table(my, cap)
    docs = []
    proj = Projection(real, rt)
    chunk = None
    adds = 0
    rtts = (0, 0, 5, 10, 19, 20, 21, 40, 41, 80, 200)
    naddr = 0
    known = []                     # ids ever offered (for re-adds and excludes)
    step = 0

    def lookups(nid):
        # between two complete snapshots: the public lookup of the id just used and of a few stored nodes
        ids = sorted(proj.nodes)
        return [nid] + [ids[rng.randrange(len(ids))] for _ in range(min(4, len(ids)))]
    while adds < n_adds:
        if chunk is None or len(chunk.doc["events"]) >= chunk_len:
            if chunk is not None:
                docs.append(chunk.doc)
            chunk = Chunk(real, my, cap, WIDTH, proj)
            chunk.doc["origin"] = "%s#%d" % (origin, len(docs))
            if gen_samples and len(docs) % gen_every == 0:
                for forced, sink in zip((False, True), gen_docs):
                    if forced and not hasattr(real.routing, "random"):
                        continue
                    g = Chunk(real, my, cap, WIDTH, proj)
                    g.doc["origin"] = "%s#%d-generate_id%s" % (origin, len(docs), "-forced" if forced else "")
                    if sample_generate_id(ctx, real, rt, proj, g, gen_samples, forced):
                        sink.append(g.doc)
        step += 1
        # the complete table is logged after every call while it is small, else every 16th call and at the chunk end
        snap = len(proj.buckets) <= 12 or step % 16 == 0 or len(chunk.doc["events"]) + 1 >= chunk_len
        u = rng.random()
        before = proj
        try:
            if u < 0.70 or not proj.nodes:
                v = rng.random()
                if v < 0.10 and known:
                    nid = rng.choice(known)                       # seen before: update, or a come-back
                elif v < 0.12:
                    nid = my
                else:
                    k2 = rng.choice(MIXES[kind]) if kind in MIXES else kind
                    nid = random_id(rng, my_int, k2).to_bytes(20, "big")
                known.append(nid)
                naddr += 1
                rtt, bad, addr = rng.choice(rtts), rng.random() < 0.12, naddr
                rt.add(real.node(nid, rtt, bad, addr, rng))
                proj = Projection(real, rt, None if snap else lookups(nid))
                chunk.change({"op": "add", "i": nid, "rtt": rtt, "bad": bad, "addr": addr}, before, proj, snap)
                adds += 1
            elif u < 0.82:
                nid = rng.choice(sorted(proj.nodes))
                rtt, bad = rng.choice(rtts), rng.random() < 0.35
                real.touch(proj.nodes[nid], rtt, bad, rng)
                proj = Projection(real, rt, None if snap else lookups(nid))
                chunk.change({"op": "touch", "i": nid, "rtt": rtt, "bad": bad}, before, proj, snap)
            elif u < 0.85:
                rt.remove_bad_nodes()
                proj = Projection(real, rt, None if snap else lookups(my))
                chunk.change({"op": "removebad"}, before, proj, snap)
            else:
                v = rng.random()
                if v < 0.35:
                    t = rng.getrandbits(WIDTH).to_bytes(20, "big")
                elif v < 0.45:
                    t = my
                elif v < 0.65:
                    t = rng.choice(sorted(proj.nodes))
                elif v < 0.80:
                    t = (int.from_bytes(rng.choice(sorted(proj.nodes)), "big") ^ (1 << rng.randrange(0, 12))).to_bytes(20, "big")
                else:
                    t = random_id(rng, my_int, rng.choice(("clustered", "tight", "stairs"))).to_bytes(20, "big")
                k = rng.choice((1, 2, 3, 5, 8, 8, 13, 20, rng.randrange(1, 21)))
                v = rng.random()
                x = None if v < 0.5 else (rng.choice(sorted(proj.nodes)) if v < 0.85 else rng.choice(known))
                xnode = None
                if x is not None:
                    xnode = proj.nodes.get(x) or real.node(x, 0, False, 1, rng)
                ans = rt.closest_nodes(t, max_nodes=k, exclude_node=xnode)
                chunk.closest(t, k, x, [n.id for n in ans])
        except OddTable as e:
            ctx.violation("history:odd-table", "history %s: %s" % (origin, e), {"origin": origin, "seed": ctx.seed})
            break
        except Exception as e:  # noqa: BLE001
            ctx.violation("history:exception:%s" % type(e).__name__,
                          "real RoutingTable raised %s: %s in history %s" % (type(e).__name__, e, origin),
                          {"origin": origin, "seed": ctx.seed})
            break
        if proj.problems:
            ctx.violation("history:odd-table", "history %s: %s" % (origin, proj.problems[0]),
                          {"origin": origin, "problems": proj.problems[:5]})
            break
    if chunk is not None and chunk.doc["events"]:
        docs.append(chunk.doc)
    ctx.nontrivial(("history", origin, adds, len(proj.buckets), len(proj.nodes)))
    return docs, {"origin": origin, "kind": kind, "cap": cap, "adds": adds, "final_buckets": len(proj.buckets),
                  "final_nodes": len(proj.nodes), "deepest_prefix": max(len(k) for k in proj.buckets), "chunks": len(docs)}


# ------------------------------------------------------------------------------------------------------
# negative controls on the trace binding
# ------------------------------------------------------------------------------------------------------
def corrupt_closest(docs):
    """swap the two nearest nodes of a logged answer"""
    for d in docs:
        for i, e in enumerate(d["events"]):
            if e["op"] == "closest" and len(e["ans"]) >= 2:
                d2 = copy.deepcopy(d)
                a = d2["events"][i]["ans"]
                a[0], a[1] = a[1], a[0]
                d2["events"] = d2["events"][:i + 1]
                return [d2]
    raise MachineryError("no closest answer with two nodes to corrupt")


def corrupt_bucket(docs):
    """move a node of the initial table of a chunk into a bucket that does not own it"""
    for d in docs:
        tb = d["table"]
        full = [b for b in tb if b["n"]]
        if len(tb) >= 2 and full:
            d2 = copy.deepcopy(d)
            src = next(b for b in d2["table"] if b["n"])
            dst = next(b for b in d2["table"] if b is not src)
            dst["n"].append(src["n"].pop())
            d2["events"] = []
            return [d2]
    raise MachineryError("no chunk with two buckets to corrupt")


def corrupt_eviction(docs):
    """pretend a good node with unmeasured round trip time was thrown out by the first add of a chunk"""
    for d in docs:
        e = d["events"][0] if d["events"] else None
        if e and e["op"] == "add" and not e["ev"]:
            good = [a["i"] for a in d["attr"] if not a["bad"] and a["rtt"] == 0 and a["i"] != e["i"]]
            if good:
                d2 = copy.deepcopy(d)
                d2["events"] = d2["events"][:1]
                d2["events"][0].update(ev=[good[0]], snap=0, table=[], attr=[])
                return [d2]
    return None


# ------------------------------------------------------------------------------------------------------
def model_check(cfg, acts):
    r = run_tlc("Kademlia.tla", cfg, timeout=7200)
    if not r.ok:
        raise MachineryError("%s: TLC reports %s on the specification itself" % (cfg, r.violated))
    check_coverage(r, cfg, acts)
    return r


def show_replay(path):
    """--replay <file>: print the recorded counterexample; a replayed model walk is executed again on the real code."""
    with open(path, encoding="utf-8") as f:
        doc = json.load(f)
    print("replay %s: %s" % (doc.get("signature"), doc.get("description")))
    rp = doc.get("replay") or {}
    if isinstance(rp.get("actions"), list) and rp.get("my"):
        real = Real()
        w = ModelWorld(real, {"my": tuple(int(c) for c in rp["my"]), "cap": rp["cap"]}, random.Random(0))
        for text in rp["actions"]:
            name, rest = text.rstrip(")").split("(", 1)
            args = []
            for a in filter(None, (x.strip() for x in rest.split(","))):
                args.append(a == "True" if a in ("True", "False") else
                            tuple(int(c) for c in a) if name != "RemoveBad" and not args else int(a))
            w.apply(name, tuple(args))
            print("  %-28s -> %s" % (text, show_table(w.project()[0], w.w)))


def run(tier, seed, replay=None):
    setup_repo_path()
    if replay:
        show_replay(replay)
    ctx = Ctx(PID, tier, seed, "model_checking")
    ctx.cov["rule"] = ("(R) TLC dumps the complete state graph of small Kademlia.tla configurations; in every state the real "
                       "code reaches, every enabled action label is executed on the real RoutingTable and the projected "
                       "trie must be one of TLC's successors for that label; (T) seeded 160 bit histories (uniform, "
                       "clustered on our own prefix, up to 2000 adds) are validated event by event by TLC incl. every "
                       "closest_nodes answer (brute force IsClosest) and generate_id sample; non-trivial = distinct "
                       "(model state, action label) pairs executed + distinct histories")
    ctx.assumptions += ["a node is identified by its id; nodes offered to the table carry distinct public keys "
                        "(Peer equality is by key, closest_nodes collects nodes in a set)",
                        "Node.status is BAD exactly when failed >= 2 (taken from the real property, not re-implemented)",
                        "round trip times are integral numbers of milliseconds in the recorded histories"]
    rng = random.Random(seed)
    real = Real()
    quick = tier == "quick"
    acts = ("Add", "Touch", "RemoveBad")
    pool = ThreadPoolExecutor(max_workers=4)
    try:
        # ---- TLC jobs that depend on nothing start right away (worker threads only run TLC, no bookkeeping)
        f_ctl_gen = pool.submit(run_tlc, "Kademlia.tla", "Kademlia_gen_pinned.cfg", coverage=False)
        f_ctl_split = pool.submit(run_tlc, "Kademlia.tla", "Kademlia_splitany.cfg", coverage=False)
        if quick:
            plan = [("Kademlia_w3c1.cfg", "w3c1", 25000, 1), ("Kademlia_w4c2_pool5.cfg", "w4c2_pool5", 25000, 1)]
        else:
            plan = [("Kademlia_w3c1.cfg", "w3c1", None, 2), ("Kademlia_w4c2_pool5.cfg", "w4c2_pool5", None, 2),
                    ("Kademlia_w3c2_addr.cfg", "w3c2_addr", None, 1), ("Kademlia_w4c2_pool.cfg", "w4c2_pool6", None, 1),
                    ("Kademlia_w4c2_d4.cfg", "w4c2_d4", None, 0)]
        f_graphs = [pool.submit(dump_graph, cfg) for cfg, _t, _m, _n in plan]
        # model checking without binding: closest_nodes walk == brute force, generate_id, larger tables
        plain = [("Kademlia_closest_w3.cfg", "closest_w3", acts), ("Kademlia_gen.cfg", "gen_w3", acts + ("GenerateId",))]
        if not quick:
            plain += [("Kademlia_closest_w3x.cfg", "closest_w3x", acts),
                      ("Kademlia_closest_w4pool.cfg", "closest_w4_pool7", acts),
                      ("Kademlia_closest_w4.cfg", "closest_w4_d4", acts),
                      ("Kademlia_w3c2.cfg", "w3c2_full", acts), ("Kademlia_w4c1.cfg", "w4c1_full", acts),
                      ("Kademlia_w5c2.cfg", "w5c2_d4", acts)]
        f_plain = [pool.submit(model_check, cfg, a) for cfg, _tag, a in plain]

        # ---- T + E: record the histories (real code, main thread), hand the chunks to TLC as they are complete
        if quick:
            hist = [("crowd", 2000, 8, 60), ("stairs", 120, 2, 40), ("tight", 100, 1, 40), ("clustered", 150, 3, 50),
                    ("mixed", 120, 8, 40)]
        else:
            hist = [("crowd", 2000, 8, 60), ("uniform", 2000, 8, 60), ("clustered", 2000, 8, 60), ("mixed", 2000, 8, 60),
                    ("stairs", 1000, 8, 50), ("tight", 1000, 8, 50), ("stairs", 600, 2, 50), ("mixed", 1000, 3, 50),
                    ("tight", 400, 1, 50)]
            hist += [(rng.choice(("mixed", "clustered", "stairs", "uniform", "tight", "crowd")), 300,
                      rng.choice((1, 2, 3, 4, 8)), 50) for _ in range(16)]
        all_docs, f_traces = [], []
        gen_sampled, gen_forced = [], []
        summaries = []
        pending = []
        for hi, (kind, n, cap, clen) in enumerate(hist):
            docs, summ = record_history(ctx, real, random.Random(rng.getrandbits(64)), kind, n, cap, clen,
                                        "h%d-%s-cap%d" % (hi, kind, cap), gen_samples=2 if quick else 4,
                                        gen_docs=(gen_sampled, gen_forced), gen_every=8 if n >= 1000 else 3)
            all_docs += docs
            pending += docs
            summaries.append(summ)
            while len(pending) >= 80 or (pending and hi == len(hist) - 1):
                batch, pending = pending[:80], pending[80:]
                f_traces.append((batch, pool.submit(run_validation, batch)))
        ctx.note("histories", summaries)
        table_ok = not any(v[0].startswith("history:") for v in ctx.violations)
        both = gen_sampled + gen_forced
        f_gen = pool.submit(run_validation, both) if both else None
        # negative controls of the trace binding (only interpreted when the material they corrupt was accepted)
        ctl = [("trace whose closest_nodes answer has its two nearest nodes swapped is rejected", corrupt_closest),
               ("trace whose table holds a node in a bucket that does not own it is rejected", corrupt_bucket)]
        if not quick:
            ctl.append(("trace in which add() evicts a good node is rejected", corrupt_eviction))
        f_ctl = []
        if table_ok:
            for name, fn in ctl:
                try:
                    bad = fn(all_docs)
                except MachineryError:
                    bad = None
                f_ctl.append((name, pool.submit(run_validation, bad) if bad else None))

        # ---- spec level negative controls
        ctx.control("spec whose generate_id ignores the bucket prefix violates GeneratedIdInBucket",
                    f_ctl_gen.result().violated == "GeneratedIdInBucket")
        ctx.control("spec that splits buckets off our own path violates OwnPathShape / SplitOnlyOwnPath",
                    f_ctl_split.result().violated in ("OwnPathShape", "SplitOnlyOwnPath", "action-property"))

        # ---- R: walk the graphs on the real code (main thread) as TLC delivers them
        qdocs = []
        for (cfg, tag, max_ops, nq), fg in zip(plan, f_graphs):
            graph = fg.result()
            if not any(v[0].startswith("replay:") for v in ctx.violations):
                replay_graph(ctx, real, cfg, tag, rng, max_ops, nq, qdocs, graph)
        ctx.cov["exhaustive"] = all(v.get("complete") for k, v in ctx.parts.items() if k.startswith("replay_"))
        f_q = []
        if qdocs and not any(v[0].startswith("replay:") for v in ctx.violations):
            for width in sorted({d["w"] for d in qdocs}):
                part = [d for d in qdocs if d["w"] == width]
                for i in range(0, len(part), 4000):
                    f_q.append(("closest_model_w%d_%d" % (width, i // 4000), part[i:i + 4000],
                                pool.submit(run_validation, part[i:i + 4000])))
            ctx.sample({"model_table": qdocs[len(qdocs) // 2]["origin"], "queries": qdocs[len(qdocs) // 2]["events"][:2]})

        # ---- collect (deterministic order)
        for (cfg, tag, _a), f in zip(plain, f_plain):
            ctx.add_tlc(tag, f.result())
        for tag, part, f in f_q:
            validate(ctx, part, tag, result=f.result())
        for i, (batch, f) in enumerate(f_traces):
            r = f.result()
            if table_ok:
                ok, _r = validate(ctx, batch, "trace_%d" % i, result=r)
                table_ok = table_ok and ok
        if all_docs:
            d = all_docs[0]
            ctx.sample({"history_chunk": d["origin"], "first_events": [
                {k: v for k, v in e.items() if k not in ("table", "attr")} for e in d["events"][:4]]})
        # E: generate_id documents are validated on their own, so a defect there does not hide the table checks;
        # seeded draws and forced extremes are told apart when something is rejected
        if f_gen is not None:
            ok, _r = validate(ctx, both, "generate_id", result=f_gen.result())
            if not ok and gen_sampled and gen_forced:
                validate(ctx, gen_sampled, "generate_id_sampled")
                validate(ctx, gen_forced, "generate_id_forced")
            ctx.sample({"generate_id_chunk": both[0]["origin"], "events": both[0]["events"][:2]})
        ctx.note("generate_id", {"calls_decided_by_tlc": sum(len(d["events"]) for d in both),
                                 "random_source_forced_to_extremes": bool(gen_forced)})
        for name, f in f_ctl:
            if f is not None and table_ok:
                ctx.control(name, not f.result().ok)
    finally:
        pool.shutdown(wait=True, cancel_futures=True)
    return ctx.finish()
