"""G07 (specification growth) - the DHT peer-discovery layer: ipv8/dht/discovery.py (DHTDiscoveryCommunity) and the
connect_peer path of ipv8/dht/provider.py, decided with specs/DhtDiscovery.tla.

 * model checking of three facets of the specification (store / keep-alive / connect) + nine spec-level negative controls;
 * binding R: the dumped state graphs are replayed, transition by transition (edge cover), on real DHTDiscoveryCommunity
   overlays on the simulated network under the step-mode loop (harness/g07_world.py); after every action the projection
   of every node (store, store_for_me, request cache, tokens, connect_peer call and result) and the datagrams put on the
   wire are compared with the TLC state;
 * binding T: real networks of DHTDiscoveryCommunity nodes with all their periodic tasks, loss, churn and an adversary
   (harness/g07_net.py); the recorded histories are validated by TLC against specs/DhtDiscoveryTrace.tla.
"""
from __future__ import annotations

import concurrent.futures as cf
import json
import os
import random
import shutil

from ..common import Ctx, setup_repo_path
from ..replay import edge_cover
from ..tlc import FrozenDict, MachineryError, parse_dot, run_tlc, scratch_dir

PID = "G07"
MC = "DhtDiscoveryMC.tla"
CONTROLS = [("emptykey", "ConnectResult", "connect_peer answers [] from a key whose list is empty (pinned, G07-1)"),
            ("pingtimeout", "ConnectResult", "connect_peer returns [peer] after an unanswered ping (pinned, G07-2)"),
            ("notoken", "StoreAuth", "store-peer request accepted without a valid token"),
            ("notarget", "StoreAuth", "store-peer request accepted for a key that is not the sender's mid"),
            ("ackfrom", "StoreForMeAcked", "the sender of a store-peer response (not the asked node) becomes a holder"),
            ("nosweep", "SweptFresh", "ping_all never expires an entry of `store`"),
            ("nopuncture", "ConnectExact", "connect-peer request answered without puncture requests"),
            ("punctswap", "ConnectExact", "the puncture request swaps the requester's LAN and source address"),
            ("sendrefused", "RefusedNotSent", "requests refused by the request cache are sent anyway (before 7d2dd90)"),
            ("sendrefusedc", "RefusedNotSent", "connect-peer requests refused by the request cache are sent anyway"),
            ("pongresets", "UnsolicitedInert", "an unmatched ping response resets the failure count of a holder")]
WITNESSES = ["Stored", "Holder", "Expired", "Dropped", "ConnectOk", "Local", "Pinged", "Puncture"]
ACT_OF = {"token": ["GetToken"], "rotate": ["Rotate"], "store": ["StorePeer"], "connect": ["ConnectPeer", "ConnectFound"],
          "pingall": ["PingAll"], "unload": ["Unload"], "adv-spreq": ["AdvSpReq"], "adv-spresp": ["AdvResp"],
          "adv-cpresp": ["AdvResp"], "adv-pong": ["AdvResp"], "adv-cpreq": ["AdvCpReq"], "adv-ping": ["AdvPing"]}


def expected_actions(cfgname):
    """the actions a configuration enables (its Acts constant): each of them must be taken (vacuity)"""
    import re
    from ..tlc import SPECS
    with open(os.path.join(SPECS, cfgname), encoding="utf-8") as f:
        text = f.read()
    acts = re.findall(r'"([a-z-]+)"', re.search(r"\bActs = \{([^}]*)\}", text).group(1))
    out = {"Recv"}
    for a in acts:
        out.update(ACT_OF[a])
    if re.search(r"\bJumps = \{\s*\d", text):
        out.update({"Advance", "TimeoutReq"})
    return out


# ---------------------------------------------------------------------------------------------------
# reading the TLC state
# ---------------------------------------------------------------------------------------------------
def seq(v):
    """TLC prints a function with domain 1..n either as a sequence or as (1 :> a @@ 2 :> b)"""
    if isinstance(v, dict):
        return tuple(v[k] for k in sorted(v))
    return tuple(v)


def cfg_constants(cfgname):
    from ..tlc import SPECS
    with open(os.path.join(SPECS, cfgname), encoding="utf-8") as f:
        text = f.read()
    import re

    def setof(name):
        m = re.search(r"\b%s = \{([^}]*)\}" % name, text)
        return [int(x) for x in m.group(1).split(",") if x.strip()] if m else []

    def num(name):
        return int(re.search(r"\b%s = (\d+)" % name, text).group(1))
    return {"nodes": setof("Nodes"), "adv": setof("Adv"), "alt": setof("AltAddr"), "enough": num("Enough"),
            "timeout": num("Timeout"), "t0": num("PingInterval")}


def spec_node(st, n):
    """the part of a TLC state that belongs to node n, in the shape of World.project_node"""
    i = n - 1
    store = {}
    for k, lst in enumerate(seq(st["store"])[i], start=1):
        lst = seq(lst)
        if lst:
            store[k] = tuple(FrozenDict(e) for e in lst)
    sfm = tuple(FrozenDict({"m": e["m"], "failed": e["failed"], "lp": e["lp"]}) for e in seq(seq(st["sfm"])[i]))
    reqs = frozenset(FrozenDict({"id": r["id"], "ty": r["ty"], "to": r["to"], "dl": r["dl"]}) for r in seq(st["reqs"])[i])
    toks = {m: t for m, t in enumerate(seq(seq(st["tokens"])[i]), start=1) if m != n}
    call = seq(st["call"])[i]
    res = seq(st["res"])[i]
    return {"store": store, "sfm": sfm, "reqs": reqs, "down": seq(st["down"])[i], "tokens": toks, "ph": call["ph"],
            "callkey": call["key"] if call["ph"] != "idle" else 0,
            "res": None if res["kind"] == "none" else FrozenDict(res)}


def compare(w, st, consts):
    diffs = {}
    for n in consts["nodes"]:
        exp, got = spec_node(st, n), w.project_node(n)
        if n in consts["adv"]:
            exp.pop("tokens"), got.pop("tokens")      # the adversary's tokens live in the harness
        for k in exp:
            if exp[k] != got[k]:
                diffs["%s[%d]" % (k, n)] = {"spec": exp[k], "impl": got[k]}
    return diffs


# ---------------------------------------------------------------------------------------------------
# binding R
# ---------------------------------------------------------------------------------------------------
JUNK_TOKEN = b"\x13" * 20


def apply_action(w, src, name, args, dst, variant):
    """-> spec messages the real code put on the wire in this step"""
    from ..g07_world import JUNK, NOTOK, mk
    if name == "GetToken":
        w.get_token(*args)
        w.collect()
        return []
    if name == "Rotate":
        w.rotate(args[0])
        return []
    if name == "StorePeer":
        return w.store_peer(args[0], args[1])
    if name == "ConnectPeer":
        return w.connect_peer(*args)
    if name == "ConnectFound":
        return w.connect_found(args[0], args[1], variant)
    if name == "Recv":
        return w.recv(args[0], seq(src["wire"])[args[1] - 1])
    if name == "AdvSpReq":
        x, n, fa, k, y = args
        return w.forged(x, n, mk("spreq", x, fa, n, 0, key=k, tok=JUNK if y == 0 else NOTOK),
                        tokbytes=JUNK_TOKEN if y == 0 else w.advtok[(x, y)])
    if name == "AdvResp":
        x, n, t, ident, nd = args
        nds = frozenset([FrozenDict({"k": x, "a": x})]) if nd else frozenset()
        return w.forged(x, n, mk(t, x, x, n, ident, nds=nds))
    if name == "AdvCpReq":
        x, n, fa, k, lan = args
        return w.forged(x, n, mk("cpreq", x, fa, n, 0, key=k, lan=lan))
    if name == "AdvPing":
        x, n = args
        return w.forged(x, n, mk("ping", x, x, n, 0))
    if name == "PingAll":
        return w.ping_all(args[0])
    if name == "TimeoutReq":
        return w.timeout(*args)
    if name == "Unload":
        return w.unload(args[0])
    if name == "Advance":
        w.set_clock(dst["clock"])
        return []
    raise MachineryError("unknown action %s" % name)


def classify(name, diffs):
    """stable signature; the two defects of the pinned code get their own"""
    for k, d in diffs.items():
        if k.startswith("res[") and d["impl"] is not None:
            if name == "ConnectPeer" and d["impl"]["kind"] == "local" and not d["impl"]["nodes"]:
                return "G07-1:connect_peer-empty-list-from-the-local-table"
            if name == "TimeoutReq" and d["impl"]["kind"] == "pinged" and not d["impl"]["answered"]:
                return "G07-2:connect_peer-returns-the-peer-after-an-unanswered-ping"
    return "replay:%s:%s" % (name, ",".join(sorted(k.split("[")[0] for k in diffs)))


def run_steps(ctx, facet, cfgname, consts, steps, prov, labels_seen, variant=0):
    """steps: iterable of (src state, action name, args, dst state) -> (operations done, labels, diverged?)"""
    from ..g07_world import Escape, World
    w = World(consts["nodes"], adv=consts["adv"], alt=consts["alt"], t0=consts["t0"], enough=consts["enough"],
              timeout_units=consts["timeout"], via_provider=prov)
    labels = []
    nops = 0
    bad = False
    try:
        for src, name, args, dst in steps:
            labels.append("%s%s" % (name, json.dumps(_plain(args))))
            key = name if name != "Recv" else "Recv:" + seq(src["wire"])[args[1] - 1]["t"]
            key = key if name != "AdvResp" else "AdvResp:" + args[2]
            labels_seen[key] = labels_seen.get(key, 0) + 1
            try:
                out = apply_action(w, src, name, args, dst, variant)
            except Escape as e:
                ctx.violation("escape:%s" % name, "%s (after %s)" % (e, labels[-1]),
                              {"facet": facet, "cfg": cfgname, "actions": labels, "via_provider": prov})
                bad = True
                break
            diffs = compare(w, dst, consts)
            exp_wire = set(seq(dst["wire"]))
            got_wire = set(seq(src["wire"])) | set(out)
            if exp_wire != got_wire:
                diffs["wire"] = {"spec_only": sorted(map(_plain, exp_wire - got_wire), key=str),
                                 "impl_only": sorted(map(_plain, got_wire - exp_wire), key=str)}
            nops += 1
            if diffs:
                sig = classify(name, diffs)
                ctx.violation(sig, "real DHTDiscoveryCommunity diverges from DhtDiscovery.tla (%s) after %s: %s" % (
                    facet, labels[-1], json.dumps(_plain(diffs), sort_keys=True)[:900]),
                    {"facet": facet, "cfg": cfgname, "actions": labels, "via_provider": prov, "diff": _plain(diffs)})
                bad = True
                break
    finally:
        w.close()
    for n, what in w.provider_problems:
        ctx.violation("provider:peer_lookup", "DHTCommunityProvider.peer_lookup did not return None quietly at node %d: %s" % (
            n, what), {"facet": facet, "cfg": cfgname, "actions": labels})
    return nops, labels, bad


def replay_graph(ctx, facet, cfgname, r, g, max_ops, stop_after=3, walks=None, via_provider=None):
    consts = cfg_constants(cfgname)
    nwalks = nops = 0
    covered = set()
    labels_seen = {}
    nviol0 = len(ctx.violations)
    complete_changing = False
    if walks is None and isinstance(max_ops, tuple):
        # every transition that changes the state, then a sample of all transitions (incl. refused / ignored input)
        extra = max_ops[1]
        complete_changing = True

        def changing_then_sample():
            yield from edge_cover(g, max_ops=None, seed=ctx.seed, skip_self_loops=True)
            yield from edge_cover(g, max_ops=extra, seed=ctx.seed + 17)
        walks = changing_then_sample()
    elif walks is None and max_ops is not None:
        # a budget: the transitions that change the state first (70 %), then a sample of all
        def budgeted():
            yield from edge_cover(g, max_ops=int(max_ops * 0.7), seed=ctx.seed, skip_self_loops=True)
            yield from edge_cover(g, max_ops=max_ops - int(max_ops * 0.7), seed=ctx.seed + 17)
        walks = budgeted()
    for init, walk in (walks if walks is not None else edge_cover(g, max_ops=None, seed=ctx.seed)):
        prov = bool(nwalks % 2) if via_provider is None else via_provider
        steps = [(g.states[g.edges[ei][0]], g.edges[ei][1], g.edges[ei][2], g.states[g.edges[ei][3]]) for ei in walk]
        n, labels, bad = run_steps(ctx, facet, cfgname, consts, steps, prov, labels_seen, nwalks)
        nops += n
        covered.update(walk[:n])
        nwalks += 1
        ctx.nontrivial((facet, tuple(walk)))
        if nwalks <= 1:
            ctx.sample({"facet": facet, "replayed_walk": labels[:12]})
        if len(ctx.violations) - nviol0 >= stop_after:
            break
    ctx.evaluated(nops)
    ctx.traces(nwalks)
    ctx.note("replay_" + facet, {"walks": nwalks, "real_operations": nops, "graph_states": len(g.states),
                                 "graph_edges": len(g.edges), "edges_covered": len(covered),
                                 "complete_edge_cover": len(covered) == len(g.edges),
                                 "state_changing_edges": sum(1 for e in g.edges if e[0] != e[3]),
                                 "state_changing_edges_covered": sum(1 for ei in covered if g.edges[ei][0] != g.edges[ei][3]),
                                 "operations_by_kind": labels_seen})
    return labels_seen


def simulate_part(ctx, cfgname, num, depth):
    """random behaviours of the whole model (all action families at once, deeper than the exhaustive graphs)"""
    import glob
    from ..tlc import parse_simulate_file
    tmp = scratch_dir("g07s-")
    try:
        r = run_tlc(MC, cfgname, simulate="file=%s,num=%d" % (os.path.join(tmp, "b"), num), depth=depth, seed=ctx.seed + 1,
                    coverage=False, workers=1, timeout=1500)
        if not r.ok:
            raise MachineryError("DhtDiscovery %s (simulation): TLC reports %s on the specification itself" % (cfgname, r.violated))
        behs = [parse_simulate_file(f) for f in sorted(glob.glob(os.path.join(tmp, "b_*")))]
    finally:
        shutil.rmtree(tmp, ignore_errors=True)
    if not behs:
        raise MachineryError("TLC -simulate wrote no behaviours")
    consts = cfg_constants(cfgname)
    labels_seen, nops, nb = {}, 0, 0
    nviol0 = len(ctx.violations)
    for bi, beh in enumerate(behs):
        steps = [(beh[j - 1][2], beh[j][0], beh[j][1], beh[j][2]) for j in range(1, len(beh))]
        n, labels, bad = run_steps(ctx, "simulate", cfgname, consts, steps, bool(bi % 2), labels_seen, bi)
        nops += n
        nb += 1
        ctx.nontrivial(("simulate", tuple(labels)))
        if len(ctx.violations) - nviol0 >= 3:
            break
    ctx.evaluated(nops)
    ctx.traces(nb)
    ctx.note("simulate", {"behaviours": nb, "real_operations": nops, "longest": max(len(b) for b in behs) - 1,
                          "operations_by_kind": labels_seen})


def _plain(v):
    if isinstance(v, dict):
        return {str(k): _plain(x) for k, x in v.items()}
    if isinstance(v, (set, frozenset)):
        return sorted((_plain(x) for x in v), key=lambda x: json.dumps(x, sort_keys=True, default=str))
    if isinstance(v, (tuple, list)):
        return [_plain(x) for x in v]
    return v


def model_check(cfgname, dump):
    tmp = scratch_dir("g07-")
    try:
        dot = os.path.join(tmp, "g.dot") if dump else None
        r = run_tlc(MC, cfgname, dump=dot, timeout=1500)
        if not r.ok:
            raise MachineryError("DhtDiscovery %s: TLC reports %s on the specification itself" % (cfgname, r.violated))
        missing = [a for a in expected_actions(cfgname) if r.coverage.get(a, (0, 0))[1] == 0]
        if missing:
            raise MachineryError("DhtDiscovery %s is vacuous: actions never taken: %s" % (cfgname, missing))
        g = parse_dot(dot) if dump else None
        return r, g
    finally:
        shutil.rmtree(tmp, ignore_errors=True)


# ---------------------------------------------------------------------------------------------------
# counterexamples of the deviant models: the real code must NOT follow them
# ---------------------------------------------------------------------------------------------------
def parse_trace_label(label):
    from ..tlc import parse_label
    head = label.split(" line ")[0].strip()
    return parse_label(head)


def follow_counterexample(cfgname, r, sabotage=None):
    """Replays the error trace TLC found for a deviant model on real overlays.
    -> (followed_to_the_end, steps_done, first_difference, labels)"""
    from ..g07_world import Escape, World
    consts = cfg_constants(cfgname)
    w = World(consts["nodes"], adv=consts["adv"], alt=consts["alt"], t0=consts["t0"], enough=consts["enough"],
              timeout_units=consts["timeout"], sabotage=sabotage)
    labels = []
    try:
        states = [st for _l, st in r.error_trace]
        if any("_raw" in st for st in states):
            raise MachineryError("unparsable state in the counterexample of %s" % cfgname)
        for j in range(1, len(r.error_trace)):
            name, args = parse_trace_label(r.error_trace[j][0])
            labels.append("%s%s" % (name, json.dumps(_plain(args))))
            src, dst = states[j - 1], states[j]
            try:
                out = apply_action(w, src, name, args, dst, 0)
            except Escape as e:
                return False, j - 1, {"escape": repr(e)}, labels
            diffs = compare(w, dst, consts)
            if set(seq(dst["wire"])) != set(seq(src["wire"])) | set(out):
                diffs["wire"] = {"spec_only": _plain(set(seq(dst["wire"])) - set(seq(src["wire"])) - set(out)),
                                 "impl_only": _plain(set(out) - set(seq(dst["wire"])))}
            if diffs:
                return False, j - 1, _plain(diffs), labels
        return True, len(states) - 1, None, labels
    finally:
        w.close()


DEVIATION_SIG = {"emptykey": "G07-1:connect_peer-empty-list-from-the-local-table",
                 "pingtimeout": "G07-2:connect_peer-returns-the-peer-after-an-unanswered-ping"}


def deviations_part(ctx, ctl):
    rows = {}
    for name, prop, what in CONTROLS:
        rr = ctl[name].result()
        ctx.control("spec control %s: %s violates %s" % (name, what, prop), rr.violated == prop)
        followed, steps, diff, labels = follow_counterexample("DhtDiscovery_ctl_%s.cfg" % name, rr)
        rows[name] = {"violates": prop, "counterexample": labels, "real_code_follows_it": followed,
                      "diverges_after_steps": None if followed else steps,
                      "difference": None if followed else sorted(diff)}
        if diff and "escape" in diff:
            ctx.violation("escape:deviation:%s" % name, "exception while replaying %s: %s" % (labels, diff["escape"]),
                          {"part": "deviation", "control": name, "actions": labels})
        ctx.evaluated(len(labels))
        ctx.nontrivial(("deviation", name, tuple(labels)))
        if followed:
            ctx.violation(DEVIATION_SIG.get(name, "deviation:%s" % name),
                          "the real code follows the counterexample of the deviant model '%s' (%s) step by step: %s violated "
                          "by %s" % (name, what, prop, " ; ".join(labels)),
                          {"part": "deviation", "control": name, "violates": prop, "actions": labels})
    ctx.note("deviant_counterexamples", rows)
    return rows


def binding_controls(ctx, ctl, g_store, cfg_store):
    """the replay comparison must notice (a) an altered expected state, (b) an overlay whose token check is disabled"""
    from ..g07_world import World
    consts = cfg_constants(cfg_store)
    # (a) first walk that stores somebody: drop the entry from the expected state
    fired = False
    for init, walk in edge_cover(g_store, max_ops=4000, seed=ctx.seed):
        w = World(consts["nodes"], adv=consts["adv"], alt=consts["alt"], t0=consts["t0"], enough=consts["enough"],
                  timeout_units=consts["timeout"])
        try:
            for ei in walk:
                s, name, args, d = g_store.edges[ei]
                apply_action(w, g_store.states[s], name, args, g_store.states[d], 0)
                dst = g_store.states[d]
                if any(seq(lst) for per in seq(dst["store"]) for lst in seq(per)):
                    bad = dict(dst)
                    bad["store"] = tuple(tuple(() for _ in seq(per)) for per in seq(dst["store"]))
                    fired = bool(compare(w, bad, consts)) and not compare(w, dst, consts)
                    break
        finally:
            w.close()
        if fired:
            break
    ctx.control("replay: an expected state with the stored entry removed is reported as a difference", fired)
    # (b) sabotage: token check disabled on the instances -> the deviant counterexample must be followed to its end
    rr = ctl["notoken"].result()
    followed, _steps, _diff, _labels = follow_counterexample("DhtDiscovery_ctl_notoken.cfg", rr, sabotage="notoken")
    ctx.control("replay: overlays whose check_token always succeeds follow the counterexample of the deviant model", followed)
    rr = ctl["nosweep"].result()
    followed, _steps, _diff, _labels = follow_counterexample("DhtDiscovery_ctl_nosweep.cfg", rr, sabotage="nosweep")
    ctx.control("replay: overlays whose ping_all never expires entries follow the counterexample of the deviant model", followed)


# ---------------------------------------------------------------------------------------------------
# the provider on a real network (supplementary: round trip of introduction points through the real DHT)
# ---------------------------------------------------------------------------------------------------
def provider_part(ctx, seed):
    from ..g07_world import provider_round_trip
    rep = provider_round_trip(seed)
    for sig, what in rep["problems"]:
        ctx.violation("provider:" + sig, what, {"part": "provider", "seed": seed})
    ctx.evaluated(rep["checks"])
    ctx.note("provider_round_trip", {k: v for k, v in rep.items() if k != "problems"})


def replay_file(ctx, path):
    """./check G07 --replay <file>: re-executes the recorded failing input only"""
    with open(path, encoding="utf-8") as f:
        obj = json.load(f)["replay"]
    if obj.get("part") == "deviation":
        rr = run_tlc(MC, "DhtDiscovery_ctl_%s.cfg" % obj["control"], coverage=False, timeout=900)
        pool_like = {obj["control"]: type("R", (), {"result": staticmethod(lambda rr=rr: rr)})()}
        global CONTROLS
        saved, CONTROLS = CONTROLS, [c for c in CONTROLS if c[0] == obj["control"]]
        try:
            deviations_part(ctx, pool_like)
        finally:
            CONTROLS = saved
        return
    if obj.get("part") == "provider":
        provider_part(ctx, obj["seed"])
        return
    r, g = model_check(obj["cfg"], True)
    cur, walk = g.init[0], []
    for lab in obj["actions"]:
        for ei in g.out.get(cur, ()):
            _s, name, args, d = g.edges[ei]
            if "%s%s" % (name, json.dumps(_plain(args))) == lab:
                walk.append(ei)
                cur = d
                break
        else:
            raise MachineryError("replay: %s is not a step of the specification here" % lab)
    replay_graph(ctx, obj["facet"], obj["cfg"], r, g, None, walks=[(g.init[0], walk)], via_provider=obj.get("via_provider"))


def run(tier, seed, replay=None):
    setup_repo_path()
    ctx = Ctx(PID, tier, seed, "model_checking")
    if replay:
        replay_file(ctx, replay)
        from .. import vloop
        vloop.uninstall()
        return ctx.finish()
    ctx.cov["rule"] = ("TLC explores three facets of DhtDiscovery.tla (store-peer with an adversary and token rotation; "
                       "keep-alive with the clock, pings, time-outs and expiry; connect_peer with the local table, the ping "
                       "shortcut, lookups, punctures, shutdown); every transition of the dumped graphs is one operation on real "
                       "DHTDiscoveryCommunity overlays (edge cover) with the projected state and the emitted datagrams compared; "
                       "the counterexample of every deviant model is replayed as well and the real code must leave it; "
                       "non-trivial = distinct replayed walks and counterexamples")
    ctx.assumptions += ["signatures are unforgeable (an adversary signs with its own key only); sha1 tokens do not collide",
                        "find_nodes (the crawl, DhtCrawl.tla) is abstracted as its result; the per-node rate limiter "
                        "(DhtNode.tla) is reset by the harness before every delivery; TARGET_NODES is set to 2*Enough",
                        "a response is matched by identifier only, a repeated store-peer request does not refresh the entry, an "
                        "entry keeps its first address: allowed (intent not stated)"]
    quick = tier == "quick"
    if quick:
        facets = [("store", "DhtDiscovery_store_q.cfg", 4000), ("keep", "DhtDiscovery_keep_q.cfg", 4500),
                  ("local", "DhtDiscovery_local_q.cfg", 3500), ("conn", "DhtDiscovery_conn_q.cfg", 4500),
                  ("punct", "DhtDiscovery_punct.cfg", 2500)]
        mc_only = []
    else:
        facets = [("store", "DhtDiscovery_store_q.cfg", None), ("store_full", "DhtDiscovery_store.cfg", 8000),
                  ("keep", "DhtDiscovery_keep_q.cfg", ("changing", 5000)), ("keep_full", "DhtDiscovery_keep.cfg", 8000),
                  ("local", "DhtDiscovery_local_q.cfg", ("changing", 5000)), ("local_full", "DhtDiscovery_local.cfg", 8000),
                  ("conn", "DhtDiscovery_conn_q.cfg", ("changing", 5000)), ("conn_adv", "DhtDiscovery_conn_a.cfg", 8000),
                  ("conn_unload", "DhtDiscovery_conn_r.cfg", 10000), ("punct", "DhtDiscovery_punct.cfg", ("changing", 5000))]
        mc_only = [("conn_full", "DhtDiscovery_conn.cfg")]
    pool = cf.ThreadPoolExecutor(max_workers=6)
    try:
        graphs = {facet: pool.submit(model_check, cfgname, True) for facet, cfgname, _m in facets}
        ctl = {name: pool.submit(run_tlc, MC, "DhtDiscovery_ctl_%s.cfg" % name, coverage=False, timeout=900)
               for name, _p, _w in CONTROLS}
        # "sometimes" formulas (non-vacuity of the model itself, independent of the code): thorough tier
        wit = {w: pool.submit(run_tlc, MC, "DhtDiscovery_wit_%s.cfg" % w.lower(), coverage=False, timeout=900)
               for w in ([] if quick else WITNESSES)}
        bigs = {tag: pool.submit(run_tlc, MC, cfgname, timeout=3000) for tag, cfgname in mc_only}
        deviations_part(ctx, ctl)
        g_first = None
        for facet, cfgname, max_ops in facets:
            r, g = graphs[facet].result()
            ctx.add_tlc(facet, r)
            if g_first is None:
                g_first = (g, cfgname)
            replay_graph(ctx, facet, cfgname, r, g, max_ops)
            graphs[facet] = None
        binding_controls(ctx, ctl, *g_first)
        for w, fut in wit.items():          # "sometimes" formulas: the situations the properties talk about do occur
            if fut.result().violated != "Witness" + w:
                raise MachineryError("vacuous model: the situation %s never occurs" % w)
        ctx.note("witnessed_situations", sorted(wit))
        for tag, fut in bigs.items():
            rb = fut.result()
            if not rb.ok:
                raise MachineryError("%s: %s" % (tag, rb.violated))
            ctx.add_tlc(tag, rb)
        simulate_part(ctx, "DhtDiscovery_sim.cfg", 80 if quick else 700, 60)
        provider_part(ctx, seed)
    finally:
        pool.shutdown(wait=True, cancel_futures=True)
    ctx.cov["exhaustive"] = True
    from .. import vloop
    vloop.uninstall()
    return ctx.finish()
