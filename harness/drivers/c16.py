"""C16 - TokenTree: model checking of specs/TokenTree.tla, replay of its state graph on the real
TokenTree (binding R) and TLC validation of recorded histories of larger random trees (binding T).

Spec actions and their real counterparts: Gather(t, wc) = gather_token of a freshly built Token; ReceiveContent = Token.receive_content;
Unserialize(seq) = unserialize_public of the concatenated chunks of seq (any order; forged / foreign / dangling chunks; result compared
with `ret`); Init's `view` = how the TokenTree object is constructed (bare public key, full key object, the owner's own tree)."""
from __future__ import annotations

import json
import os
import random
import multiprocessing
import re
import shutil
import time
from concurrent.futures import ProcessPoolExecutor, ThreadPoolExecutor
from concurrent.futures.process import BrokenProcessPool
from types import SimpleNamespace
from hashlib import sha3_256

from ..common import Ctx, setup_repo_path
from ..replay import diff_states, edge_cover
from ..tlc import MachineryError, parse_dot, run_tlc, scratch_dir

PID = "C16"
TRACE_N = 24


class World:
    """Real keys and real Token objects for one tree shape (one TLC initial state)."""

    def __init__(self, n, parent, fpar, owner, other):
        from ipv8.attestation.tokentree.token import Token
        from ipv8.attestation.tokentree.tree import TokenTree
        self.n = n
        self.owner, self.other = owner, other
        self.TokenTree = TokenTree
        self.Token = Token
        # documented genesis pointer: SHA3-256(PUBLIC KEY) - computed here, not taken from a tree object
        self.pub_bin = owner.pub().key_to_bin()
        self.genesis = sha3_256(self.pub_bin).digest()
        self.tok = {}     # id -> (token without content, token with content)
        self.content = {}
        self.id_of = {}
        f, d = n + 1, n + 2

        def make(i, prev, key):
            c = b"content-%d" % i
            with_c = Token(prev, content=c, private_key=key)
            without = Token(prev, content_hash=with_c.content_hash, signature=with_c.signature)
            self.tok[i] = (without, with_c)
            self.content[i] = c
            self.id_of[with_c.get_hash()] = i

        def h(i):
            return self.genesis if i == 0 else self.tok[i][0].get_hash()
        # forged token first if good tokens may hang below it? (Par(F) in {0,1}; good tokens never point to F)
        for i in range(1, n + 1):
            make(i, h(parent[i - 1]), owner)
        make(f, h(fpar), other)          # signed by a foreign key: does not verify under the tree key
        make(d, h(f), owner)             # valid signature, parent is the forged token

    def fresh(self, ucap, view="pub"):
        """A new tree object, built the way the spec's `view` says (Init of TokenTree.tla)."""
        self.decoy = self.TokenTree(public_key=self.other.pub())    # the view of another key's tree (see gather)
        self.decoy.unchained_max_size = ucap
        if view == "pub":
            t = self.TokenTree(public_key=self.owner.pub())
        elif view == "full":
            t = self.TokenTree(public_key=self.owner)     # a key object that also carries the secret part
        elif view == "own":
            t = self.TokenTree(private_key=self.owner)
        else:
            raise MachineryError("unknown view %r" % (view,))
        t.unchained_max_size = ucap
        return t

    def chunk(self, t):
        return self.tok[t][0].get_plaintext_signed()

    def split(self, blob):
        size = len(self.chunk(1))
        return sorted(blob[i:i + size] for i in range(0, len(blob), size))

    def unserialize(self, tree, seq):
        """Unserialize(seq): one wire string made of the chunks of seq, in that order."""
        return tree.unserialize_public(b"".join(self.chunk(t) for t in seq))

    def gather(self, tree, t, wc):
        src = self.tok[t][1 if wc else 0]
        # a fresh object per offer, as a receiver would build it from the wire / database
        self.n_made = getattr(self, "n_made", 0) + 1
        if self.n_made % 3 == 0:
            # as rebuilt from a stored row; for Gather(t, FALSE) a row whose content column does not hash to the signed
            # pointer (corrupt / tampered): the spec's "copy without content" covers it - nothing may be attached
            tok = self.Token.from_database_tuple(src.previous_token_hash, src.signature, src.content_hash,
                                                 self.content[t] if wc else b"content that does not match")
        else:
            tok = self.Token(src.previous_token_hash, content_hash=src.content_hash, signature=src.signature)
            if wc:
                tok.receive_content(self.content[t])
        # tokens carry no key: a receiver offers one and the same object to the views of several trees. The view of the
        # OTHER key sees it first here; whatever that tree concludes must not influence the tree under test.
        self.n_offer = getattr(self, "n_offer", 0) + 1
        if self.n_offer % 2:
            self.decoy.gather_token(tok)
        return tree.gather_token(tok)

    def project(self, tree):
        els = tuple(self.id_of[h] for h in tree.elements)
        for h, tok in tree.elements.items():
            if tok.get_hash() != h:
                raise AssertionError("elements key is not the token hash")
        unch = tuple(self.id_of[t.get_hash()] for t in tree.unchained)
        cont = frozenset([self.id_of[h] for h, t in tree.elements.items() if t.content is not None] +
                         [self.id_of[t.get_hash()] for t in tree.unchained if t.content is not None])
        return {"elements": els, "unchained": unch, "cont": cont,
                # the anchor of the chain, documented as SHA3-256(PUBLIC KEY) and used by callers to make root tokens
                "treeKey": "ownerPub" if tree.genesis_hash == self.genesis else "ownerFull"}


def check_queries(w, tree, st, parent_of, view="pub", pick=0):
    """verify()/get_root_path()/get_missing()/serialize_public round trips against what the spec state implies."""
    problems = []
    els = st["elements"]
    for t in els:
        tok = tree.elements[w.tok[t][0].get_hash()]
        if not tree.verify(tok):
            problems.append("verify(%d) is False for a contained token" % t)
        path = [w.id_of[x.get_hash()] for x in tree.get_root_path(tok)]
        exp, cur = [t], t
        while parent_of(cur) != 0:
            cur = parent_of(cur)
            exp.append(cur)
        if path != exp:
            problems.append("get_root_path(%d) = %s, spec %s" % (t, path, exp))
    for bad in (w.n + 1, w.n + 2):
        if tree.verify(w.tok[bad][0]):
            problems.append("verify() accepts the bad token %d" % bad)
    missing = {w.tok[t][0].previous_token_hash for t in st["unchained"]}
    if tree.get_missing() != missing:
        problems.append("get_missing disagrees with the waiting area")
    # serialize_public() lists the chunks of `elements` (their order in the string is not part of the property) ...
    blob = tree.serialize_public()
    if w.split(blob) != sorted(w.chunk(t) for t in els):
        problems.append("serialize_public() does not list exactly the chunks of the contained tokens")
    # ... and reloads to the same tree, reporting success (spec: PublicRoundTrip, PublicReloadsClean hold in this state)
    ucap = tree.unchained_max_size
    fresh = w.fresh(ucap, view)
    ok = fresh.unserialize_public(blob)
    if set(fresh.elements) != set(tree.elements):
        problems.append("serialize_public/unserialize_public does not reload the same tree")
    elif ok is not True:
        problems.append("unserialize_public reports failure for the tree's own public serialisation")
    # serialize_public(up_to = t) is PathSeq(t): t, parent(t), ... root - leaf FIRST; while the waiting area can hold the
    # path it reloads to exactly that path (spec: PathRoundTrip).  One token per walk (they rotate over the walks).
    if els:
        t = els[pick % len(els)]
        exp, cur = [t], t
        while parent_of(cur) != 0:
            cur = parent_of(cur)
            exp.append(cur)
        blob = tree.serialize_public(up_to=tree.elements[w.tok[t][0].get_hash()])
        if w.split(blob) != sorted(w.chunk(x) for x in exp):
            problems.append("serialize_public(up_to=%d) does not list exactly the chunks of the root path %s" % (t, exp))
        elif len(exp) <= ucap + 1:
            fresh = w.fresh(ucap, view)
            fresh.unserialize_public(blob)
            got = sorted(w.id_of.get(h, -1) for h in fresh.elements)
            if got != sorted(exp):
                problems.append("serialize_public(up_to)/unserialize_public: path %s reloads to %s" % (exp, got))
    return problems


def tlc_graph(cfgname):
    """TLC on TokenTree.tla with a dump of the state graph -> (TlcResult, Graph).  Runs in a worker thread."""
    tmp = scratch_dir("c16-")
    try:
        dot = os.path.join(tmp, "g.dot")
        r = run_tlc("TokenTree.tla", cfgname, dump=dot, coverage=False, java_opts=("-Xmx3g",))
        if not r.ok:
            raise MachineryError("TokenTree %s: TLC reports %s on the specification itself" % (cfgname, r.violated))
        g = parse_dot(dot)
    finally:
        shutil.rmtree(tmp, ignore_errors=True)
    # per-action transition counts from the dumped graph itself (the vacuity reading; no -coverage run needed)
    cnt, dist, seen = {}, {}, set()
    for _s, name, _a, d in g.edges:
        cnt[name] = cnt.get(name, 0) + 1
        if d not in seen:
            seen.add(d)
            dist[name] = dist.get(name, 0) + 1
    r.coverage = {k: (dist.get(k, 0), v) for k, v in cnt.items()}
    return r, g


def replay_graph(ctx, cfgname, rg, n, ucap, max_ops, keys, tag, expect_actions, part=0, nparts=1):
    """Replays the walks number part, part + nparts, ... of the edge cover; -> statistics (merged by the caller)."""
    r, g = rg
    for a in expect_actions:
        if not r.coverage.get(a, (0, 0))[1]:
            raise MachineryError("TokenTree %s: action %s is never taken (vacuous)" % (cfgname, a))
    worlds = {}
    nwalks = nedges = nreal = 0
    covered = set()
    views = set()
    for wi, (init, walk) in enumerate(edge_cover(g, max_ops=max_ops, seed=ctx.seed)):
        if wi % nparts != part:
            continue
        st0 = g.states[init]
        key = (st0["parent"], st0["fpar"])
        if key not in worlds:
            worlds[key] = World(n, st0["parent"], st0["fpar"], *keys)
        w = worlds[key]
        view = st0["view"]
        views.add(view)
        tree = w.fresh(ucap, view)
        labels = []
        par = st0["parent"]

        def parent_of(t, par=par, st0=st0):
            return par[t - 1] if t <= n else (st0["fpar"] if t == n + 1 else n + 1)
        d = diff_states(st0, w.project(tree))
        if d:
            ctx.violation("replay:Init:%s" % ",".join(sorted(d)),
                          "a new TokenTree (view %r) is not the initial state of TokenTree.tla: %s" % (view, d),
                          {"cfg": cfgname, "view": view, "diff": d})
            break
        for ei in walk:
            _s, name, args, dst = g.edges[ei]
            labels.append("%s%s" % (name, list(args)))
            proj_ret = None
            if name == "Gather":
                proj_ret = w.gather(tree, args[0], args[1]) is not None
                nreal += 1
            elif name == "ReceiveContent":
                tok = tree.elements[w.tok[args[0]][0].get_hash()]
                tok.receive_content(w.content[args[0]] if args[1] else b"wrong content")
                nreal += 1
            elif name == "Unserialize":
                proj_ret = w.unserialize(tree, args[0])
                nreal += len(args[0])
            else:
                raise MachineryError("unknown action " + name)
            proj = w.project(tree)
            if proj_ret is not None and g.states[dst]["ret"] != "-":
                proj["ret"] = proj_ret
            d = diff_states(g.states[dst], proj)
            covered.add(ei)
            nedges += 1
            if d:
                ctx.violation("replay:%s:%s" % (name, ",".join(sorted(d))),
                              "real TokenTree (view %r) diverges from TokenTree.tla after %s: %s" % (view, labels[-1], d),
                              {"cfg": cfgname, "view": view, "parent": list(st0["parent"]), "fpar": st0["fpar"],
                               "actions": labels, "diff": d})
                break
        else:
            probs = check_queries(w, tree, g.states[g.edges[walk[-1]][3]], parent_of, view, wi)
            for p in probs:
                ctx.violation("query:" + p.split("(")[0].split(":")[0].split(" path ")[0], p,
                              {"cfg": cfgname, "view": view, "parent": list(st0["parent"]), "fpar": st0["fpar"],
                               "actions": labels})
        nwalks += 1
        ctx.nontrivial((key, view, tuple(walk)))
        if wi < 2:
            ctx.sample({"tree_parents": list(st0["parent"]), "forged_parent": st0["fpar"], "view": view,
                        "actions": labels[-12:]})
        if ctx.violations:
            break
    ctx.evaluated(nreal)
    ctx.traces(nwalks)
    return {"walks": nwalks, "transitions_replayed": nedges, "real_operations": nreal, "views": views,
            "covered": covered}


# ---------------------------------------------------------------------------------------------------
# binding T: recorded histories of larger random trees validated by TLC (specs/TokenTreeTrace.tla)
# ---------------------------------------------------------------------------------------------------
VIEWS = ("pub", "full", "own")


def _shape(rng, n):
    shape = rng.choice(["chain", "wide", "random", "deep-forks"])
    if shape == "chain":
        return [i for i in range(n)]
    if shape == "wide":
        return [0] + [rng.choice([0, 1]) for _ in range(n - 1)]
    if shape == "deep-forks":
        return [0] + [max(0, i - rng.choice([0, 0, 1, 2])) for i in range(1, n)]
    return [rng.randrange(0, i + 1) for i in range(n)]


def _event(w, tree, kind, t, wc, ts, ret):
    p = w.project(tree)
    return {"k": kind, "t": t, "wc": wc, "ts": ts, "ret": bool(ret), "els": list(p["elements"]),
            "unch": list(p["unchained"]), "cont": sorted(p["cont"]), "key": p["treeKey"]}


def record_traces(ctx, keys, count, rng):
    """Histories of the real TokenTree: single offers (gather_token) mixed with wire strings (unserialize_public) whose
    chunks come in arbitrary order and include forged / foreign / dangling / garbage chunks; every way to build the tree."""
    traces = []
    n = TRACE_N
    for ti in range(count):
        parent = _shape(rng, n)
        fpar = rng.choice([0, 1])
        ucap = n + 2
        view = VIEWS[(ti + rng.randrange(3)) % 3] if ti >= 3 else VIEWS[ti]
        w = World(n, parent, fpar, *keys)
        tree = w.fresh(ucap, view)
        order = list(range(1, n + 3)) + [rng.randrange(1, n + 3) for _ in range(6)]
        rng.shuffle(order)
        if ti % 4 == 1:
            # a root path as serialize_public(up_to) lists it (leaf first) somewhere in the history
            leaf = rng.randrange(1, n + 1)
            path = [leaf]
            while parent[path[-1] - 1] != 0:
                path.append(parent[path[-1] - 1])
            at = rng.randrange(len(order))
            order[at:at] = [("wire", path)]
        events = [_event(w, tree, "I", 0, False, [], False)]
        i = 0
        while i < len(order):
            if isinstance(order[i], tuple):
                seq = order[i][1]
                i += 1
            elif rng.random() < 0.25:
                k = rng.randrange(2, 6)
                seq = []
                while len(seq) < k and i < len(order) and not isinstance(order[i], tuple):
                    seq.append(order[i])
                    i += 1
            else:
                seq = None
            if seq is None:
                t = order[i]
                i += 1
                wc = rng.random() < 0.3
                ret = w.gather(tree, t, wc) is not None
                events.append(_event(w, tree, "G", t, wc, [], ret))
                continue
            # the wire string: chunks of seq, some of them replaced / preceded by chunks that verify under no key
            # (random bytes, a genuine chunk with one signature bit flipped): for the spec these are the forged token
            chunks, ids = [], []
            for t in seq:
                roll = rng.random()
                if roll < 0.12:
                    chunks.append(bytes(rng.getrandbits(8) for _ in range(len(w.chunk(t)))))
                    ids.append(n + 1)
                elif roll < 0.24:
                    c = bytearray(w.chunk(t))
                    c[-1 - rng.randrange(8)] ^= 1 << rng.randrange(8)
                    chunks.append(bytes(c))
                    ids.append(n + 1)
                chunks.append(w.chunk(t))
                ids.append(t)
            ret = tree.unserialize_public(b"".join(chunks))
            events.append(_event(w, tree, "U", 0, False, ids, ret))
        traces.append({"parent": parent, "fpar": fpar, "ucap": ucap, "view": view, "events": events})
    return traces


def control_traces(keys, seed):
    """Wrong histories (what a broken implementation would have logged); each must be rejected by TokenTreeTrace.tla."""
    n = TRACE_N
    out = []

    def base(view="pub"):
        parent = [i for i in range(n)]                      # a chain 1 <- 2 <- ... <- n
        w = World(n, parent, 0, *keys)
        tree = w.fresh(n + 2, view)
        tr = {"parent": parent, "fpar": 0, "ucap": n + 2, "view": view,
              "events": [_event(w, tree, "I", 0, False, [], False)]}
        return w, tree, tr

    # 1. an element silently missing from the report
    w, tree, tr = base()
    for t in (1, 2, 3):
        ret = w.gather(tree, t, False) is not None
        tr["events"].append(_event(w, tree, "G", t, False, [], ret))
    tr["events"][-1]["els"] = tr["events"][-1]["els"][:-1]
    out.append(("trace with one element removed is rejected", tr))
    # 2. the forged token reported as contained
    w, tree, tr = base()
    for t in (1, n + 1):
        ret = w.gather(tree, t, False) is not None
        tr["events"].append(_event(w, tree, "G", t, False, [], ret))
    tr["events"][-1]["els"] = tr["events"][-1]["els"] + [n + 1]
    out.append(("trace reporting the forged token as contained is rejected", tr))
    # 3. a wire string whose chunks behind a parked chunk were skipped (leaf-first path: 3, 2, 1)
    w, tree, tr = base()
    ev = _event(w, tree, "U", 0, False, [3, 2, 1], False)
    ev["unch"] = [3]
    tr["events"].append(ev)
    out.append(("trace of a wire string that stops at its first parked chunk is rejected", tr))
    # 4. a wire string with a forged chunk in front, reported as 'all correct'
    w, tree, tr = base()
    ret = w.unserialize(tree, [n + 1, 1, 2])
    ev = _event(w, tree, "U", 0, False, [n + 1, 1, 2], ret)
    ev["ret"] = True
    tr["events"].append(ev)
    out.append(("trace of a wire string with a forged chunk reporting success is rejected", tr))
    # 5. a view built from a full key object that keeps that key (other genesis: takes nothing)
    w, tree, tr = base("full")
    tr["events"][0]["key"] = "ownerFull"
    ev = _event(w, tree, "G", 1, False, [], False)
    ev["key"] = "ownerFull"
    tr["events"].append(ev)
    out.append(("trace of a view (full key object) that refuses the owner's root token is rejected", tr))
    # 6. gather_token result None for a token that was taken
    w, tree, tr = base("own")
    ret = w.gather(tree, 1, False) is not None
    ev = _event(w, tree, "G", 1, False, [], ret)
    ev["ret"] = False
    tr["events"].append(ev)
    out.append(("trace where gather_token returns None for a token it chained is rejected", tr))
    return out


def run_trace_tlc(traces, continue_=False):
    tmp = scratch_dir("c16t-")
    try:
        path = os.path.join(tmp, "traces.json")
        with open(path, "w", encoding="utf-8") as f:
            json.dump(traces, f)
        return run_tlc("TokenTreeTrace.tla", "TokenTreeTrace.cfg", env={"TRACE_FILE": path}, coverage=False,
                       continue_=continue_, java_opts=("-Xmx3g",))
    finally:
        shutil.rmtree(tmp, ignore_errors=True)


def judge_traces(ctx, traces, r, tag):
    ctx.add_tlc(tag, r)
    if not r.ok:
        last = r.error_trace[-1][1] if r.error_trace else {}
        tid, l = last.get("tid"), last.get("l")
        if tid is None:         # "violated by the initial state": TLC prints that state without a "State 1:" header
            m = re.search(r"^/\\ tid = (\d+)$", r.output, re.M)
            tid, l = (int(m.group(1)), 1) if m else (None, None)
        bad = traces[tid - 1] if isinstance(tid, int) else None
        ev = bad["events"][l - 1] if bad and isinstance(l, int) and l <= len(bad["events"]) else None
        kind = {"G": "gather_token", "U": "unserialize_public", "I": "construction"}.get((ev or {}).get("k"), "?")
        ctx.violation("trace:%s:%s" % (r.violated, kind),
                      "recorded TokenTree history (view %r) is not a behaviour of TokenTree.tla (%s) at event %s (%s)"
                      % ((bad or {}).get("view"), r.violated, l, kind),
                      {"trace": bad, "event_index": l})
    else:
        ctx.traces(len(traces))
        ctx.evaluated(sum(len(t["events"]) + sum(len(e["ts"]) for e in t["events"]) for t in traces))
        for t in traces:
            ctx.nontrivial(("trace", t["view"], tuple(t["parent"]),
                            tuple((e["t"], tuple(e["ts"])) for e in t["events"])))
        ctx.note("traces", {"histories": len(traces),
                            "by_view": {v: sum(1 for t in traces if t["view"] == v) for v in VIEWS},
                            "gather_events": sum(1 for t in traces for e in t["events"] if e["k"] == "G"),
                            "wire_events": sum(1 for t in traces for e in t["events"] if e["k"] == "U"),
                            "wire_chunks": sum(len(e["ts"]) for t in traces for e in t["events"])})
    return r.ok


class _Rec:
    """Stand-in for Ctx inside a replay process: records the calls, the parent applies them to the real Ctx."""

    def __init__(self, seed):
        self.seed = seed
        self.calls = []
        self.violations = []

    def _rec(self, name, *a):
        self.calls.append((name, a))

    def add_tlc(self, tag, r):
        self._rec("add_tlc", tag, SimpleNamespace(distinct=r.distinct, generated=r.generated, depth=r.depth,
                                                  wall=r.wall, coverage=dict(r.coverage)))

    def violation(self, sig, desc, replay=None):
        self.violations.append(sig)
        self._rec("violation", sig, desc, replay)

    def evaluated(self, n=1):
        self._rec("evaluated", n)

    def nontrivial(self, key):
        self._rec("nontrivial", key)

    def sample(self, s):
        self._rec("sample", s)

    def traces(self, n=1):
        self._rec("traces", n)

    def note(self, key, value):
        self._rec("note", key, value)


_KEYS = None      # set before the replay processes are forked (key objects cannot be pickled)


_RG = None        # the parsed state graph, set before the part processes of one job are forked


def _replay_part(seed, cfgname, n, ucap, max_ops, tag, expect_actions, part, nparts):
    rec = _Rec(seed)
    st = replay_graph(rec, cfgname, _RG, n, ucap, max_ops, _KEYS, tag, expect_actions, part, nparts)
    return rec.calls, st


def _replay_job(seed, cfgname, n, ucap, max_ops, tag, expect_actions, nparts):
    """One state graph: TLC + dump + replay on the real TokenTree, in a process of its own (forked: keys are shared);
    the walks of the edge cover are dealt to nparts processes forked after the graph is parsed."""
    global _RG
    rec = _Rec(seed)
    t0 = time.monotonic()
    _RG = tlc_graph(cfgname)
    r, g = _RG
    rec.add_tlc(tag, r)
    t1 = time.monotonic()
    args = (seed, cfgname, n, ucap, max_ops, tag, expect_actions)
    if nparts == 1:
        results = [_replay_part(*args, 0, 1)]
    else:
        with ProcessPoolExecutor(max_workers=nparts, mp_context=multiprocessing.get_context("fork")) as pool:
            fs = [pool.submit(_replay_part, *args, i, nparts) for i in range(nparts)]
            try:
                results = [f.result() for f in fs]
            except BrokenProcessPool as e:
                raise MachineryError("a replay process died (%s)" % e) from e
    covered, views, tot = set(), set(), {"walks": 0, "transitions_replayed": 0, "real_operations": 0}
    for calls, st in results:
        rec.calls.extend(calls)
        covered |= st["covered"]
        views |= st["views"]
        for k in tot:
            tot[k] += st[k]
    rec.note("replay_" + tag, dict(tot, graph_states=len(g.states), graph_edges=len(g.edges), views=sorted(views),
                                   edges_covered=len(covered), complete_edge_cover=len(covered) == len(g.edges),
                                   processes=nparts))
    rec.note("wall_" + tag, {"tlc_and_parse_s": round(t1 - t0, 1), "replay_s": round(time.monotonic() - t1, 1)})
    return rec.calls


def run(tier, seed, replay=None):
    setup_repo_path()
    from ipv8.keyvault.crypto import default_eccrypto
    ctx = Ctx(PID, tier, seed, "model_checking")
    ctx.cov["rule"] = ("TLC enumerates every tree shape (parent function) x every arrival order incl. forged, dangling and "
                       "duplicate tokens, single offers and wire strings (every chunk order), every way to construct the "
                       "tree object; each transition of the dumped state graph is executed on the real TokenTree "
                       "(edge cover) and the projected elements/unchained/content/result/key compared with the TLC "
                       "state; non-trivial = distinct (tree shape, view, walk) triples and distinct recorded histories")
    ctx.assumptions += ["signature primitives of the key vault are trusted (used to build forged/foreign tokens)",
                        "hash collisions of SHA3-256 do not occur"]
    rng = random.Random(seed)
    keys = (default_eccrypto.generate_key("curve25519"), default_eccrypto.generate_key("curve25519"))
    quick = tier == "quick"
    small = ("-Xmx2g",)

    # binding R: one process per state graph (TLC + dump + replay), forked before any thread exists
    jobs = [("TokenTree_n4.cfg", 4, 6, None, "n4", ["Gather"], 3),
            ("TokenTree_wire.cfg", 3, 2, 9000 if quick else None, "wire", ["Gather", "Unserialize"], 1 if quick else 3),
            ("TokenTree_content.cfg", 3, 1, 30000 if quick else None, "content", ["Gather", "ReceiveContent"],
             1 if quick else 4)]
    if not quick:
        jobs.append(("TokenTree_n5.cfg", 5, 7, None, "n5", ["Gather"], 6))
    global _KEYS
    _KEYS = keys
    pp = ProcessPoolExecutor(max_workers=len(jobs), mp_context=multiprocessing.get_context("fork"))
    ex = None
    try:
        f_jobs = [pp.submit(_replay_job, seed, c, n, u, m, tag, acts, _k) for c, n, u, m, tag, acts, _k in jobs]
        ex = ThreadPoolExecutor(max_workers=6)
        # the large exhaustive run and the spec-level negative controls (each deviation switched on must violate the
        # named invariant) run beside them
        big = "n5" if quick else "n6"
        f_big = ex.submit(run_tlc, "TokenTree.tla", "TokenTree_%s.cfg" % big, coverage=False, timeout=7200)
        f_ctl = [("spec with first-child-only wake-up violates Complete", "Complete",
                  ex.submit(run_tlc, "TokenTree.tla", "TokenTree_pinned.cfg", coverage=False, java_opts=small)),
                 ("spec whose view keeps a full key object as given violates Complete", "Complete",
                  ex.submit(run_tlc, "TokenTree.tla", "TokenTree_ctl_key.cfg", coverage=False, java_opts=small)),
                 ("spec whose unserialize_public stops at the first refused chunk violates WireIsFold", "WireIsFold",
                  ex.submit(run_tlc, "TokenTree.tla", "TokenTree_ctl_wire.cfg", coverage=False, java_opts=small))]

        # binding T: record while TLC is busy, validate in the background
        rec_error = None
        f_tr = f_bad = None
        traces = []
        try:
            traces = record_traces(ctx, keys, 40 if quick else 400, rng)
            bad = control_traces(keys, seed)
            f_tr = ex.submit(run_trace_tlc, traces)
            f_bad = ex.submit(run_trace_tlc, [t for _n, t in bad], True)
        except MachineryError:
            raise
        except Exception:  # noqa: BLE001 - judged below: only a verdict if the replays confirm a divergence
            import traceback
            rec_error = traceback.format_exc()

        for f in f_jobs:
            try:
                calls = f.result()
            except BrokenProcessPool as e:
                raise MachineryError("a replay process died (%s)" % e) from e
            for name, a in calls:
                getattr(ctx, name)(*a)

        if f_tr is not None:
            judge_traces(ctx, traces, f_tr.result(), "trace")
            ctx.sample({"recorded_history": {"parent": traces[0]["parent"], "view": traces[0]["view"],
                                             "first_events": traces[0]["events"][:4]}})
            rb = f_bad.result()
            # every state TLC prints in this run belongs to a rejected history (also "violated by the initial state")
            rejected = {int(x) for x in re.findall(r"^/\\ tid = (\d+)$", rb.output, re.M)}
            for i, (name, _t) in enumerate(bad):
                ctx.control(name, (i + 1) in rejected)
        if rec_error is not None:
            if not ctx.violations:
                raise MachineryError("recording histories of the real TokenTree failed:\n" + rec_error)
            ctx.note("recording_failed", rec_error[-600:])

        for name, inv, f in f_ctl:
            ctx.control(name, f.result().violated == inv)
        rbig = f_big.result()
        if not rbig.ok:
            raise MachineryError("TokenTree_%s: %s" % (big, rbig.violated))
        # Gather is the only action of that configuration: every generated state but the initial ones is a Gather step
        m = re.search(r"Finished computing initial states: (\d+) distinct state", rbig.output)
        if m and rbig.generated > int(m.group(1)):
            rbig.coverage = {"Gather": (rbig.distinct - int(m.group(1)), rbig.generated - int(m.group(1)))}
        else:
            raise MachineryError("TokenTree_%s: no Gather step was explored" % big)
        ctx.add_tlc(big, rbig)
        ctx.cov["exhaustive"] = True
    finally:
        if ex is not None:
            ex.shutdown(wait=True, cancel_futures=True)
        pp.shutdown(wait=True, cancel_futures=True)
    return ctx.finish()
