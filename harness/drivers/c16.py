"""C16 - TokenTree: model checking of specs/TokenTree.tla, replay of its state graph on the real
TokenTree (binding R) and TLC validation of recorded histories of larger random trees (binding T)."""
from __future__ import annotations

import json
import os
import random
import shutil

from ..common import Ctx, setup_repo_path
from ..replay import diff_states, edge_cover
from ..tlc import MachineryError, parse_dot, run_tlc, scratch_dir

PID = "C16"
TRACE_N = 24


class World:
    """Real keys and real Token objects for one tree shape (one TLC initial state)."""

    def __init__(self, n, parent, fpar, owner, other):
        from ipv8.attestation.tokentree.token import Token
        from ipv8.attestation.tokentree.tree import TokenTree
        self.n = n
        self.owner, self.other = owner, other
        self.TokenTree = TokenTree
        self.Token = Token
        probe = TokenTree(public_key=owner.pub())
        self.genesis = probe.genesis_hash
        self.tok = {}     # id -> (token without content, token with content)
        self.content = {}
        self.id_of = {}
        f, d = n + 1, n + 2

        def make(i, prev, key):
            c = b"content-%d" % i
            with_c = Token(prev, content=c, private_key=key)
            without = Token(prev, content_hash=with_c.content_hash, signature=with_c.signature)
            self.tok[i] = (without, with_c)
            self.content[i] = c
            self.id_of[with_c.get_hash()] = i

        def h(i):
            return self.genesis if i == 0 else self.tok[i][0].get_hash()
        # forged token first if good tokens may hang below it? (Par(F) in {0,1}; good tokens never point to F)
        for i in range(1, n + 1):
            make(i, h(parent[i - 1]), owner)
        make(f, h(fpar), other)          # signed by a foreign key: does not verify under the tree key
        make(d, h(f), owner)             # valid signature, parent is the forged token

    def fresh(self, ucap):
        self.decoy = self.TokenTree(public_key=self.other.pub())    # the view of another key's tree (see gather)
        self.decoy.unchained_max_size = ucap
        t = self.TokenTree(public_key=self.owner.pub())
        t.unchained_max_size = ucap
        return t

    def gather(self, tree, t, wc):
        src = self.tok[t][1 if wc else 0]
        # a fresh object per offer, as a receiver would build it from the wire / database
        self.n_made = getattr(self, "n_made", 0) + 1
        if self.n_made % 3 == 0:
            # as rebuilt from a stored row; for Gather(t, FALSE) a row whose content column does not hash to the signed
            # pointer (corrupt / tampered): the spec's "copy without content" covers it - nothing may be attached
            tok = self.Token.from_database_tuple(src.previous_token_hash, src.signature, src.content_hash,
                                                 self.content[t] if wc else b"content that does not match")
        else:
            tok = self.Token(src.previous_token_hash, content_hash=src.content_hash, signature=src.signature)
            if wc:
                tok.receive_content(self.content[t])
        # tokens carry no key: a receiver offers one and the same object to the views of several trees. The view of the
        # OTHER key sees it first here; whatever that tree concludes must not influence the tree under test.
        self.n_offer = getattr(self, "n_offer", 0) + 1
        if self.n_offer % 2:
            self.decoy.gather_token(tok)
        return tree.gather_token(tok)

    def project(self, tree):
        els = tuple(self.id_of[h] for h in tree.elements)
        for h, tok in tree.elements.items():
            if tok.get_hash() != h:
                raise AssertionError("elements key is not the token hash")
        unch = tuple(self.id_of[t.get_hash()] for t in tree.unchained)
        cont = frozenset([self.id_of[h] for h, t in tree.elements.items() if t.content is not None] +
                         [self.id_of[t.get_hash()] for t in tree.unchained if t.content is not None])
        return {"elements": els, "unchained": unch, "cont": cont}


def check_queries(w, tree, st, parent_of):
    """verify()/get_root_path()/get_missing()/serialize_public round trip against what the spec state implies."""
    problems = []
    els = st["elements"]
    for t in els:
        tok = tree.elements[w.tok[t][0].get_hash()]
        if not tree.verify(tok):
            problems.append("verify(%d) is False for a contained token" % t)
        path = [w.id_of[x.get_hash()] for x in tree.get_root_path(tok)]
        exp, cur = [t], t
        while parent_of(cur) != 0:
            cur = parent_of(cur)
            exp.append(cur)
        if path != exp:
            problems.append("get_root_path(%d) = %s, spec %s" % (t, path, exp))
    for bad in (w.n + 1, w.n + 2):
        if tree.verify(w.tok[bad][0]):
            problems.append("verify() accepts the bad token %d" % bad)
    missing = {w.tok[t][0].previous_token_hash for t in st["unchained"]}
    if tree.get_missing() != missing:
        problems.append("get_missing disagrees with the waiting area")
    # public serialisation reloads to the same tree (spec: PublicRoundTrip holds in this state)
    blob = tree.serialize_public()
    fresh = w.fresh(tree.unchained_max_size)
    fresh.unserialize_public(blob)
    if set(fresh.elements) != set(tree.elements):
        problems.append("serialize_public/unserialize_public does not reload the same tree")
    return problems


def replay_graph(ctx, cfgname, n, ucap, max_ops, keys, tag):
    tmp = scratch_dir("c16-")
    try:
        dot = os.path.join(tmp, "g.dot")
        r = run_tlc("TokenTree.tla", cfgname, dump=dot)
        if not r.ok:
            raise MachineryError("TokenTree %s: TLC reports %s on the specification itself" % (cfgname, r.violated))
        ctx.add_tlc(tag, r)
        g = parse_dot(dot)
    finally:
        shutil.rmtree(tmp, ignore_errors=True)
    worlds = {}
    nwalks = nedges = 0
    covered = set()
    for init, walk in edge_cover(g, max_ops=max_ops, seed=ctx.seed):
        st0 = g.states[init]
        key = (st0["parent"], st0["fpar"])
        if key not in worlds:
            worlds[key] = World(n, st0["parent"], st0["fpar"], *keys)
        w = worlds[key]
        tree = w.fresh(ucap)
        labels = []
        par = st0["parent"]

        def parent_of(t, par=par, st0=st0):
            return par[t - 1] if t <= n else (st0["fpar"] if t == n + 1 else n + 1)
        for ei in walk:
            _s, name, args, dst = g.edges[ei]
            labels.append("%s%s" % (name, list(args)))
            if name == "Gather":
                w.gather(tree, args[0], args[1])
            elif name == "ReceiveContent":
                tok = tree.elements[w.tok[args[0]][0].get_hash()]
                tok.receive_content(w.content[args[0]] if args[1] else b"wrong content")
            else:
                raise MachineryError("unknown action " + name)
            d = diff_states(g.states[dst], w.project(tree))
            covered.add(ei)
            nedges += 1
            if d:
                ctx.violation("replay:%s:%s" % (name, ",".join(sorted(d))),
                              "real TokenTree diverges from TokenTree.tla after %s: %s" % (labels[-1], d),
                              {"cfg": cfgname, "parent": list(st0["parent"]), "fpar": st0["fpar"],
                               "actions": labels, "diff": d})
                break
        else:
            probs = check_queries(w, tree, g.states[g.edges[walk[-1]][3]], parent_of)
            for p in probs:
                ctx.violation("query:" + p.split("(")[0], p,
                              {"cfg": cfgname, "parent": list(st0["parent"]), "fpar": st0["fpar"], "actions": labels})
        nwalks += 1
        ctx.nontrivial((key, tuple(walk)))
        if nwalks <= 2:
            ctx.sample({"tree_parents": list(st0["parent"]), "forged_parent": st0["fpar"], "actions": labels})
        if ctx.violations:
            break
    ctx.evaluated(nedges)
    ctx.traces(nwalks)
    ctx.note("replay_" + tag, {"walks": nwalks, "real_operations": nedges, "graph_states": len(g.states),
                               "graph_edges": len(g.edges), "edges_covered": len(covered),
                               "complete_edge_cover": len(covered) == len(g.edges)})


# ---------------------------------------------------------------------------------------------------
# binding T: recorded histories of larger random trees validated by TLC (specs/TokenTreeTrace.tla)
# ---------------------------------------------------------------------------------------------------
def record_traces(ctx, keys, count, rng, corrupt=None):
    traces = []
    n = TRACE_N
    for ti in range(count):
        shape = rng.choice(["chain", "wide", "random", "deep-forks"])
        if shape == "chain":
            parent = [i for i in range(n)]
        elif shape == "wide":
            parent = [0] + [rng.choice([0, 1]) for _ in range(n - 1)]
        elif shape == "deep-forks":
            parent = [0] + [max(0, i - rng.choice([0, 0, 1, 2])) for i in range(1, n)]
        else:
            parent = [rng.randrange(0, i + 1) for i in range(n)]
        fpar = rng.choice([0, 1])
        ucap = n + 2
        w = World(n, parent, fpar, *keys)
        tree = w.fresh(ucap)
        order = list(range(1, n + 3)) + [rng.randrange(1, n + 3) for _ in range(6)]
        rng.shuffle(order)
        events = []
        for t in order:
            wc = rng.random() < 0.3
            w.gather(tree, t, wc)
            p = w.project(tree)
            events.append({"t": t, "wc": wc, "els": list(p["elements"]), "unch": list(p["unchained"]),
                           "cont": sorted(p["cont"])})
        traces.append({"parent": parent, "fpar": fpar, "ucap": ucap, "events": events})
    if corrupt == "drop-element":
        ev = traces[0]["events"][-1]
        ev["els"] = ev["els"][:-1]
    elif corrupt == "smuggle-forged":
        ev = traces[0]["events"][-1]
        ev["els"] = ev["els"] + [n + 1]
    return traces


def validate_traces(ctx, traces, tag, expect_reject=False):
    tmp = scratch_dir("c16t-")
    try:
        path = os.path.join(tmp, "traces.json")
        with open(path, "w", encoding="utf-8") as f:
            json.dump(traces, f)
        r = run_tlc("TokenTreeTrace.tla", "TokenTreeTrace.cfg", env={"TRACE_FILE": path}, coverage=False)
    finally:
        shutil.rmtree(tmp, ignore_errors=True)
    if expect_reject:
        return not r.ok
    ctx.add_tlc(tag, r)
    if not r.ok:
        last = r.error_trace[-1][1] if r.error_trace else {}
        tid, l = last.get("tid"), last.get("l")
        bad = traces[tid - 1] if isinstance(tid, int) else None
        ctx.violation("trace:%s" % r.violated,
                      "recorded TokenTree history is not a behaviour of TokenTree.tla (%s) at event %s" % (r.violated, l),
                      {"trace": bad, "event_index": l})
    else:
        ctx.traces(len(traces))
        ctx.evaluated(sum(len(t["events"]) for t in traces))
        for t in traces:
            ctx.nontrivial(("trace", tuple(t["parent"]), tuple(e["t"] for e in t["events"])))
    return r.ok


def run(tier, seed, replay=None):
    setup_repo_path()
    from ipv8.keyvault.crypto import default_eccrypto
    ctx = Ctx(PID, tier, seed, "model_checking")
    ctx.cov["rule"] = ("TLC enumerates every tree shape (parent function) x every arrival order incl. forged, dangling and "
                       "duplicate tokens; each transition of the dumped state graph is executed on the real TokenTree "
                       "(edge cover) and the projected elements/unchained/content compared with the TLC state; "
                       "non-trivial = distinct (tree shape, walk) pairs and distinct recorded histories")
    ctx.assumptions += ["signature primitives of the key vault are trusted (used to build forged/foreign tokens)",
                        "hash collisions of SHA3-256 do not occur"]
    rng = random.Random(seed)
    keys = (default_eccrypto.generate_key("curve25519"), default_eccrypto.generate_key("curve25519"))

    # spec-level negative control: with the pinned first-child-only wake-up TLC must find Complete violated
    r = run_tlc("TokenTree.tla", "TokenTree_pinned.cfg", coverage=False)
    ctx.control("spec with first-child-only wake-up violates Complete", r.violated == "Complete")

    if tier == "quick":
        replay_graph(ctx, "TokenTree_n4.cfg", 4, 6, None, keys, "n4")
        replay_graph(ctx, "TokenTree_content.cfg", 3, 1, 40000, keys, "content")
        r5 = run_tlc("TokenTree.tla", "TokenTree_n5.cfg")
        ctx.add_tlc("n5", r5)
        if not r5.ok:
            raise MachineryError("TokenTree_n5: %s" % r5.violated)
        ntr = 40
    else:
        replay_graph(ctx, "TokenTree_n4.cfg", 4, 6, None, keys, "n4")
        replay_graph(ctx, "TokenTree_content.cfg", 3, 1, None, keys, "content")
        replay_graph(ctx, "TokenTree_n5.cfg", 5, 7, None, keys, "n5")
        r6 = run_tlc("TokenTree.tla", "TokenTree_n6.cfg", coverage=False, timeout=7200)
        ctx.add_tlc("n6", r6)
        if not r6.ok:
            raise MachineryError("TokenTree_n6: %s" % r6.violated)
        ntr = 400
    ctx.cov["exhaustive"] = True

    if not ctx.violations:
        traces = record_traces(ctx, keys, ntr, rng)
        validate_traces(ctx, traces, "trace")
        ctx.sample({"recorded_history": {"parent": traces[0]["parent"], "first_events": traces[0]["events"][:3]}})
        # trace negative controls
        bad = record_traces(ctx, keys, 1, random.Random(seed + 1), corrupt="drop-element")
        ctx.control("trace with one element removed is rejected", validate_traces(ctx, bad, "ctl", True))
        bad = record_traces(ctx, keys, 1, random.Random(seed + 2), corrupt="smuggle-forged")
        ctx.control("trace reporting the forged token as contained is rejected", validate_traces(ctx, bad, "ctl", True))
    return ctx.finish()
