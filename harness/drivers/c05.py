"""C05 - circuits are isolated from each other and from third parties.
Onion.tla model-checked with two originators sharing a relay and an exit, forged creates / destroys / cells; real
nodes with 1..6 concurrent circuits over a shared pool, seeded interleavings with forged cells, creates naming used
circuit ids, forged and replayed destroys; recorded executions validated by TLC (OnionTrace.tla)."""
from __future__ import annotations

from ..common import Ctx, setup_repo_path
from .. import onion_check as K
from .. import onion_runs as R

PID = "C05"
NONTRIVIAL = {"AdvCreate", "ForgeDestroy", "Inject", "Splice", "AdvPlain", "SendData"}


def scripted_id_reuse(w, origin, victim_hops):
    """a create naming every circuit id in use at every node (own circuit, relay sides, exit), from the attacker and
    from an honest-but-wrong address, before and after the 60 s CreatedRequestCache expired; forged and replayed
    destroys from non-neighbours"""
    cid = K.build(w, origin, victim_hops)
    w.send_data(origin, cid, 1)
    w.run_until(w.now_ms() + 1000)
    known = sorted(set(w.cid_map.values()))
    for phase in (0, 1):
        for n in w.names:
            for c in known:
                for src in ("adv", w.names[-1] if n != w.names[-1] else w.names[0]):
                    w.adv_create(src, n, c)
                    w.deliver(w.net.inflight[-1].seq)
                    while w.net.inflight:
                        w.deliver(w.net.inflight[0].seq)
        for n in w.names:
            for c in known:
                # signed by the attacker's own key, sent from its own address and with the (spoofed) source address of
                # every other node - among them the adjacent node of that entry
                for src in ["adv"] + [m for m in w.names if m != n]:
                    w.forge_destroy(src, n, c)
                    w.deliver(w.net.inflight[-1].seq)
                    while w.net.inflight:
                        w.deliver(w.net.inflight[0].seq)
                # cells for that id whose content the sender could not have encrypted (no keys): nothing changes, not even
                # the entry's record of its last activity
                w.idle(700)                         # (some time after whatever was the circuits' last genuine activity)
                w.inject("adv", n, c, "data")
                w.deliver(w.net.inflight[-1].seq)
                while w.net.inflight:
                    w.deliver(w.net.inflight[0].seq)
                # naming the key of every other node under a signature that does not verify, from the attacker's address
                for claim in [m for m in w.names if m != n]:
                    w.forge_destroy("adv", n, c, claim=claim)
                    w.deliver(w.net.inflight[-1].seq)
                    while w.net.inflight:
                        w.deliver(w.net.inflight[0].seq)
        if phase == 0:
            # keep the circuit alive (pings) until every CreatedRequestCache (60 s) is gone
            w.run_until(w.now_ms() + 70000)
    # data still flows on the victim circuit, through its own exit
    w.send_data(origin, cid, 2)
    while w.net.inflight:
        w.deliver(w.net.inflight[0].seq)
    # a genuine destroy, then its replay to every other node
    w.remove_circuit(origin, cid, True)
    genuine = [d for d in w.net.inflight if len(d.data) > 23 and d.data[22] == 8]
    while w.net.inflight:
        w.deliver(w.net.inflight[0].seq)
    for g in genuine[:1]:
        for n in w.names:
            w.forge_destroy(w.describe(g)["signer"], n, w.describe(g)["cid"], replay_seq=g.seq)
            w.deliver(w.net.inflight[-1].seq)
            while w.net.inflight:
                w.deliver(w.net.inflight[0].seq)


def scripted_race_create(w, order):
    """the originator's create for a 1-hop circuit is waiting for the exit's admission decision when a third party's create
    for the same circuit id arrives (the id is in clear in every cell): both pass the guards; whatever the order in which
    the decisions resume, the entry must end up keyed with the first one joined and the other must be refused"""
    w.create_circuit("o", 1)
    d = w.net.inflight[0]
    w.deliver(d.seq)                       # held in should_join_circuit at x
    w.adv_create("adv", "x", 1)
    w.deliver(w.net.inflight[-1].seq)      # held, too
    held = [(n, w.cid(rc), k) for n, rc, k, _f in w.held_joins]
    for n, c, k in (held if order == 0 else held[::-1]):
        w.join_resume(n, c, k)
    for _ in range(30):
        if w.net.inflight:
            w.deliver(w.net.inflight[0].seq)
        elif w.held_joins:
            n, rc, k, _f = w.held_joins[0]
            w.join_resume(n, w.cid(rc), k)
        else:
            break
    for c in list(w.ov["o"].circuits.values()):
        if c.state == "READY":
            w.send_data("o", w.cid(c.circuit_id), 1)
    while w.net.inflight:
        w.deliver(w.net.inflight[0].seq)


def scripted_cross_answer(w, target_pick):
    """circuit A is up; while circuit B is being built through the same relay, a dishonest next hop answers the relay's
    create with a created whose (plaintext) header names another circuit id in use at that relay"""
    a = K.build(w, "o", 2)
    w.send_data("o", a, 1)
    while w.net.inflight:
        w.deliver(w.net.inflight[0].seq)
    w.create_circuit("o", 3)
    mangled = 0
    for _ in range(120):
        if not w.net.inflight:
            break
        d = w.net.inflight[0]
        desc = w.describe(d)
        if desc["t"] == "cell" and desc["plain"] and len(d.data) > 29 and d.data[29] == 3 and desc["dst"] != "o" and mangled < 2:
            known = [c for c in sorted(set(w.cid_map.values())) if c != desc["cid"]]
            w.mangle_answer(d.seq, "cid", target_cid=known[target_pick % len(known)])
            mangled += 1
        w.deliver(d.seq)
    # circuit A must be untouched: its data still leaves through its own exit and comes back to its originator
    w.send_data("o", a, 2)
    while w.net.inflight:
        w.deliver(w.net.inflight[0].seq)
    log = [e for e in w.exit_log() if e["p"] == 2]
    if log:
        w.exit_return(log[0]["n"], log[0]["cid"], 2)
        while w.net.inflight:
            w.deliver(w.net.inflight[0].seq)


def run(tier, seed, replay=None):
    setup_repo_path()
    ctx = Ctx(PID, tier, seed, "model_checking")
    ctx.cov["rule"] = ("TLC explores Onion.tla with 2 originators sharing relay and exit and one forged create / destroy / "
                       "cell / splice; real nodes run up to 6 concurrent circuits over a shared pool under seeded "
                       "interleavings with the same attacks on real bytes; TLC validates each execution and evaluates "
                       "ExitOnlyOwn, ReturnIntegrity, EntriesStable, DestroyOnlyFromNeighbour, UnknownCellsInert; "
                       "non-trivial = distinct executions containing an attack step or data of >= 2 circuits")
    if replay and K.replay_file(ctx, PID, replay, NONTRIVIAL):
        return ctx.finish()
    ctx.assumptions += ["symbolic AEAD / DH (Dolev-Yao); circuit ids and identifiers renamed by allocation order",
                        "the signature check of destroy messages itself is property C01"]
    bg = K.Background(["Onion_c05_q.cfg", "Onion_c05_g2.cfg"] + (["Onion_c05.cfg"] if tier == "thorough" else []),
                      [("Onion_c05_pinned.cfg", "NoShadow", "spec without the circuit-id-in-use guard lets a create install an "
                        "exit socket under a used id (NoShadow violated)")])
    base = seed * 1000
    n = 4 if tier == "quick" else 16
    steps = 220 if tier == "quick" else 500
    ok, traces, hdr = K.random_family(ctx, PID, "two_origins", "isolation", range(base, base + n), steps, NONTRIVIAL)
    if ok:
        K.trace_control(ctx, "trace in which an exit entry silently changes its previous hop is rejected", traces,
                        "two_origins", hdr, _rekey_exit)
    K.random_family(ctx, PID, "two_exits", "isolation", range(base, base + n), steps, NONTRIVIAL)
    K.random_family(ctx, PID, "line4", "isolation", range(base, base + (2 if tier == "quick" else 8)), steps, NONTRIVIAL)
    # 6 concurrent circuits over the shared pool
    import random
    big = []
    hdr2 = None
    for s in range(base, base + (1 if tier == "quick" else 6)):
        tr, w = R.random_run("two_exits", s, "isolation", steps + 100, max_circuits=6)
        K.check_escapes(ctx, w, tr, "six-circuits")
        big.append(tr)
        hdr2 = w.header()
    K.validate_family(ctx, PID, big, "two_exits", hdr2, "six-circuits", NONTRIVIAL)
    # scripted: every used id at every node, both sides of the 60 s cache
    scr = []
    for goal in ((2,) if tier == "quick" else (1, 2, 3)):
        w = R.world("line4", seed * 10 + goal)
        w.compare_act = True        # in this scenario the circuits' record of their last activity is compared, too
        try:
            gone = K.guarded(w, scripted_id_reuse, w, "o", goal)
            tr = {"events": w.events, "topology": "line4", "seed": seed, "profile": "id-reuse g%d" % goal, "aborted": gone}
            K.check_escapes(ctx, w, tr, "id-reuse")
            scr.append(tr)
            hdr3 = w.header()
        finally:
            w.close()
    K.validate_family(ctx, PID, scr, "line4", hdr3, "id-reuse", NONTRIVIAL)
    # the same under an application's own, really suspending admission policy (should_join_circuit overridden without
    # super()): the in-use guard must not depend on the overridable hook; and a third party's create for the id of a
    # circuit whose own create is still waiting for its admission decision
    susp = []
    for goal in ((2,) if tier == "quick" else (1, 2, 3)):
        w = R.world("line4", seed * 10 + 20 + goal, suspend_join="own")
        w.auto_resume = True
        try:
            gone = K.guarded(w, scripted_id_reuse, w, "o", goal)
            tr = {"events": w.events, "topology": "line4", "seed": seed, "profile": "id-reuse own-admission g%d" % goal,
                  "aborted": gone}
            K.check_escapes(ctx, w, tr, "id-reuse-own-admission")
            susp.append(tr)
            hdr5 = w.header()
        finally:
            w.close()
    for order in (0, 1):
        w = R.world("line4", seed * 10 + 30 + order, suspend_join=True)
        try:
            gone = K.guarded(w, scripted_race_create, w, order)
            tr = {"events": w.events, "topology": "line4", "seed": seed, "profile": "create-race order %d" % order, "aborted": gone}
            K.check_escapes(ctx, w, tr, "create-race")
            susp.append(tr)
        finally:
            w.close()
    K.validate_family(ctx, PID, susp, "line4", hdr5, "suspended-admission", NONTRIVIAL | {"JoinResume"}, suspend_join=True)
    # data messages of the tunnel community itself, naming every circuit id, arriving from outside at the exits' sockets
    nest = []
    for i, goals in enumerate([(2, 1)] if tier == "quick" else [(2, 1), (1, 1), (3, 2), (2, 2)]):
        w = R.world("line4", seed * 10 + 40 + i)
        try:
            gone = K.guarded(w, K.nested_walk, w, goals)
            tr = {"events": w.events, "topology": "line4", "seed": seed, "profile": "nested-from-outside %s" % (goals,),
                  "aborted": gone}
            K.check_escapes(ctx, w, tr, "nested-from-outside")
            nest.append(tr)
            hdr6 = w.header()
        finally:
            w.close()
    K.validate_family(ctx, PID, nest, "line4", hdr6, "nested-from-outside", NONTRIVIAL | {"OutsideNested"})
    cross = []
    for pick in range(4 if tier == "quick" else 8):
        w = R.world("line4", seed * 10 + 50 + pick)
        try:
            gone = K.guarded(w, scripted_cross_answer, w, pick)
            tr = {"events": w.events, "topology": "line4", "seed": seed, "profile": "cross-answer %d" % pick, "aborted": gone}
            K.check_escapes(ctx, w, tr, "cross-answer")
            cross.append(tr)
            hdr4 = w.header()
        finally:
            w.close()
    K.validate_family(ctx, PID, cross, "line4", hdr4, "cross-answer", NONTRIVIAL | {"MangleAnswer"})
    ctx.note("id_reuse", {"runs": len(scr), "events": sum(len(t["events"]) for t in scr),
                          "forged_creates": sum(1 for t in scr for e in t["events"] if e["a"] == "AdvCreate"),
                          "forged_destroys": sum(1 for t in scr for e in t["events"] if e["a"] == "ForgeDestroy")})
    bg.collect(ctx)
    return ctx.finish()


def _rekey_exit(t):
    for e in t["events"]:
        for n, lst in e["post"]["exit"].items():
            if lst:
                lst[0]["prev"] = "adv" if lst[0]["prev"] != "adv" else "o"
                return
    raise RuntimeError("no exit entry in the control trace")
