"""C06 - an exit node never emits traffic its exit policy forbids.

 M  model checking of specs/ExitPolicy.tla (one exit socket: disabled -> enabling -> ready -> closed, all 8 flag sets,
    representative packets of every class, every destination kind and source) + 3 spec-level negative controls.
 E  specs/ExitPolicyEnum.tla: TLC enumerates packet families (bytes 0/1 exhaustively, tracker action words, first/last
    byte, perturbed own prefix, all lengths 0..64 and sampled larger) and computes the expected classification and the
    policy verdict under all 8 flag sets; the real DataChecker.* and TunnelExitSocket.is_allowed are run on every packet
    (random remainder) and must not be more permissive than the specification.
 T  specs/ExitPolicyTrace.tla: a real 3-node TunnelCommunity network (originator, relay, exit) in virtual time; the exit
    node's outside transports and DNS are recording fakes with driver-controlled completion.  One-hop and two-hop
    circuits feed the exit every payload class x destination kind x source address x socket state, outside hosts send
    every class back; every event with the observed socket state / queue / emissions / tunnel-bound packets is logged
    and the traces are validated by TLC (exact conformance + the property on the observations alone).
    History: every packet is logged with the outside address it is for / from; scenario family "flows" and the random
    traces send datagrams FROM addresses the socket emitted allowed packets to / was asked to send to / resolved /
    accepted datagrams from (same IP other port, IPv4-mapped too) and tunnel data TO such addresses, in every socket
    state; ExitPolicy.tla carries that history (asked, sentTo, heard) and gives it no influence on the verdict
    (deviation FlowCache = an "established flow" exemption in either direction: negative controls).
    Reconfiguration: event "flags" writes settings.peer_flags of the running exit node (ExitPolicy.tla SetFlags);
    scenario family "reconf" and the random traces change the flags while packets wait for a DNS answer / for the
    transports, and between datagrams from outside: what leaves is judged by the flags configured when it leaves
    (deviation StaleVerdict).  Previous hop: event "signed" delivers validly signed overlay messages made by the
    previous hop node (introduction request, puncture, destroy of an unknown circuit) to the exit node from the
    previous hop's address, its IP with another port, or a foreign IP (SignedMessage, variable `seen`), before and
    after data from each source; the opener rule is judged against the node the circuit was really built through
    (deviation HopFollowsPeer).
    Packet history: every packet is logged with its relation to the packets the same socket judged before (`rel`);
    scenario family "kin" and the random traces feed a socket packets that share with an earlier one everything but the
    bytes one classifier rule reads (same first 22 bytes and length with another last byte / another remainder, cut or
    extended across the length thresholds, one head byte changed, the identical packet after a reconfiguration), before
    and after it, outbound and inbound; ExitPolicy.tla carries `judged` (every packet put through the filter, with
    the classes and verdict it got) and gives it no influence (invariant VerdictByOwnShape; deviation VerdictMemo = the
    classes / the verdict of an earlier packet with the same key are re-used: negative controls).
"""
from __future__ import annotations

import json
import os
import random
import re
import shutil
import socket
from concurrent.futures import ThreadPoolExecutor

from ..common import Ctx, setup_repo_path
from ..tlc import MachineryError, run_tlc, scratch_dir

PID = "C06"

FLAGSETS = [(), ("BT",), ("IPV8",), ("BT", "IPV8"), ("RELAY",), ("BT", "RELAY"), ("IPV8", "RELAY"),
            ("BT", "IPV8", "RELAY")]            # same order as FlagSets in ExitPolicyEnum.tla
TUNNEL_CID = bytes.fromhex("81ded07332bdc775aa5a46f96de9f8f390bbc9f3")
# an overlay id that makes packets of the own overlay tracker-shaped as well (bytes 8..11 = 00 00 00 02)
ODD_CID = bytes([7, 7, 7, 7, 7, 7, 0, 0, 0, 2, 9, 8, 7, 6, 5, 4, 3, 2, 1, 0])
BIT_NAMES = [(1, "DataChecker.could_be_utp"), (2, "DataChecker.could_be_udp_tracker"), (4, "DataChecker.could_be_dht"),
             (8, "DataChecker.could_be_bt"), (16, "DataChecker.could_be_ipv8")] + \
            [(64 << k, "is_allowed[%s]" % ("+".join(fs) or "none")) for k, fs in enumerate(FLAGSETS)]
MASK = sum(b for b, _ in BIT_NAMES)
NULL = ("0.0.0.0", 0)


# ---------------------------------------------------------------------------------------------------------------
# packets <-> views (head, length, last byte): what specs/ExitClassifier.tla Mk() builds
# ---------------------------------------------------------------------------------------------------------------
def build(view, rng=None):
    """The packet of a view; the bytes no classifier rule may look at (offset >= 22, not last) are random."""
    h, n, z = view["h"], view["n"], view["z"]
    body = bytearray(rng.randbytes(n)) if rng is not None else bytearray([170]) * n
    for i in range(min(n, 22)):
        body[i] = 170
    if n:
        body[n - 1] = z
    hh = bytes(h[:n])
    body[:len(hh)] = hh
    return bytes(body)


def view_of(data):
    return {"h": list(data[:22]), "n": len(data), "z": data[-1] if data else 0}


# ---------------------------------------------------------------------------------------------------------------
# binding E
# ---------------------------------------------------------------------------------------------------------------
def enum_jobs(tier, prefixes):
    main, odd = prefixes
    jobs = []
    thorough = tier != "quick"
    lens = sorted(set(range(0, 26)) | {40, 64})

    def job(fam, prefix, lo=0, hi=0, ns=(), zs=(0,), tail=()):
        jobs.append({"fam": fam, "lo": lo, "hi": hi, "ns": list(ns), "zs": list(zs), "tail": list(tail),
                     "prefix": list(prefix),
                     "words_ns": lens if thorough else [0, 3, 4, 7, 8, 11, 12, 13, 16, 20, 23, 40],
                     "pfx_ns": [21, 22, 23, 24, 64],
                     "big_ns": [65, 100, 255, 256, 1023, 1400, 1500] + ([4096, 8192, 65507] if thorough else [])})
    step = 16 if thorough else 64
    for lo in range(0, 256, step):
        hi = lo + step - 1
        # bytes 0 and 1, all 65 536 values, at the length thresholds of uTP (20) and IPv8 (23)
        job("b01", main, lo, hi, ns=(19, 20, 22, 23, 64) if thorough else (20, 23), zs=(0, 101) if thorough else (0,))
        # ... followed by the rest of the own prefix: only 00 02 belongs to the overlay
        job("b01", main, lo, hi, ns=(22, 23, 40) if thorough else (23,), tail=main[2:])
        if thorough:
            job("b01", odd, lo, hi, ns=(23, 30), tail=odd[2:])
            job("b01", main, lo, hi, ns=(8, 12, 20), tail=(0, 0, 0, 0, 0, 0, 0, 0, 0, 3))
        # first x last byte, all 65 536 combinations
        job("dht", main, lo, hi, ns=(2, 3, 30) if thorough else (2,))
    for pfx in prefixes:
        # tracker words x lengths, perturbed own prefix, every length 0..64 and sampled larger for heads of every class
        job("misc", pfx, 0, 64, zs=(0, 101))
    return jobs


def run_enum_job(args):
    idx, params, tmp = args
    pf = os.path.join(tmp, "p%d.json" % idx)
    of = os.path.join(tmp, "o%d.json" % idx)
    with open(pf, "w", encoding="utf-8") as f:
        json.dump(params, f)
    r = run_tlc("ExitPolicyEnum.tla", "ExitPolicyEnum.cfg", workers=1, coverage=False, java_opts=("-Xmx2g",),
                env={"PARAM_FILE": pf, "OUT_FILE": of}, metadir=os.path.join(tmp, "md%d" % idx), timeout=1800)
    if not r.ok or not os.path.exists(of):
        raise MachineryError("ExitPolicyEnum failed for %s: %s" % (params["fam"], r.output[-1500:]))
    with open(of, encoding="utf-8") as f:
        cases = json.load(f)["cases"]
    os.unlink(of)
    return params, cases, r.wall


class StubSettings:
    def __init__(self, flags):
        self.peer_flags = flags


class StubOverlay:
    """Just what TunnelExitSocket.is_allowed reads from its overlay."""

    def __init__(self, flags, prefix):
        self.settings = StubSettings(flags)
        self._prefix = prefix

    def get_prefix(self):
        return self._prefix


def flag_ints(fs):
    from ipv8.messaging.anonymization.tunnel import PEER_FLAG_EXIT_BT, PEER_FLAG_EXIT_IPV8, PEER_FLAG_RELAY
    m = {"BT": PEER_FLAG_EXIT_BT, "IPV8": PEER_FLAG_EXIT_IPV8, "RELAY": PEER_FLAG_RELAY}
    return {m[x] for x in fs}


def enum_part(ctx, tier, rng):
    from ipv8.messaging.anonymization.exit_socket import DataChecker, TunnelExitSocket
    prefixes = (b"\x00\x02" + TUNNEL_CID, b"\x00\x01" + ODD_CID)
    jobs = enum_jobs(tier, prefixes)
    socks = {}
    for pfx in prefixes:
        socks[pfx] = [TunnelExitSocket(1, None, StubOverlay(flag_ints(fs), pfx)) for fs in FLAGSETS]
    checks = [(1, DataChecker.could_be_utp), (2, DataChecker.could_be_udp_tracker), (4, DataChecker.could_be_dht),
              (8, DataChecker.could_be_bt), (16, DataChecker.could_be_ipv8)]
    tmp = scratch_dir("c06e-")
    total = classified = 0
    stricter = {}
    fam_counts = {}
    tlc_wall = 0.0
    seen_bits = 0
    try:
        with ThreadPoolExecutor(max_workers=min(16, os.cpu_count() or 4)) as ex:
            for params, cases, wall in ex.map(run_enum_job, [(i, p, tmp) for i, p in enumerate(jobs)]):
                tlc_wall += wall
                pfx = bytes(params["prefix"])
                ss = socks[pfx]
                fam_counts[params["fam"]] = fam_counts.get(params["fam"], 0) + len(cases)
                for case in cases:
                    view, exp = case["v"], case["c"]
                    d = build(view, rng)
                    got = 0
                    for bit, fn in checks:
                        if fn(d):
                            got |= bit
                    for k, s in enumerate(ss):
                        if s.is_allowed(d):
                            got |= 64 << k
                    total += 1
                    seen_bits |= exp
                    if exp & MASK:
                        classified += 1
                        ctx.nontrivial((exp, tuple(view["h"]), view["n"], view["z"]))
                    if got == exp & MASK:
                        continue
                    permissive = got & ~exp & MASK
                    strict = exp & ~got & MASK
                    for bit, name in BIT_NAMES:
                        if permissive & bit:
                            ctx.violation("enum:%s:permissive" % name.split("[")[0],
                                          "%s is True for a packet the specification does not put in that class "
                                          "(len %d, head %s, last byte %d, overlay prefix %s; expected code %d, got %d)"
                                          % (name, len(d), d[:24].hex(), view["z"], pfx.hex(), exp & MASK, got),
                                          {"view": view, "packet_head": d[:64].hex(), "prefix": pfx.hex(),
                                           "function": name, "expected_code": exp, "got_code": got})
                        if strict & bit:
                            e = stricter.setdefault(name, {"count": 0, "example": None})
                            e["count"] += 1
                            if e["example"] is None:
                                e["example"] = {"len": len(d), "head": d[:24].hex(), "last": view["z"]}
    finally:
        shutil.rmtree(tmp, ignore_errors=True)
    if seen_bits & MASK != MASK:
        raise MachineryError("enumeration is vacuous: some class/verdict is never expected (bits seen %d)" % seen_bits)
    ctx.evaluated(total)
    ctx.note("enumeration", {"tlc_runs": len(jobs), "cases": total, "cases_in_some_class": classified,
                             "per_family": fam_counts, "tlc_wall_sum_s": round(tlc_wall, 1),
                             "functions_compared": [n for _, n in BIT_NAMES],
                             "implementation_stricter_than_spec": stricter})
    ctx.sample({"enumeration_job": {k: jobs[0][k] for k in ("fam", "lo", "hi", "ns", "zs", "tail")},
                "note": "TLC computes the expected code of every member"})


# ---------------------------------------------------------------------------------------------------------------
# binding T: the outside world of the exit node
# ---------------------------------------------------------------------------------------------------------------
class FakeSocket:
    def __init__(self, fam):
        self.fam = fam

    def getsockname(self):
        return ("0.0.0.0", 40000) if self.fam == "v4" else ("::", 40001, 0, 0)


class FakeTransport:
    def __init__(self, fam, outside):
        self.fam, self.outside, self.closed = fam, outside, False

    def sendto(self, data, addr=None):
        self.outside.sent.append((self.fam, bytes(data), addr, self.closed))

    def get_extra_info(self, name, default=None):
        return FakeSocket(self.fam) if name == "socket" else default

    def close(self):
        self.closed = True

    def is_closing(self):
        return self.closed

    def abort(self):
        self.closed = True


class Outside:
    """Replaces loop.create_datagram_endpoint and loop.getaddrinfo of the virtual loop: both complete only when the
    driver says so, every datagram handed to a transport is recorded."""

    DNS = {"v4.test": [(socket.AF_INET, socket.SOCK_DGRAM, 17, "", ("93.184.216.34", 0))],
           "v6.test": [(socket.AF_INET6, socket.SOCK_DGRAM, 17, "", ("2001:db8::34", 0, 0, 0))],
           "both.test": [(socket.AF_INET6, socket.SOCK_DGRAM, 17, "", ("2001:db8::35", 0, 0, 0)),
                         (socket.AF_INET, socket.SOCK_DGRAM, 17, "", ("93.184.216.35", 0))]}

    def __init__(self, loop):
        self.loop = loop
        loop.create_datagram_endpoint = self.create_datagram_endpoint
        loop.getaddrinfo = self.getaddrinfo
        self.reset()

    def reset(self):
        self.gates = []       # [(fam, future)] transports being opened
        self.dns = []         # [(host, future)] resolutions in flight
        self.sent = []        # (fam, data, addr, transport_closed)
        self.protos = {}      # fam -> (protocol, transport)

    async def create_datagram_endpoint(self, protocol_factory, local_addr=None, **_kw):
        fam = "v6" if ":" in local_addr[0] else "v4"
        fut = self.loop.create_future()
        self.gates.append((fam, fut))
        await fut
        proto = protocol_factory()
        tr = FakeTransport(fam, self)
        self.protos[fam] = (proto, tr)
        proto.connection_made(tr)
        return tr, proto

    async def getaddrinfo(self, host, port, **_kw):
        fut = self.loop.create_future()
        entry = (host, fut)
        self.dns.append(entry)
        try:
            return await fut
        finally:
            if entry in self.dns:
                self.dns.remove(entry)

    def pending_dns(self):
        return [(h, f) for h, f in self.dns if not f.done()]


def addr_rec(a):
    """An outside address as the record Addr(ip, port) of ExitPolicy.tla."""
    return {"ip": str(a[0]), "port": int(a[1])}


NO_ADDR = {"ip": "", "port": 0}

DESTS = {"v4": [("93.184.216.34", 80), ("10.1.2.3", 6881), ("1.2.3.4", 0), ("0.0.0.0", 53)],
         "v6": [("2001:db8::1", 443), ("::1", 7), ("::", 0)],
         "dom4": [("v4.test", 80), ("both.test", 0)],
         "dom6": [("v6.test", 8080)],
         "domfail": [("fail.test", 80)],
         "null": [NULL]}
OUT_SRC = {"v4": ("8.8.4.4", 53), "v6": ("2001:db8::53", 53, 0, 0), "v6mapped": ("::ffff:8.8.4.4", 53, 0, 0)}
EMPTY_VIEW = {"h": [], "n": 0, "z": 0}


class Net:
    """Originator A, relay R and exit X: real TunnelCommunity instances on the mock internet, one virtual loop."""

    def __init__(self, loop, outside, flagset, community_id, version):
        from ipv8.messaging.anonymization.community import TunnelCommunity, TunnelSettings
        from ipv8.messaging.anonymization.tunnel import PEER_FLAG_RELAY, PEER_FLAG_SPEED_TEST
        from ipv8.test.mocking.ipv8 import MockIPv8
        self.loop, self.outside, self.flagset = loop, outside, flagset
        self.errors = []
        cls = type("TunnelCommunityUnderTest", (TunnelCommunity,), {"community_id": community_id, "version": version})

        def node(flags):
            s = TunnelSettings()
            s.peer_flags = set(flags)
            s.remove_tunnel_delay = 0
            s.min_circuits = 0
            s.max_circuits = 0
            return MockIPv8("curve25519", cls, s)

        async def make():
            xflags = flag_ints(flagset) | {PEER_FLAG_SPEED_TEST}   # SPEED_TEST: a node without any flag joins nothing
            return (node({PEER_FLAG_RELAY, PEER_FLAG_SPEED_TEST}), node({PEER_FLAG_RELAY, PEER_FLAG_SPEED_TEST}),
                    node(xflags))
        self.a, self.r, self.x = loop.run_until_complete(make())
        self.nodes = [self.a, self.r, self.x]
        self.prefix = self.x.overlay.get_prefix()
        for m in self.nodes:
            for o in self.nodes:
                if m is not o:
                    self.do(m.overlay.walk_to, o.endpoint.wan_address)
        self.loop.settle()
        for m in (self.a, self.r):
            if not any(p.address == self.x.endpoint.wan_address for p in m.overlay.candidates):
                raise MachineryError("test network: exit node not discovered")
        self.xpeer = next(p for p in self.a.overlay.candidates if p.address == self.x.endpoint.wan_address)
        # network manipulation at the exit: datagrams can be made to arrive from another source address
        self.rewrite = None
        self.speed_flag = PEER_FLAG_SPEED_TEST
        # whatever the exit node answers to an address nobody lives at disappears
        from ipv8.test.mocking.endpoint import internet
        for m in (self.a, self.r):
            for src in ("port", "other"):
                internet.setdefault(self.source_address(m.endpoint.wan_address, src), Sink())
        ep = self.x.endpoint
        orig = ep.notify_listeners

        def notify(packet, *a, **k):
            src, data = packet
            if self.rewrite is not None:
                src = self.rewrite
            return orig((src, data), *a, **k)
        ep.notify_listeners = notify
        # observation: what the exit node sends back into a tunnel
        self.backlog = []
        real_send_data = self.x.overlay.send_data

        def send_data(target, circuit_id, dest_address, source_address, data):
            self.backlog.append((target, circuit_id, dest_address, source_address, bytes(data)))
            return real_send_data(target, circuit_id, dest_address, source_address, data)
        self.x.overlay.send_data = send_data
        self.received_by_origin = 0
        ov = self.a.overlay
        real_raw = ov.on_raw_data

        def on_raw_data(circuit, origin, data):
            self.received_by_origin += 1
            return real_raw(circuit, origin, data)
        ov.on_raw_data = on_raw_data

    @staticmethod
    def source_address(prev, src):
        """The address a datagram of source class src comes from, prev being the previous hop's address."""
        from ipv8.messaging.interfaces.udp.endpoint import UDPv4Address
        if src == "prev":
            return prev
        if src == "port":
            return UDPv4Address(prev[0], (prev[1] + 1) % 65536 or 1)
        return UDPv4Address("203.0.113.77", prev[1])

    def set_flags(self, fs):
        """Reconfigure the running exit node (TunnelSettings.peer_flags has a setter for this)."""
        self.do(setattr, self.x.overlay.settings, "peer_flags", flag_ints(fs) | {self.speed_flag})

    def prev_node(self, hops):
        return self.a if hops == 1 else self.r

    def do(self, fn, *args):
        """Run fn inside the loop and let everything it causes happen (virtual time does not move)."""
        def call():
            try:
                fn(*args)
            except Exception as e:  # noqa: BLE001
                self.errors.append(repr(e))
        self.loop.call_soon(call)
        self.loop.settle()

    def open_circuit(self, hops):
        before = set(self.x.overlay.exit_sockets)
        box = []
        self.do(lambda: box.append(self.a.overlay.create_circuit(hops, required_exit=self.xpeer)))
        c = box[0] if box else None
        if c is None or c.state != "READY" or len(c.hops) != hops:
            raise MachineryError("test network: %d-hop circuit did not become ready" % hops)
        new = set(self.x.overlay.exit_sockets) - before
        if len(new) != 1:
            raise MachineryError("test network: exit socket of the new circuit not found")
        xcid = new.pop()
        return c, xcid, self.x.overlay.exit_sockets[xcid]

    def cleanup(self, circuit, xcid):
        if xcid in self.x.overlay.exit_sockets:
            self.do(lambda: self.x.overlay.remove_exit_socket(xcid, remove_now=True))
        self.do(lambda: self.a.overlay.remove_circuit(circuit.circuit_id, remove_now=True))
        self.r.overlay.relay_from_to.clear()
        for f in [f for _, f in self.outside.gates + self.outside.dns if not f.done()]:
            f.cancel()
        self.loop.settle()

    def stop(self):
        from ipv8.test.mocking.endpoint import internet
        for m in self.nodes:
            self.loop.run_until_complete(m.stop())
        internet.clear()


class Sink:
    """An address of the mock internet nobody listens at."""

    def notify_listeners(self, *_a, **_k):
        pass


SIGNED_KINDS = ["introreq", "puncture", "destroy"]


def dk_of_addr(addr, fam):
    if tuple(addr[:2]) == NULL:
        return "null"
    return fam


def relation(pkt, earlier):
    """What pkt shares with an earlier packet of the bytes a classifier may read ('' = nothing worth a name)."""
    if pkt == earlier:
        return "same"
    a, b = view_of(pkt), view_of(earlier)
    if a == b:
        return "twin"                                   # they differ only in bytes no rule reads
    m = min(22, a["n"] - 1)
    if a["n"] == b["n"] and a["h"][:m] == b["h"][:m]:
        return "tail"                                   # same first 22 bytes and length, another last byte
    common = min(len(a["h"]), len(b["h"]))
    if a["n"] != b["n"] and common >= 2 and a["h"][:common] == b["h"][:common]:
        return "len"                                    # one is the other cut / extended
    if a["n"] == b["n"] and a["z"] == b["z"] and sum(x != y for x, y in zip(a["h"], b["h"])) == 1:
        return "head"                                   # one byte of the head differs
    return ""


def kinship(pkt, fed):
    """'<relation> of passed, <relation> of refused': the closest earlier packet of either outcome ('fresh' = none)."""
    order = ["same", "twin", "tail", "len", "head"]
    best = {}
    for old, old_passed in fed:
        rel = relation(pkt, old)
        if rel and (old_passed not in best or order.index(rel) < order.index(best[old_passed])):
            best[old_passed] = rel
    return ", ".join("%s of %s" % (best[o], "passed" if o else "refused") for o in (True, False) if o in best) or "fresh"


def kin(pkt, rng):
    """Packets that share with pkt everything but the bytes one classifier rule reads."""
    n, res = len(pkt), []

    def put(q):
        if q != pkt and all(q != x for x in res):
            res.append(q)
    if n:
        put(pkt[:-1] + (b"\x00" if pkt[-1:] == b"e" else b"e"))         # another last byte
        put(pkt[:-1] + bytes([pkt[-1] ^ 0x5a]))
    if n > 23:
        put(pkt[:22] + rng.randbytes(n - 23) + pkt[-1:])                # twin: another remainder
        put(pkt[:22] + rng.randbytes(n - 23) + bytes([pkt[-1] ^ 0x81]))
    for cut in (7, 8, 11, 12, 19, 20, 22, 23, n - 1):                   # across the length thresholds
        if 0 < cut < n:
            put(pkt[:cut])
    put(pkt + b"\x00")
    put(pkt + b"e")
    for i in (0, 1, 3, 11, 21):                                         # one byte of the head
        if i < n:
            put(pkt[:i] + bytes([pkt[i] ^ 0x84]) + pkt[i + 1:])
    return res


class TraceRun:
    """One exit socket lifetime: applies events to the real network and logs what the specification talks about."""

    def __init__(self, net, hops):
        self.net = net
        net.outside.reset()
        net.backlog.clear()
        net.set_flags(net.flagset)
        self.circuit, self.xcid, self.sock = net.open_circuit(hops)
        # the circuit's own previous hop: the node it was really built through (not what the socket believes)
        self.pnode = net.prev_node(hops)
        self.prev = self.pnode.endpoint.wan_address
        self.hops = hops
        self.epoch = 0            # number of reconfigurations so far
        self.pend_epochs = []     # epoch in which each pending resolution was started
        self.q_dirty = False      # the flags changed while packets were waiting for the transports
        self.seen = ""            # where the last signed message of the previous hop's key was delivered from
        self.flags_now = tuple(net.flagset)
        self.events = []
        self.packets = []
        self.closed = False
        self.qcap = self.sock.queue.maxlen
        # what this socket did with which outside address (chooses inputs, labels situations; the verdict is TLC's)
        self.h_asked, self.h_sent, self.h_heard = [], [], []
        # the packets the socket's filter was handed so far and whether they passed (chooses inputs, labels situations)
        self.fed = []

    # -- projection of the real exit socket onto the specification's variables
    def state(self):
        s = self.sock
        if self.xcid not in self.net.x.overlay.exit_sockets:
            return "closed"
        if not s.enabled:
            return "disabled"
        if s.transport_ipv4 is None:
            return "enabling0"
        if s.transport_ipv6 is None:
            return "enabling4"
        return "ready"

    def observe(self, ev, n_sent, n_back):
        from ipv8.messaging.interfaces.udp.endpoint import UDPv6Address
        out = self.net.outside
        ev["st"] = self.state()
        ev["q"] = [{"p": view_of(d), "dk": dk_of_addr(a, "v6" if isinstance(a, UDPv6Address) else "v4"),
                    "a": addr_rec(a)}
                   for d, a in self.sock.queue] if ev["st"] != "closed" else []
        ev["np"] = len(out.pending_dns()) if ev["st"] != "closed" else 0
        ev["emit"] = [{"p": view_of(d), "dk": dk_of_addr(a, fam), "a": addr_rec(a)}
                      for fam, d, a, _closed in out.sent[n_sent:]]
        for _fam, _d, a, _closed in out.sent[n_sent:]:
            self.h_sent.append((str(a[0]), int(a[1])))
        ev["tun"] = []
        for _target, cid, dest, source, d in self.net.backlog[n_back:]:
            if cid != self.xcid:
                continue
            fam = "v6" if isinstance(source, UDPv6Address) else "v4"
            if source[0].startswith("::ffff:"):
                fam = "v6mapped"
            ev["tun"].append({"p": view_of(d), "fam": fam, "dest_null": tuple(dest) == NULL, "a": addr_rec(source)})
            self.h_heard.append((str(source[0]), int(source[1])))
        if ev["st"] == "closed":
            self.pend_epochs = []
        for k, dflt in (("src", "prev"), ("dk", "v4"), ("p", EMPTY_VIEW), ("i", 0), ("fam", "v4"), ("a", NO_ADDR),
                        ("rip", ""), ("sit", ""), ("fl", []), ("kind", ""), ("seen", ""), ("wait", ""), ("rel", "")):
            ev.setdefault(k, dflt)
        self.events.append(ev)
        return ev

    # -- events
    def enabled_kinds(self):
        if self.closed:
            return ["data", "flags", "signed"]
        kinds = ["data", "close", "flags", "signed"]
        out = self.net.outside
        if [g for g in out.gates if not g[1].done()]:
            kinds.append("tr")
        if out.pending_dns():
            kinds.append("res")
        if "v4" in out.protos:
            kinds.append("out")
        return kinds

    def data(self, src, dk, dest, pkt):
        net = self.net
        n_sent, n_back = len(net.outside.sent), len(net.backlog)
        net.rewrite = None if src == "prev" else net.source_address(self.prev, src)
        c = self.circuit
        np0 = len(net.outside.pending_dns())
        q0 = [d for d, _ in self.sock.queue]
        net.do(net.a.overlay.send_data, c.hop.address, c.circuit_id, dest, NULL, pkt)
        net.rewrite = None
        self.packets.append(pkt)
        if len(net.outside.pending_dns()) > np0:
            self.pend_epochs.append(self.epoch)
        sit = self.situation(dest)
        if dk in ("v4", "v6"):
            self.h_asked.append((str(dest[0]), int(dest[1])))
        ev = self.observe({"k": "data", "src": src, "dk": dk, "p": view_of(pkt), "dest": list(dest),
                           "a": addr_rec(dest), "sit": sit, "seen": self.seen}, n_sent, n_back)
        if ev["st"] in ("enabling0", "enabling4", "ready") and dk != "null":
            # the packet reached the socket's filter: did it pass (left, waits for the transports, waits for its name)?
            passed = bool(ev["emit"]) or len(net.outside.pending_dns()) > np0 or \
                [d for d, _ in self.sock.queue] != q0
            self.judge(ev, pkt, passed)
        return ev

    def judge(self, ev, pkt, passed):
        """Label the event with the relation of its packet to the packets this socket judged before."""
        ev["rel"] = kinship(pkt, self.fed)
        ev["pass"] = bool(passed)
        self.fed.append((pkt, passed))

    def set_flags(self, fs):
        """settings.peer_flags of the exit node is rewritten while the socket lives."""
        out = self.net.outside
        n_sent, n_back = len(out.sent), len(self.net.backlog)
        self.net.set_flags(fs)
        self.epoch += 1
        self.flags_now = tuple(fs)
        if not self.closed and len(self.sock.queue):
            self.q_dirty = True
        return self.observe({"k": "flags", "fl": list(fs)}, n_sent, n_back)

    def signed(self, src, kind):
        """A validly signed overlay message made by the previous hop node reaches the exit node from source src
        (src != "prev": somebody replays it from elsewhere - messages do not bind their sender address)."""
        from ipv8.messaging.anonymization.payload import DestroyPayload
        net, ov = self.net, self.pnode.overlay
        out = net.outside
        n_sent, n_back = len(out.sent), len(net.backlog)
        xaddr = net.x.endpoint.wan_address
        box = []
        if kind == "introreq":
            net.do(lambda: box.append(ov.create_introduction_request(xaddr)))
        elif kind == "puncture":
            net.do(lambda: box.append(ov.create_puncture(self.pnode.endpoint.lan_address, self.prev, 7)))
        else:
            known = set(net.x.overlay.exit_sockets) | set(net.x.overlay.relay_from_to) | set(net.x.overlay.circuits)
            cid = next(c for c in range(0x7fff0000, 0x7fff0000 + len(known) + 1) if c not in known)
            net.do(lambda: box.append(ov.ezr_pack(DestroyPayload.msg_id, DestroyPayload(cid, 0))))
        if not box:
            raise MachineryError("driver could not make a signed %s message" % kind)
        net.rewrite = None if src == "prev" else net.source_address(self.prev, src)
        net.do(self.pnode.endpoint.send, xaddr, box[0])
        net.rewrite = None
        self.seen = src
        return self.observe({"k": "signed", "src": src, "kind": kind}, n_sent, n_back)

    def situation(self, a):
        """What the socket did with outside address a so far (label only)."""
        a = (str(a[0]), int(a[1]))
        plain = a[0][7:] if a[0].startswith("::ffff:") else None
        for name, known in (("sent", self.h_sent), ("heard", self.h_heard), ("asked", self.h_asked)):
            if a in known:
                return name
            if plain is not None and (plain, a[1]) in known:
                return name + "-mapped"
        for name, known in (("sent", self.h_sent), ("heard", self.h_heard), ("asked", self.h_asked)):
            if any(a[0] == b[0] for b in known):
                return name + "-ip"
        return "fresh"

    def transport_ready(self):
        out = self.net.outside
        n_sent, n_back = len(out.sent), len(self.net.backlog)
        fam, fut = next(g for g in out.gates if not g[1].done())
        waiting = len(self.sock.queue)
        self.net.do(fut.set_result, None)
        ev = {"k": "tr", "fam": fam}
        if self.state() == "ready":
            # the queue was flushed: had the configuration changed while packets were waiting in it?
            ev["wait"] = ("reconf" if self.q_dirty else "same") if waiting else ""
            self.q_dirty = False
        return self.observe(ev, n_sent, n_back)

    def resolve(self, i):
        out = self.net.outside
        n_sent, n_back = len(out.sent), len(self.net.backlog)
        host, fut = out.pending_dns()[i - 1]
        wait = ""
        if len(self.pend_epochs) == len(out.pending_dns()):
            wait = "reconf" if self.pend_epochs.pop(i - 1) != self.epoch else "same"
        rip = ""
        if host in out.DNS:
            answer = list(out.DNS[host])
            rip = sorted(answer, key=lambda x: x[0])[0][-1][0]      # the resolver's answer, IPv4 preferred (documented)
            self.net.do(fut.set_result, answer)
        else:
            self.net.do(fut.set_exception, socket.gaierror(-2, "Name or service not known"))
        return self.observe({"k": "res", "i": i, "host": host, "rip": rip, "wait": wait}, n_sent, n_back)

    def outside_datagram(self, fam, pkt, source=None):
        """A datagram from outside address `source` ((ip, port); default: an address never dealt with) arrives on the
        IPv4 (fam v4) or IPv6 (v6, v6mapped) socket."""
        out = self.net.outside
        n_sent, n_back = len(out.sent), len(self.net.backlog)
        proto, tr = out.protos["v4" if fam == "v4" else "v6"]
        if tr.closed:
            raise MachineryError("driver delivers a datagram on a closed transport")
        if source is None:
            source = OUT_SRC[fam][:2]
        source = (str(source[0]), int(source[1]))
        if (fam == "v4") != (":" not in source[0]) or (fam == "v6mapped") != source[0].startswith("::ffff:"):
            raise MachineryError("driver delivers a datagram from %r on the %s socket" % (source, fam))
        sit = self.situation(source)
        self.net.do(proto.datagram_received, pkt, source if fam == "v4" else source + (0, 0))
        self.packets.append(pkt)
        ev = self.observe({"k": "out", "fam": fam, "p": view_of(pkt), "a": addr_rec(source), "from": list(source),
                           "sit": sit}, n_sent, n_back)
        if fam != "v6mapped":
            self.judge(ev, pkt, bool(ev["tun"]))
        return ev

    def known_hosts(self, fam):
        """Outside addresses of one family this socket had to do with, most significant history first."""
        seen, res = set(), []
        for a in self.h_sent + self.h_heard + self.h_asked:
            if ((":" in a[0]) == (fam != "v4")) and not a[0].startswith("::ffff:") and a not in seen and a != NULL:
                seen.add(a)
                res.append(a)
        return res

    def close(self):
        out = self.net.outside
        n_sent, n_back = len(out.sent), len(self.net.backlog)
        self.net.do(lambda: self.net.x.overlay.remove_exit_socket(self.xcid, remove_now=True))
        self.closed = True
        return self.observe({"k": "close"}, n_sent, n_back)

    def can_out(self, fam):
        out = self.net.outside
        key = "v4" if fam == "v4" else "v6"
        return not self.closed and key in out.protos and not out.protos[key][1].closed

    def finish(self):
        self.net.cleanup(self.circuit, self.xcid)
        self.net.set_flags(self.net.flagset)
        if self.seen not in ("", "prev"):
            # the previous hop node speaks for itself again (not part of the recorded socket lifetime)
            box = []
            self.net.do(lambda: box.append(self.pnode.overlay.create_puncture(self.pnode.endpoint.lan_address,
                                                                              self.prev, 7)))
            self.net.do(self.pnode.endpoint.send, self.net.x.endpoint.wan_address, box[0])
        if self.net.errors:
            raise MachineryError("harness call failed inside the loop: %s" % self.net.errors[:3])
        return {"flags": list(self.net.flagset), "prefix": list(self.net.prefix), "qcap": self.qcap,
                "hops": self.hops, "events": self.events}


class PacketGen:
    """Packets of every class the policy distinguishes, and their near misses."""

    def __init__(self, rng, prefix):
        self.rng, self.prefix = rng, prefix
        self.classes = ["utp", "tracker0", "tracker8", "dht", "ipv8", "own", "bare", "junk", "both", "near", "empty",
                        "big"]

    def body(self, n):
        return self.rng.randbytes(n)

    def make(self, cls):
        r = self.rng
        if cls == "utp":
            return bytes([r.choice([0x01, 0x11, 0x21, 0x31, 0x41]), r.randrange(4)]) + self.body(r.choice([18, 30, 98]))
        if cls == "tracker0":
            return bytes([0, 0, 0, r.randrange(4)]) + b"\x33" + self.body(r.choice([3, 11, 15]))
        if cls == "tracker8":
            return b"\x41\x72\x71\x01\x19\x80\x04\x17" + bytes([0, 0, 0, r.randrange(4)]) + self.body(r.choice([0, 4, 86]))
        if cls == "dht":
            return b"d1:ad2:id20:" + self.body(r.choice([0, 20, 60])) + b"e"
        if cls == "ipv8":
            return b"\x00" + bytes([r.choice([1, 2])]) + bytes(range(17, 37)) + self.body(r.choice([1, 10, 100]))
        if cls == "own":
            return self.prefix + bytes([r.randrange(1, 256)]) + b"\x99" + self.body(r.choice([0, 10, 100])) + b"\x98"
        if cls == "bare":
            return self.prefix
        if cls == "junk":
            return bytes([r.choice([0xff, 0x05, 0x64, 0x7f])]) + b"\xfe" + self.body(r.choice([0, 5, 28, 64])) + b"\x07"
        if cls == "both":
            return b"\x00\x01\x07\x07\x07\x07\x07\x07\x00\x00\x00\x02" + self.body(r.choice([11, 30])) + b"\x09"
        if cls == "empty":
            return b""
        if cls == "big":
            head = r.choice([b"\x01\x00", b"\x00\x02" + bytes(range(17, 37)), self.prefix + b"\x01", b"d", b"\xee\xee"])
            return head + self.body(r.choice([1000, 1400])) + r.choice([b"e", b"\x00"])
        # near misses of every rule
        return r.choice([
            b"\x01\x00" + self.body(17),                                   # uTP one byte short
            b"\x02\x00" + self.body(28),                                   # uTP version 2
            b"\x51\x00" + self.body(28),                                   # uTP type 5
            b"\x01\x04" + self.body(28),                                   # uTP extension 4
            b"\x00\x00\x00\x04" + b"\x55" * 12,                            # tracker action 4
            b"\x00\x00\x00\x01\x55\x55\x55",                               # action at 0 but 7 bytes
            b"\x55" * 8 + b"\x00\x00\x00",                                 # action word at 8 cut short
            b"\x55" * 8 + b"\x00\x00\x01\x00" + b"\x55" * 4,               # action 256
            b"d" + self.body(10) + b"f",                                   # no closing e
            b"D" + self.body(10) + b"e",
            b"d",
            b"\x00\x03" + bytes(range(17, 37)) + self.body(10) + b"\x07",  # IPv8 version 3
            b"\x01\x02" + bytes(range(17, 37))[:18] + b"\x07\x07\x07",     # first byte not 0 (and not uTP: ext 2, short)
            (b"\x00\x02" + bytes(range(17, 37)))[:22],                     # foreign bare prefix
            self.prefix[:21] + bytes([self.prefix[21] ^ 1]) + b"\x05\x06\x07",   # own prefix, last byte flipped
            self.prefix[:5] + bytes([self.prefix[5] ^ 0x80]) + self.prefix[6:] + b"\x05\x06\x07",
        ])

    def any(self):
        return self.make(self.rng.choice(self.classes))

    def make_long(self, cls, n):
        """A packet of the class with at least n bytes if the class has such members (bytes >= 22 count as 'the rest')."""
        for _ in range(40):
            p = self.make(cls)
            if len(p) >= n:
                break
        return p


def scripted_trace(net, gen, hops, variant):
    t = TraceRun(net, hops)
    own, junk = gen.make("own"), gen.make("junk")
    marks = {}
    if variant == "tour":
        t.data("other", "v4", DESTS["v4"][0], gen.make("own"))
        marks["other_while_disabled"] = len(t.events)
        t.data("prev", "null", NULL, own)
        t.data("prev", "v4", DESTS["v4"][0], junk)         # opens the socket, packet itself is dropped unless allowed
        t.data("prev", "v4", DESTS["v4"][0], own)
        t.data("port", "v6", DESTS["v6"][0], gen.make("own"))
        t.data("prev", "dom4", DESTS["dom4"][0], gen.make("own"))
        t.data("prev", "v4", DESTS["v4"][1], gen.make("utp"))
        t.data("prev", "v4", DESTS["v4"][1], gen.make("ipv8"))
        t.transport_ready()
        t.data("prev", "v4", DESTS["v4"][0], gen.make("own"))
        t.data("prev", "v6", DESTS["v6"][0], gen.make("own"))
        t.outside_datagram("v4", junk)
        marks["forbidden_from_outside"] = len(t.events)
        t.outside_datagram("v4", own)
        t.outside_datagram("v4", gen.make("dht"))
        t.outside_datagram("v4", gen.make("ipv8"))
        t.transport_ready()
        t.resolve(1)
        t.data("prev", "null", NULL, own)
        marks["null_destination_when_ready"] = len(t.events)
        t.data("other", "v6", DESTS["v6"][1], gen.make("own"))
        t.data("prev", "dom6", DESTS["dom6"][0], gen.make("own"))
        t.data("prev", "domfail", DESTS["domfail"][0], gen.make("own"))
        t.data("prev", "dom4", DESTS["dom4"][1], gen.make("tracker0"))
        while t.net.outside.pending_dns():
            t.resolve(len(t.net.outside.pending_dns()))
        for fam in ("v6", "v6mapped", "v4"):
            for cls in ("own", "junk", "utp", "both", "near"):
                t.outside_datagram(fam, gen.make(cls))
        for cls in gen.classes:
            t.data("prev", "v4", DESTS["v4"][0], gen.make(cls))
        t.data("prev", "v4", DESTS["v4"][0], b"\xff\xfe" + gen.body(30))
        marks["junk_when_ready"] = len(t.events)
        t.close()
        t.data("prev", "v4", DESTS["v4"][0], own)
    else:  # queue overflow while the transports are being opened, resolutions cancelled by close
        for i in range(t.qcap + 3):
            t.data("prev", "v6" if i % 3 == 0 else "v4", DESTS["v6" if i % 3 == 0 else "v4"][0],
                   net.prefix + bytes([1 + i]) + b"\x01" * i + b"\x02")
        t.data("prev", "v4", DESTS["v4"][0], junk)
        t.data("prev", "dom4", DESTS["dom4"][0], own)
        t.transport_ready()
        t.data("prev", "v4", DESTS["v4"][2], own)
        t.transport_ready()
        t.data("prev", "dom6", DESTS["dom6"][0], own)
        t.close()
    return t.finish(), marks


FLOW_CLASSES = ["junk", "utp", "ipv8", "dht", "near", "own"]


def flows_trace(net, gen, hops, burst=0):
    """History, then input from / towards an address with that history.  The socket emits allowed packets to some
    outside addresses, is asked to send forbidden ones to others, resolves names, accepts datagrams; every such address
    then sends (and is sent) packets of every class, in the socket states in which that is possible."""
    t = TraceRun(net, hops)
    own, junk = (lambda: gen.make("own")), (lambda: gen.make("junk"))
    x4, q4, y4, z4, x6 = ("93.184.216.34", 80), ("1.2.3.4", 0), ("10.1.2.3", 6881), ("8.8.4.4", 53), ("2001:db8::1", 443)
    marks = {}
    t.data("prev", "v4", x4, own())                        # opens the socket; waits in the queue
    t.transport_ready()                                    # IPv4 transport: datagrams can arrive, queue not yet flushed
    t.outside_datagram("v4", junk(), x4)                   # from an address a packet is waiting for
    t.data("prev", "v4", q4, own())                        # leaves at once
    t.outside_datagram("v4", junk(), q4)                   # contacted, socket still enabling
    t.outside_datagram("v4", gen.make("utp"), q4)
    t.transport_ready()                                    # ready: the queue is flushed, x4 contacted
    if x4 not in t.h_sent or q4 not in t.h_sent:
        raise MachineryError("flows scenario: the allowed packets did not leave (vacuous history)")
    t.outside_datagram("v4", junk(), x4)
    marks["forbidden_from_contacted"] = len(t.events)
    for cls in FLOW_CLASSES:
        t.outside_datagram("v4", gen.make(cls), x4)        # every class from a contacted address
    t.outside_datagram("v4", junk(), (x4[0], x4[1] + 1))   # its IP, another port
    t.outside_datagram("v4", gen.make("utp"), (x4[0], 6881))
    t.outside_datagram("v6mapped", junk(), ("::ffff:" + x4[0], x4[1]))
    t.data("prev", "v4", y4, junk())                       # refused
    for cls in ("junk", "utp", "ipv8"):
        t.outside_datagram("v4", gen.make(cls), y4)        # from an address only forbidden data was meant for
    t.data("prev", "dom4", ("v4.test", 8080), own())
    t.data("prev", "dom4", ("both.test", 80), own())
    t.resolve(1)
    t.resolve(1)
    for a in (("93.184.216.34", 8080), ("93.184.216.35", 80)):
        for cls in ("junk", "utp", "ipv8"):
            t.outside_datagram("v4", gen.make(cls), a)     # from a resolved, contacted address
    t.data("prev", "v6", x6, own())
    t.data("prev", "dom6", ("v6.test", 8080), own())
    t.resolve(1)
    for a in (x6, ("2001:db8::34", 8080), (x6[0], 444)):
        for cls in ("junk", "utp", "ipv8", "own"):
            t.outside_datagram("v6", gen.make(cls), a)
    t.outside_datagram("v4", own(), z4)                    # accepted from outside first ...
    marks["accepted_from_outside"] = len(t.events)
    for cls in FLOW_CLASSES:
        t.outside_datagram("v4", gen.make(cls), z4)        # ... then every class from there
    for cls in FLOW_CLASSES:
        t.data("prev", "v4", z4, gen.make(cls))            # ... and every class towards it
    marks["forbidden_to_heard"] = len(t.events) - len(FLOW_CLASSES) + 1     # junk
    for cls in FLOW_CLASSES:
        t.data("prev", "v4", x4, gen.make(cls))            # every class towards a contacted address
    t.data("port", "v4", x4, junk())
    t.data("other", "v4", x4, junk())
    t.outside_datagram("v4", junk(), x4)
    if burst:
        # a long well-behaved exchange with one address, then forbidden packets in both directions
        for _ in range(burst):
            t.data("prev", "v4", x4, own())
            t.outside_datagram("v4", own(), x4)
        t.outside_datagram("v4", junk(), x4)
        t.data("prev", "v4", x4, junk())
        t.outside_datagram("v4", gen.make("near"), ("8.8.8.8", 53))
    t.close()
    return t.finish(), marks


ALL_FLAGS = ("BT", "IPV8", "RELAY")
RECONF_CLASSES = ["utp", "tracker0", "dht", "ipv8", "own", "junk"]


def reconf_trace(net, gen, rng, hops):
    """Sequences the static scenarios cannot contain.
    (1) before the socket is opened, validly signed messages made by the previous hop node arrive from its own address,
        from its IP with another port and from a foreign IP (replays), each followed by data from the foreign IP and,
        at the end, by data from the previous hop itself;
    (2) the node is reconfigured while packets of every class wait - for a DNS answer (transports up or not yet up) and
        for the transports - and between datagrams from outside: permissive -> the configuration under test ->
        permissive -> the configuration under test."""
    t = TraceRun(net, hops)
    target = tuple(net.flagset)
    own, junk = (lambda: gen.make("own")), (lambda: gen.make("junk"))
    x4, y4, x6 = ("93.184.216.34", 80), ("10.1.2.3", 6881), ("2001:db8::1", 443)
    marks = {}

    def resolve(i):
        # (an implementation that is stricter than the specification may have fewer resolutions in flight)
        if len(t.net.outside.pending_dns()) >= i:
            t.resolve(i)

    def transport_ready():
        if "tr" in t.enabled_kinds():
            t.transport_ready()
    # -- (1) who may open the socket
    kinds = list(SIGNED_KINDS)
    rng.shuffle(kinds)
    t.signed("prev", kinds[0])
    t.data("other", "v4", x4, own())
    for i, kind in enumerate(kinds):
        t.signed("other", kind)
        t.data("other", "v4", x4, own())               # the replayer's own IP: still not the previous hop
        marks.setdefault("other_after_replay", len(t.events))
        t.data("other", "v6" if i else "dom4", x6 if i else ("v4.test", 80), gen.make(rng.choice(RECONF_CLASSES)))
    t.signed("port", kinds[1])
    t.data("other", "v4", y4, own())
    t.signed("other", kinds[2])
    # -- (2) reconfiguration; the socket is opened by the previous hop under the permissive configuration
    t.set_flags(ALL_FLAGS)
    marks["first_prev_data"] = len(t.events) + 1
    waiting = {cls: gen.make(cls) for cls in RECONF_CLASSES}
    for cls in RECONF_CLASSES:                             # all accepted now: wait for their names, transports not up
        t.data("prev", "dom4", ("v4.test", 6969), waiting[cls])
    for cls in ("utp", "ipv8", "own", "dht"):              # wait for the transports
        t.data("prev", "v4", y4, gen.make(cls))
    t.data("prev", "v6", x6, gen.make("tracker0"))
    t.signed("other", kinds[0])                            # the socket is open: later replays change nothing either
    resolve(1)                                           # same configuration, no transport: joins the queue
    t.set_flags(target)
    resolve(1)                                           # accepted under the old flags, queued under the new ones?
    transport_ready()
    resolve(1)                                           # IPv4 transport up, new configuration: leaves only if allowed
    marks["stale_dns"] = len(t.events)
    marks["stale_dns_emit"] = {"p": view_of(waiting["dht"]), "dk": "v4", "a": addr_rec(("93.184.216.34", 6969))}
    transport_ready()                                      # the queue is flushed under the new configuration
    marks["stale_queue"] = len(t.events)
    while t.net.outside.pending_dns():
        resolve(1)
    for cls in ("utp", "ipv8", "junk", "own") if t.can_out("v4") else ():
        t.outside_datagram("v4", gen.make(cls), y4)
    t.set_flags(ALL_FLAGS)
    for cls in RECONF_CLASSES:
        t.data("prev", "dom4" if cls != "ipv8" else "dom6", ("v4.test", 80) if cls != "ipv8" else ("v6.test", 8080),
               gen.make(cls))
    for cls in ("utp", "ipv8", "junk", "own") if t.can_out("v4") else ():
        t.outside_datagram("v4", gen.make(cls), y4)
    resolve(2)                                           # no reconfiguration in between: leaves
    marks["fresh_dns"] = len(t.events)
    t.set_flags(target)
    t.set_flags(target)
    while t.net.outside.pending_dns():
        t.resolve(len(t.net.outside.pending_dns()))
    for cls in ("utp", "ipv8", "junk"):
        if t.can_out("v4"):
            t.outside_datagram("v4", gen.make(cls), x4)
        t.data("prev", "v4", x4, gen.make(cls))
    t.data("prev", "dom4", ("both.test", 80), gen.make("tracker0"))
    t.set_flags(ALL_FLAGS)                                 # if it was forbidden when it arrived there is nothing to revive
    resolve(1)
    t.data("prev", "dom4", ("both.test", 80), gen.make("tracker0"))
    t.close()
    t.set_flags(target)
    t.signed("other", kinds[1])
    t.data("other", "v4", x4, own())
    return t.finish(), marks


KIN_CLASSES = ["dht", "utp", "tracker0", "tracker8", "ipv8", "own", "both", "junk"]


def kin_trace(net, gen, rng, hops, full):
    """Packet history, then a packet that shares most of itself with an earlier one.  For a packet of every class the
    socket is fed one of its kin (kin()), the packet itself, every kin - outbound and from outside, IPv4 and IPv6 -
    and the packet again; then identical packets are repeated across reconfigurations of the node."""
    t = TraceRun(net, hops)
    target = tuple(net.flagset)
    x4, x6 = ("93.184.216.34", 6881), ("2001:db8::1", 6881)
    t.data("prev", "v4", x4, gen.make("own"))              # opens the socket
    t.transport_ready()                                    # IPv4 up: IPv4 data leaves at once, datagrams arrive
    classes = list(KIN_CLASSES)
    rng.shuffle(classes)

    def from_outside(i, pkt):
        if i % 4 == 3 and t.can_out("v6"):
            t.outside_datagram("v6", pkt, x6)
        else:
            t.outside_datagram("v4", pkt, x4)
    for ci, cls in enumerate(classes):
        if ci == 2:
            t.transport_ready()                            # ready
        base = gen.make_long(cls, 24)
        ks = kin(base, rng)
        if not full:
            # the two with another last byte, one with another remainder, a sample of the cut / extended / altered ones
            ks = ks[:3] + rng.sample(ks[3:], min(4, len(ks) - 3))
        t.data("prev", "v4", x4, ks[0])                    # a kin is judged before the packet ...
        t.data("prev", "v4", x4, base)
        from_outside(0, base)
        for i, k in enumerate(ks):                         # ... and all of them after it
            if i < 2 or i % 2 == 0:
                t.data("prev", "v6" if i % 4 == 2 and t.state() == "ready" else "v4",
                       x6 if i % 4 == 2 and t.state() == "ready" else x4, k)
            if i < 2 or i % 2 == 1:
                from_outside(i, k)
        from_outside(0, base)
        t.data("prev", "v4", x4, base)
    # the identical packet under another configuration
    for cls in ("utp", "ipv8", "dht") if full else rng.sample(("utp", "ipv8", "dht"), 2):
        p = gen.make_long(cls, 24)
        for fs in (ALL_FLAGS, target, (), ALL_FLAGS, target) if full else (ALL_FLAGS, target, (), ALL_FLAGS):
            t.set_flags(fs)
            t.data("prev", "v4", x4, p)
            from_outside(0, p)
        t.data("prev", "v4", x4, kin(p, rng)[0])
    t.close()
    return t.finish(), kin_marks(t.events)


def kin_marks(events):
    """Where a kin of a packet that passed was refused, outbound and inbound (for the negative controls)."""
    marks = {}
    for i, e in enumerate(events, 1):
        if "tail of passed" in e.get("rel", "") and e["st"] == "ready" and not e["pass"]:
            marks.setdefault("kin_out" if e["k"] == "data" else "kin_in", i)
    return marks if len(marks) == 2 else None


def random_trace(net, gen, rng, hops, length):
    t = TraceRun(net, hops)
    burst = rng.random() < 0.2

    def packet(make):
        if t.packets and rng.random() < 0.3:
            # shares head / length / tail with a packet this socket was fed before
            return rng.choice(kin(rng.choice(t.packets[-6:]), rng))
        return make()
    for _ in range(length):
        kinds = t.enabled_kinds()
        weights = {"data": 6, "tr": 1 if burst else 3, "res": 3, "out": 4, "close": 0.25, "flags": 1.2,
                   "signed": 1.5 if t.state() == "disabled" else 0.3}
        k = rng.choices(kinds, [weights[x] for x in kinds])[0]
        if k == "data":
            dk = rng.choices(["v4", "v6", "dom4", "dom6", "domfail", "null"], [6, 4, 2, 2, 1, 2])[0]
            src = rng.choices(["prev", "port", "other"], [6, 1, 3])[0]
            cls = rng.choice(gen.classes + ["own", "own", "utp", "ipv8"])
            dest = rng.choice(DESTS[dk])
            if dk in ("v4", "v6") and rng.random() < 0.3 and t.known_hosts(dk):
                dest = rng.choice(t.known_hosts(dk))        # an address the socket already had to do with
            t.data(src, dk, dest, packet(lambda: gen.make(cls)))
        elif k == "tr":
            t.transport_ready()
        elif k == "flags":
            t.set_flags(rng.choice(FLAGSETS + [ALL_FLAGS, tuple(net.flagset)]))
        elif k == "signed":
            t.signed(rng.choices(["prev", "port", "other"], [1, 1, 3])[0], rng.choice(SIGNED_KINDS))
        elif k == "res":
            t.resolve(rng.randrange(1, len(t.net.outside.pending_dns()) + 1))
        elif k == "out":
            fam = rng.choice([f for f in ("v4", "v6", "v6mapped") if t.can_out(f)])
            known = t.known_hosts("v4" if fam != "v6" else "v6")
            source, how = None, rng.random()
            if known and how < 0.6:
                source = rng.choice(known[:4])              # an address with a history (sent to / heard / asked)
            elif known and how < 0.75:
                a = rng.choice(known[:4])
                source = (a[0], a[1] % 65535 + 1)           # its IP, another port
            if source is not None and fam == "v6mapped":
                source = ("::ffff:" + source[0], source[1])
            t.outside_datagram(fam, packet(lambda: gen.any() if rng.random() < 0.6
                                           else gen.make(rng.choice(FLOW_CLASSES))), source)
        else:
            t.close()
    return t.finish()


EXACT_INV = ["TraceAccepted", "TypeOK", "EmitOnlyAllowed", "NeverToNull", "OpenedOnlyByPrevHop", "EmitOnlyWhenOpen",
             "QueueClean", "VerdictByOwnShape"]


def write_cfg(tmp, name, spec, invariants, qcap):
    """specs/ExitPolicyTrace.cfg / ExitPolicyTrace_obs.cfg, regenerated when the implementation's queue capacity or the
    wanted invariants differ from the ones written there."""
    static = "ExitPolicyTrace.cfg" if spec == "TraceSpec" else "ExitPolicyTrace_obs.cfg"
    if qcap == 10 and invariants in (EXACT_INV, ["ObsOK"]):
        return static
    path = os.path.join(tmp, name)
    with open(path, "w", encoding="utf-8") as f:
        f.write("SPECIFICATION %s\nCONSTANTS QCap = %d MaxPend = 100000 MaxOps = 1000000\n"
                "          NoInboundFilter = FALSE NoNullCheck = FALSE AnyoneOpens = FALSE RepIds = {}\n"
                "          TrackHistory = TRUE FlowCache = \"none\" HostIps = {} HostPorts = {} SrcSet = {} DkSet = {}\n"
                "          StaleVerdict = \"none\" HopFollowsPeer = FALSE VerdictMemo = \"none\" FlagChoices = {} SignedSrcs = {}\n"
                % (spec, qcap))
        for inv in invariants:
            f.write("INVARIANT %s\n" % inv)
    return path


def rejected_traces(traces, qcap, mode):
    """Indexes (1-based) of the traces TLC rejects; one TLC run with -continue."""
    tmp = scratch_dir("c06c-")
    try:
        path = os.path.join(tmp, "traces.json")
        with open(path, "w", encoding="utf-8") as f:
            json.dump(traces, f)
        if mode == "exact":
            cfg = write_cfg(tmp, "exact.cfg", "TraceSpec", ["TraceAccepted"], qcap)
        else:
            cfg = write_cfg(tmp, "obs.cfg", "ObsSpec", ["ObsOK"], qcap)
        r = run_tlc("ExitPolicyTrace.tla", cfg, env={"TRACE_FILE": path}, coverage=False, continue_=True, workers=2)
    finally:
        shutil.rmtree(tmp, ignore_errors=True)
    out = set()
    for chunk in r.output.split("Error: Invariant")[1:]:
        tids = re.findall(r"^/\\ tid = (\d+)", chunk, flags=re.M)
        if tids:
            out.add(int(tids[-1]))
    return out


def validate(traces, qcap, mode):
    """mode 'exact' or 'obs' -> (ok, violated invariant, trace index, event index, TlcResult)"""
    tmp = scratch_dir("c06t-")
    try:
        path = os.path.join(tmp, "traces.json")
        with open(path, "w", encoding="utf-8") as f:
            json.dump(traces, f)
        if mode == "exact":
            cfg = write_cfg(tmp, "exact.cfg", "TraceSpec", EXACT_INV, qcap)
        else:
            cfg = write_cfg(tmp, "obs.cfg", "ObsSpec", ["ObsOK"], qcap)
        r = run_tlc("ExitPolicyTrace.tla", cfg, env={"TRACE_FILE": path}, coverage=False)
    finally:
        shutil.rmtree(tmp, ignore_errors=True)
    if r.ok:
        return True, None, None, None, r
    last = r.error_trace[-1][1] if r.error_trace else {}
    tid, l = last.get("tid"), last.get("l")
    if tid is None:     # "violated by the initial state": TLC prints the state without a "State 1:" header
        chunk = r.output.split("Error: Invariant")[-1]
        mt, ml = re.search(r"^/\\ tid = (\d+)", chunk, flags=re.M), re.search(r"^/\\ l = (\d+)", chunk, flags=re.M)
        tid, l = (int(mt.group(1)) if mt else None), (int(ml.group(1)) if ml else None)
    if r.violated != "TraceAccepted" and mode == "exact" and isinstance(l, int):
        l -= 1     # a state invariant fails in the state AFTER the offending event
    return False, r.violated, tid, l, r


def reconfigured_at(tr, l):
    return any(e["k"] == "flags" for e in tr["events"][:l])


def describe_event(tr, l):
    if not isinstance(l, int) or not 1 <= l <= len(tr["events"]):
        return "?"
    e = tr["events"][l - 1]
    keys = {"flags": ("k", "fl", "st"), "signed": ("k", "src", "kind", "st"), "res": ("k", "host", "wait", "st", "emit"),
            "tr": ("k", "fam", "wait", "st", "emit")}.get(e["k"], ("k", "src", "dk", "fam", "st", "emit", "tun"))
    return json.dumps({k: e[k] for k in keys if k in e})[:700]


def corrupted(traces, marks):
    """Negative controls on the recorded material: [(name, corrupted trace)] - every one must be rejected by both
    validators."""
    (tour_idx, m), (flow_idx, fm), (rc_idx, rm) = marks["tour"], marks["flows"], marks["reconf"]
    kin_idx, km = marks["kin"]

    def corrupt(idx, fn):
        t = json.loads(json.dumps(traces[idx]))
        fn(t["events"])
        return t

    def c_inbound(ev):
        e = ev[m["forbidden_from_outside"] - 1]
        e["tun"] = [{"p": e["p"], "fam": "v4", "dest_null": True, "a": e["a"]}]

    def c_null(ev):
        e = ev[m["null_destination_when_ready"] - 1]
        e["emit"] = [{"p": e["p"], "dk": "null", "a": e["a"]}]

    def c_open(ev):
        ev[m["other_while_disabled"] - 1]["st"] = "enabling0"

    def c_policy(ev):
        # a forbidden packet reported as emitted
        e = ev[m["junk_when_ready"] - 1]
        e["emit"] = [{"p": e["p"], "dk": "v4", "a": e["a"]}]

    def c_flow_in(ev):
        # the "established flow" exemption: a forbidden datagram from an address the socket sent allowed packets to
        e = ev[fm["forbidden_from_contacted"] - 1]
        e["tun"] = [{"p": e["p"], "fam": "v4", "dest_null": True, "a": e["a"]}]

    def c_flow_out(ev):
        # ... and the other way round: a forbidden packet towards an address accepted datagrams came from
        e = ev[fm["forbidden_to_heard"] - 1]
        e["emit"] = [{"p": e["p"], "dk": "v4", "a": e["a"]}]

    def c_kin_out(ev):
        # the verdict on an earlier packet with the same first 22 bytes and length is re-used: a packet that is in no
        # allowed class leaves because its kin did
        e = ev[km["kin_out"] - 1]
        e["emit"] = [{"p": e["p"], "dk": e["dk"], "a": e["a"]}]

    def c_kin_in(ev):
        e = ev[km["kin_in"] - 1]
        e["tun"] = [{"p": e["p"], "fam": e["fam"], "dest_null": True, "a": e["a"]}]

    def c_stale_dns(ev):
        # the verdict taken before the name was resolved is kept although the node was reconfigured meanwhile
        ev[rm["stale_dns"] - 1]["emit"] = [rm["stale_dns_emit"]]

    def c_stale_queue(ev):
        # the queue is written to the transports as it is although the node was reconfigured while it waited
        ev[rm["stale_queue"] - 1]["emit"] = list(ev[rm["stale_queue"] - 2]["q"])

    def c_replay_opens(ev):
        # data from the IP a signed message of the previous hop's key was replayed from opens the socket
        for e in ev[rm["other_after_replay"] - 1:rm["first_prev_data"] - 1]:
            e["st"] = "enabling0"
    return [("trace in which a packet passes outbound because an earlier packet with the same head and length did is "
             "rejected", corrupt(kin_idx, c_kin_out)),
            ("trace in which a datagram from outside is tunnelled because an earlier packet with the same head and "
             "length passed is rejected", corrupt(kin_idx, c_kin_in)),
            ("trace in which a packet that waited for DNS leaves under flags that forbid it is rejected",
             corrupt(rc_idx, c_stale_dns)),
            ("trace in which the waiting queue is emitted unfiltered after a reconfiguration is rejected",
             corrupt(rc_idx, c_stale_queue)),
            ("trace in which data from the address a signed message was replayed from opens the socket is rejected",
             corrupt(rc_idx, c_replay_opens)),
            ("trace reporting a forbidden outside datagram as tunnelled is rejected", corrupt(tour_idx, c_inbound)),
            ("trace reporting an emission towards 0.0.0.0:0 is rejected", corrupt(tour_idx, c_null)),
            ("trace in which a foreign source opens the socket is rejected", corrupt(tour_idx, c_open)),
            ("trace reporting a forbidden packet as emitted is rejected", corrupt(tour_idx, c_policy)),
            ("trace reporting a forbidden datagram from an address the socket sent allowed packets to as tunnelled "
             "is rejected", corrupt(flow_idx, c_flow_in)),
            ("trace reporting a forbidden packet towards an address datagrams were accepted from as emitted is "
             "rejected", corrupt(flow_idx, c_flow_out))]


def trace_record(tier, rng):
    """Drive the real exit node through the scenario families; returns the recorded material."""
    import warnings

    from ..vloop import VLoop, install, uninstall
    warnings.filterwarnings("ignore", category=RuntimeWarning)   # interval tasks of stopped overlays are never awaited
    loop = install(VLoop())
    outside = Outside(loop)
    traces = []
    marks = {}
    n_random = 6 if tier == "quick" else 60
    variants = [(TUNNEL_CID, b"\x02")] if tier == "quick" else [(TUNNEL_CID, b"\x02"), (ODD_CID, b"\x01")]
    received = 0
    burst_k = rng.randrange(len(FLAGSETS))
    try:
        for cid, version in variants:
            for k, fs in enumerate(FLAGSETS):
                net = Net(loop, outside, fs, cid, version)
                gen = PacketGen(rng, net.prefix)
                try:
                    tr, m = scripted_trace(net, gen, 1, "tour")
                    marks.setdefault("tour", (len(traces), m))
                    traces.append(tr)
                    traces.append(scripted_trace(net, gen, 2, "tour")[0])
                    traces.append(scripted_trace(net, gen, 2, "overflow")[0])
                    for hops in ((1, 2) if tier != "quick" else (1 + k % 2,)):
                        tr, m = flows_trace(net, gen, hops, burst=24 if (tier != "quick" or k == burst_k) else 0)
                        marks.setdefault("flows", (len(traces), m))
                        traces.append(tr)
                    for hops in ((1, 2) if tier != "quick" else (2 - k % 2,)):
                        tr, m = reconf_trace(net, gen, rng, hops)
                        marks.setdefault("reconf", (len(traces), m))
                        traces.append(tr)
                    for hops in ((1, 2) if tier != "quick" else (1 + (k // 2) % 2,)):
                        tr, m = kin_trace(net, gen, rng, hops, tier != "quick")
                        if m:
                            marks.setdefault("kin", (len(traces), m))
                        traces.append(tr)
                    for i in range(n_random):
                        traces.append(random_trace(net, gen, rng, 1 + i % 2, rng.randrange(12, 45)))
                    received += net.received_by_origin
                finally:
                    net.stop()
    finally:
        uninstall()
        loop.close()
        import asyncio
        asyncio.set_event_loop(asyncio.new_event_loop())     # the enumeration builds TaskManagers (never run)
    if "kin" not in marks:
        # (an implementation that lets such a packet pass is a violation the validators report; the controls are
        # then made on the last trace of the family, where they are meaningless but never judged)
        marks["kin"] = (len(traces) - 1 - n_random, {"kin_out": 1, "kin_in": 1})
        marks["kin_vacuous"] = True
    qcaps = {t["qcap"] for t in traces}
    if len(qcaps) != 1:
        raise MachineryError("exit sockets with different queue capacities")
    return {"traces": traces, "marks": marks, "received": received, "qcap": qcaps.pop()}


def trace_submit(ex, rec):
    """Start the TLC runs on the recorded material (they run beside the enumeration)."""
    traces, qcap = rec["traces"], rec["qcap"]
    rec["controls"] = corrupted(traces, rec["marks"])
    bad = [t for _, t in rec["controls"]]
    rec["futures"] = (ex.submit(validate, traces, qcap, "obs"), ex.submit(validate, traces, qcap, "exact"),
                      ex.submit(rejected_traces, bad, qcap, "obs"), ex.submit(rejected_traces, bad, qcap, "exact"))


def trace_judge(ctx, rec):
    traces, qcap, received = rec["traces"], rec["qcap"], rec["received"]
    n_events = sum(len(t["events"]) for t in traces)
    n_emit = sum(len(e["emit"]) for t in traces for e in t["events"])
    n_tun = sum(len(e["tun"]) for t in traces for e in t["events"])
    n_opened = sum(1 for t in traces if any(e["st"] != "disabled" for e in t["events"]))
    if not n_emit or not n_tun or not n_opened:
        ctx.note("trace_vacuity", {"emissions": n_emit, "tunnelled_back": n_tun, "sockets_opened": n_opened})
    kinds = {}
    history = {}
    reconf = {}
    kinstat = {}
    for t in traces:
        before = "disabled"
        reconfigured = False
        for e in t["events"]:
            rk = None
            reconfigured = reconfigured or e["k"] == "flags"
            if e["k"] in ("res", "tr") and e.get("wait"):
                rk = "%s, configuration %s while the packet(s) waited: %s" % (
                    "name resolved" if e["k"] == "res" else "queue flushed",
                    "changed" if e["wait"] == "reconf" else "unchanged", "passed" if e["emit"] else "nothing passed")
            elif e["k"] == "data" and e.get("seen") and before == "disabled":
                rk = "first data from %s after a signed message of the previous hop's key from %s: %s" % (
                    e["src"], e["seen"], "opened" if e["st"] != "disabled" else "stayed disabled")
            elif e["k"] == "out" and reconfigured:
                rk = "datagram from outside in a reconfigured node: %s" % ("passed" if e["tun"] else "nothing passed")
            if rk:
                reconf[rk] = reconf.get(rk, 0) + 1
                ctx.nontrivial(("reconf", tuple(t["flags"]), rk, tuple(e["p"]["h"][:2]), e.get("kind", "")))
            before = e["st"]
            key = (e["k"], e["src"] if e["k"] == "data" else "", e["dk"] if e["k"] == "data" else e["fam"], e["st"],
                   bool(e["emit"]), bool(e["tun"]))
            kinds[key] = kinds.get(key, 0) + 1
            ctx.nontrivial(("ev", tuple(t["flags"]), key, tuple(e["p"]["h"][:2]), e["p"]["n"]))
            if e.get("rel") and e["rel"] != "fresh":
                for part in e["rel"].split(", "):
                    kk = "%s, %s: %s" % ("datagram from outside" if e["k"] == "out" else "tunnel data", part,
                                         "passed" if e["pass"] else "nothing passed")
                    kinstat[kk] = kinstat.get(kk, 0) + 1
                ctx.nontrivial(("kin", tuple(t["flags"]), e["k"], e["rel"], e["pass"], tuple(e["p"]["h"][:2]),
                                e["p"]["n"], e["p"]["z"]))
            if e["sit"] and e["sit"] != "fresh" and e["k"] in ("out", "data"):
                hk = "%s %s %s: %s" % ("datagram from" if e["k"] == "out" else "data towards", e["sit"], e["st"],
                                       ("passed" if (e["tun"] or e["emit"]) else "nothing passed"))
                history[hk] = history.get(hk, 0) + 1
                ctx.nontrivial(("hist", tuple(t["flags"]), e["k"], e["sit"], e["st"], tuple(e["p"]["h"][:2]),
                                e["p"]["n"]))

    # the property on the observations (verdict) and exact conformance to ExitPolicy.tla
    fo, fe, fco, fce = rec["futures"]
    ok_o, inv_o, tid_o, l_o, r_o = fo.result()
    ok_e, inv_e, tid_e, l_e, r_e = fe.result()
    ctx.add_tlc("trace_obs", r_o)
    ctx.add_tlc("trace_exact", r_e)
    divergence = None
    if not ok_o:
        tr = traces[tid_o - 1] if isinstance(tid_o, int) else None
        e = tr["events"][l_o - 1] if tr and isinstance(l_o, int) and l_o <= len(tr["events"]) else {}
        what = "observation"
        if e:
            if e.get("tun"):
                what = "inbound"
                if e.get("sit", "fresh") not in ("", "fresh"):
                    what = "inbound-from-known-address"
            if e.get("emit"):
                what = "null-destination" if any(x["dk"] == "null" for x in e["emit"]) else "outbound"
            if e["k"] in ("res", "tr") and e.get("wait") == "reconf" and e.get("emit"):
                what = "stale-verdict-after-reconfiguration"
            if e["k"] == "data" and e["src"] == "other" and e["st"] != "disabled" and (
                    l_o == 1 or tr["events"][l_o - 2]["st"] == "disabled"):
                what = "opened-by-foreign-source"
                if e.get("seen") == "other":
                    what = "opened-by-foreign-source-after-replayed-signed-message"
            if what in ("inbound", "outbound", "inbound-from-known-address") and \
                    " of passed" in e.get("rel", "") and not reconfigured_at(tr, l_o):
                # (on its own the packet is judged right - binding E; what differs here is what went before it)
                what += "-kin-of-earlier-packet"
        ctx.violation("trace:%s" % what,
                      "the exit node's observed behaviour violates the exit policy property (%s): flags %s, event %s: %s"
                      "%s" % (what, tr and tr["flags"], l_o, tr and describe_event(tr, l_o),
                              ("; what the socket did with that outside address before: %s" % e["sit"]
                               if e and e.get("sit") else "") +
                              ("; relation to the packets this socket judged before: %s" % e["rel"]
                               if e and e.get("rel") else "")),
                      {"trace": tr, "event_index": l_o, "invariant": inv_o})
    elif not ok_e:
        tr = traces[tid_e - 1] if isinstance(tid_e, int) else None
        if inv_e != "TraceAccepted":
            # a property-level invariant of ExitPolicy.tla fails on a state the code really reached
            ctx.violation("trace:%s" % inv_e,
                          "recorded execution of the exit node reaches a state violating %s of ExitPolicy.tla: flags %s, "
                          "event %s: %s" % (inv_e, tr and tr["flags"], l_e, tr and describe_event(tr, l_e)),
                          {"trace": tr, "event_index": l_e, "invariant": inv_e})
        else:
            divergence = {"trace_flags": tr and tr["flags"], "event_index": l_e,
                          "event": tr and describe_event(tr, l_e),
                          "meaning": "the code differs from ExitPolicy.tla at this step without emitting anything the "
                                     "property forbids (e.g. a stricter filter); not a violation of C06"}
            print("NOTE %s: implementation and ExitPolicy.tla differ at a step that does not violate the property: %s"
                  % (PID, json.dumps(divergence)[:600]))
    if ok_o:
        ctx.traces(len(traces))
        ctx.evaluated(n_events)
    ctx.note("traces", {"traces": len(traces), "events": n_events, "outside_emissions": n_emit,
                        "sent_back_into_tunnel": n_tun, "received_by_originator": received,
                        "sockets_opened": n_opened, "queue_capacity": qcap,
                        "distinct_event_situations": len(kinds), "exact_conformance": ok_e,
                        "model_divergence": divergence,
                        "input_from_or_towards_addresses_with_a_history": dict(sorted(history.items())),
                        "reconfiguration_and_replayed_signed_messages": dict(sorted(reconf.items())),
                        "packets_sharing_head_length_or_tail_with_an_earlier_packet": dict(sorted(kinstat.items()))})
    if traces:
        ctx.sample({"recorded_events": traces[0]["events"][2:5], "flags": traces[0]["flags"]})

    rej_o, rej_e = fco.result(), fce.result()
    if not ctx.violations:
        # vacuity of the history part (only meaningful when the code conforms): forbidden input from / towards
        # addresses of every kind of history was really tried and really refused
        need = [k for k in ("datagram from sent ready: nothing passed", "datagram from sent enabling4: nothing passed",
                            "datagram from asked enabling4: nothing passed", "datagram from asked ready: nothing passed",
                            "datagram from heard ready: nothing passed", "datagram from sent-ip ready: nothing passed",
                            "data towards sent ready: nothing passed", "data towards heard ready: nothing passed",
                            "datagram from sent ready: passed", "data towards heard ready: passed")
                if not history.get(k)]
        need += [k for k in ("name resolved, configuration changed while the packet(s) waited: nothing passed",
                             "name resolved, configuration changed while the packet(s) waited: passed",
                             "name resolved, configuration unchanged while the packet(s) waited: passed",
                             "queue flushed, configuration changed while the packet(s) waited: passed",
                             "first data from other after a signed message of the previous hop's key from other: "
                             "stayed disabled",
                             "first data from prev after a signed message of the previous hop's key from other: opened")
                 if not reconf.get(k)]
        need += [k for k in ("tunnel data, tail of passed: nothing passed", "tunnel data, tail of refused: passed",
                             "datagram from outside, tail of passed: nothing passed",
                             "datagram from outside, tail of refused: passed",
                             "tunnel data, len of passed: nothing passed", "tunnel data, head of passed: nothing passed",
                             "datagram from outside, len of passed: nothing passed",
                             "datagram from outside, head of passed: nothing passed",
                             "tunnel data, twin of passed: passed", "datagram from outside, twin of passed: passed",
                             "tunnel data, same of passed: nothing passed",
                             "datagram from outside, same of passed: nothing passed",
                             "tunnel data, same of refused: passed")
                 # (a filter that is stricter than the specification - reported as a divergence above - may let
                 # nothing pass where the specification would)
                 if not kinstat.get(k) and (ok_e or not k.endswith(": passed"))]
        no_kin_marks = bool(rec["marks"].get("kin_vacuous"))
        if need or (no_kin_marks and ok_e):
            raise MachineryError("trace binding is vacuous for the history part: never observed %s%s"
                                 % (need, " / a refused packet sharing head and length with one that passed"
                                    if no_kin_marks else ""))
        for i, (name, _) in enumerate(rec["controls"]):
            if no_kin_marks and i < 2:
                # (a stricter filter, reported as a divergence: the situation these two controls corrupt never arose)
                ctx.note("controls_not_applicable", [n for n, _ in rec["controls"][:2]])
                continue
            ctx.control(name, (i + 1) in rej_o and (i + 1) in rej_e)
    return n_emit, n_tun, n_opened


# ---------------------------------------------------------------------------------------------------------------
def replay_file(ctx, path):
    """Re-run one recorded violation: an enumerated packet (TLC recomputes the expected code) or a trace (the events
    are driven into a fresh network again, packets rebuilt from their logged views, and validated by TLC)."""
    with open(path, encoding="utf-8") as f:
        rep = json.load(f)["replay"]
    if "view" in rep:
        from ipv8.messaging.anonymization.exit_socket import DataChecker, TunnelExitSocket
        pfx = bytes.fromhex(rep["prefix"])
        tmp = scratch_dir("c06r-")
        try:
            params = enum_jobs("quick", (pfx, pfx))[0]
            params.update({"fam": "list", "views": [rep["view"]]})
            _, cases, _ = run_enum_job((0, params, tmp))
        finally:
            shutil.rmtree(tmp, ignore_errors=True)
        d, exp = build(cases[0]["v"]), cases[0]["c"]
        got = sum(bit for bit, fn in ((1, DataChecker.could_be_utp), (2, DataChecker.could_be_udp_tracker),
                                      (4, DataChecker.could_be_dht), (8, DataChecker.could_be_bt),
                                      (16, DataChecker.could_be_ipv8)) if fn(d))
        for k, fs in enumerate(FLAGSETS):
            if TunnelExitSocket(1, None, StubOverlay(flag_ints(fs), pfx)).is_allowed(d):
                got |= 64 << k
        for bit, name in BIT_NAMES:
            if got & ~exp & bit:
                ctx.violation("enum:%s:permissive" % name.split("[")[0], "%s is True for packet %s (len %d) which the specification "
                              "does not put in that class" % (name, d[:24].hex(), len(d)), rep)
        ctx.evaluated(1)
        return
    from ..vloop import VLoop, install, uninstall
    tr = rep["trace"]
    loop = install(VLoop())
    try:
        net = Net(loop, Outside(loop), tuple(tr["flags"]), bytes(tr["prefix"][2:]), bytes(tr["prefix"][1:2]))
        t = TraceRun(net, tr.get("hops", 1))
        for e in tr["events"]:
            if e["k"] == "data":
                t.data(e["src"], e["dk"], tuple(e["dest"]), build(e["p"]))
            elif e["k"] == "tr":
                t.transport_ready()
            elif e["k"] == "flags":
                t.set_flags(tuple(e["fl"]))
            elif e["k"] == "signed":
                t.signed(e["src"], e["kind"])
            elif e["k"] == "res":
                t.resolve(e["i"])
            elif e["k"] == "out":
                t.outside_datagram(e["fam"], build(e["p"]), tuple(e["from"]) if e.get("from") else None)
            else:
                t.close()
        new = t.finish()
        net.stop()
    finally:
        uninstall()
        loop.close()
    ok, inv, _tid, l, r = validate([new], new["qcap"], "obs")
    ctx.add_tlc("replay_obs", r)
    ctx.evaluated(len(new["events"]))
    if not ok:
        ctx.violation("trace:replay", "replayed execution violates the exit policy property at event %s: %s"
                      % (l, describe_event(new, l)), {"trace": new, "event_index": l, "invariant": inv})


def run(tier, seed, replay=None):
    setup_repo_path()
    ctx = Ctx(PID, tier, seed, "model_checking")
    if replay:
        random.seed(seed)
        replay_file(ctx, replay)
        return ctx.finish()
    ctx.cov["rule"] = ("TLC model-checks the exit-socket state machine for all 8 flag sets; TLC enumerates packet families "
                       "(bytes 0,1 exhaustively; tracker words; first x last byte; perturbed own prefix; all lengths "
                       "0..64 and sampled larger) and computes the expected class and policy verdict, compared with "
                       "DataChecker.* and TunnelExitSocket.is_allowed under 8 flag sets; recorded executions of a real "
                       "exit node (1- and 2-hop circuits, recording outside transports) are validated by TLC, incl. "
                       "datagrams from / data towards outside addresses the socket sent allowed packets to, was asked "
                       "to send to, resolved or accepted datagrams from (history model ExitPolicy_hist_*.cfg), "
                       "run-time reconfiguration of the flags while packets wait for DNS / transports, and validly "
                       "signed messages of the previous hop's key delivered from other addresses before the first "
                       "data (model ExitPolicy_reconf_*.cfg), and packets sharing head / length / last byte with packets "
                       "the same socket judged before, outbound and inbound (model ExitPolicy_memo_*.cfg). "
                       "non-trivial = enumerated packets falling in some class + distinct (flags, event kind, source, "
                       "destination kind, socket state, outcome, packet head) situations of the traces + distinct "
                       "(flags, direction, history of the address, socket state, packet head) situations")
    ctx.assumptions += ["the outside world is reached only through loop.create_datagram_endpoint transports and "
                        "loop.getaddrinfo (replaced by recording fakes)",
                        "a domain name that resolves to 0.0.0.0 is outside the property (only the destination field "
                        "0.0.0.0:0 of tunnelled data is the null address)",
                        "safety reading: dropping allowed traffic is never a violation",
                        "the filter on what comes back from outside is the stateless one of the statement: no outside "
                        "address is exempt because of earlier traffic with it",
                        "'the exit node's configured flags' are the flags configured at the moment a packet is handed "
                        "to the outside transport / sent back into the tunnel (settings.peer_flags is writable at run "
                        "time); a packet accepted earlier that is still waiting is judged again",
                        "'the circuit's own previous hop' is the address the circuit was created from; it does not "
                        "move when signed messages of that node's key show up from elsewhere",
                        "every packet is classified by its own bytes: what the socket concluded about earlier packets "
                        "(however similar) has no bearing on the verdict"]
    rng = random.Random(seed)
    random.seed(seed)
    with ThreadPoolExecutor(max_workers=5) as ex:
        fm = ex.submit(model_part_safe, tier)
        rec = trace_record(tier, random.Random(seed + 7919))
        trace_submit(ex, rec)           # TLC validates the recorded traces while the enumeration runs
        enum_part(ctx, tier, rng)
        n_emit, n_tun, n_opened = trace_judge(ctx, rec)
        res = fm.result()
    if isinstance(res, Exception):
        raise res
    controls, models = res
    for name, fired in controls:
        ctx.control(name, fired)
    for tag, r in models:
        ctx.add_tlc(tag, r)
    if not ctx.violations and not (n_emit and n_tun and n_opened):
        raise MachineryError("trace binding is vacuous: emissions=%d, tunnelled back=%d, sockets opened=%d"
                             % (n_emit, n_tun, n_opened))
    ctx.cov["exhaustive"] = True
    return ctx.finish()


def model_part_safe(tier):
    """Model checking runs beside the enumeration (own TLC processes); results are merged by run()."""
    try:
        quick = tier == "quick"
        ctl = [("ExitPolicy_ctl_inbound.cfg", "EmitOnlyAllowed"), ("ExitPolicy_ctl_null.cfg", "NeverToNull"),
               ("ExitPolicy_ctl_opener.cfg", "OpenedOnlyByPrevHop")]
        # an "established flow" exemption from the filter, keyed on what the socket did with the address before
        flows = ["in_after_out", "out_after_in"] if quick else ["in_after_out", "in_after_ask", "in_after_in",
                                                                 "out_after_out", "out_after_in"]
        ctl += [("ExitPolicy_ctl_flow_%s.cfg" % f, "EmitOnlyAllowed") for f in flows]
        # a verdict taken when the packet arrived survives a reconfiguration; the opener check follows the address the
        # previous hop's key was last seen at
        ctl += [("ExitPolicy_ctl_stale_dns.cfg", "EmitOnlyAllowed"), ("ExitPolicy_ctl_stale_queue.cfg", "EmitOnlyAllowed"),
                ("ExitPolicy_ctl_hopfollows.cfg", "OpenedOnlyByPrevHop")]
        # the classes / the verdict of an earlier packet with the same key are re-used
        ctl += [("ExitPolicy_ctl_memo_head_len.cfg", "EmitOnlyAllowed"), ("ExitPolicy_ctl_memo_first2.cfg", "VerdictByOwnShape"),
                ("ExitPolicy_ctl_memo_packet.cfg", "EmitOnlyAllowed")]
        mods = ([("model", "ExitPolicy_quick.cfg"), ("model_history", "ExitPolicy_hist_quick.cfg"),
                 ("model_reconf", "ExitPolicy_reconf_quick.cfg"), ("model_memo", "ExitPolicy_memo_quick.cfg")] if quick else
                [("model_all_classes", "ExitPolicy_thorough.cfg"), ("model_deep", "ExitPolicy_deep.cfg"),
                 ("model_history", "ExitPolicy_hist_thorough.cfg"), ("model_reconf", "ExitPolicy_reconf_thorough.cfg"),
                 ("model_memo", "ExitPolicy_memo_thorough.cfg")])
        with ThreadPoolExecutor(max_workers=4 if quick else 3) as ex:     # (thorough models are memory hungry)
            fmods = [(tag, cfg, ex.submit(run_tlc, "ExitPolicy.tla", cfg, timeout=3000)) for tag, cfg in mods]
            fctl = [(cfg, inv, ex.submit(run_tlc, "ExitPolicy.tla", cfg, coverage=False, workers=2)) for cfg, inv in ctl]
            controls = [("spec with deviation %s violates %s" % (cfg[len("ExitPolicy_ctl_"):-4], inv),
                         f.result().violated == inv) for cfg, inv, f in fctl]
            models = []
            for tag, cfg, f in fmods:
                r = f.result()
                if not r.ok:
                    raise MachineryError("ExitPolicy %s: TLC reports %s on the specification itself" % (cfg, r.violated))
                acts = ("DataFromTunnel", "TransportReady", "ResolveDone", "OutsideDatagram", "Close")
                for act in acts + (("SetFlags", "SignedMessage") if tag == "model_reconf" else ()) + \
                        (("SetFlags",) if tag == "model_memo" else ()):
                    if r.coverage.get(act, (0, 0))[1] == 0:
                        raise MachineryError("ExitPolicy.tla: action %s is never taken (vacuous model)" % act)
                models.append((tag, r))
        return controls, models
    except Exception as e:  # noqa: BLE001
        return e
