"""C15 - DHT store authorisation / authenticity / expiry.

specs/DhtStore.tla is model checked by TLC (six focused configurations + one large one) and bound to the real
DHTCommunity / DHTDiscoveryCommunity code in three ways:
 R  every transition of the dumped state graphs (edge cover) and seeded `-simulate` behaviours of the large configuration
    are executed on a real node on harness/simnet.py: requests are real signed datagrams (ezr_pack) injected from chosen
    source addresses, maintenance runs are the real token_maintenance / value_maintenance, the clock is virtual; after
    every action Storage.items / token window / DHTDiscoveryCommunity.store are compared with the TLC state.
    DhtStore_stale: versions x lifetimes x maintenance (the version gate on entries past their lifetime, not yet cleaned).
    DhtStore_window: a 150 s clock, token age judged in seconds (Validity) and rotation done by the node's OWN
    token_maintenance periodic task, which is left running: the driver only moves the clock and lets due timers fire;
    "a maintenance run is due" is part of the compared projection.
 T  a network of real nodes with their real periodic tasks runs honest store_value / find_values traffic and attacker
    datagrams under the virtual clock; what one node received and how its storage changed is logged and validated by
    TLC against specs/DhtStoreTrace.tla.
 E  specs/DhtLookup.tla enumerates the value lists a lookup can receive and computes what may be reported;
    post_process_values (and find_values over the wire) is compared with it.
"""
from __future__ import annotations

import hashlib
import json
import os
import random
import shutil
import re
import struct
from collections import deque
from concurrent.futures import ThreadPoolExecutor

from .. import vloop
from ..common import Ctx, setup_repo_path
from ..tlc import FrozenDict, MachineryError, parse_dot, parse_label, parse_simulate_file, run_tlc, scratch_dir, SPECS

PID = "C15"
UNIT = 1800.0            # seconds per clock unit of the model-checking configurations (Base = 2 units = MAX_ENTRY_AGE)
BASE = 3600              # MAX_ENTRY_AGE (protocol constant, s)
MAX_SIZE = 170           # MAX_ENTRY_SIZE
T0 = vloop.EPOCH
# configurations whose clock is finer than a lifetime unit: seconds per clock unit, and the period (in units) of the real
# token_maintenance timer that such a replay leaves running (RotatePeriod of the cfg)
TIMED = {"DhtStore_window.cfg": {"unit": 150.0, "period": 2}}
ACTIONS = ("FindRequest", "RotateSecrets", "StoreRequest", "LocalStore", "Clean", "Tick", "Discover", "StorePeerRequest")


def _ids():
    from ipv8.dht.payload import (FindRequestPayload, FindResponsePayload, StorePeerRequestPayload,
                                  StorePeerResponsePayload, StoreRequestPayload, StoreResponsePayload)
    return (FindRequestPayload, FindResponsePayload, StoreRequestPayload, StoreResponsePayload,
            StorePeerRequestPayload, StorePeerResponsePayload)


def crc_prefix(ip):
    """first three bytes of the node id of a host (routing.calc_node_id, IPv4), written independently"""
    import binascii
    import socket
    b = socket.inet_aton(ip)
    masked = bytes(x & m for x, m in zip(b, b"\x03\x0f\x3f\xff"))
    return struct.pack(">I", binascii.crc32(masked) % (2 ** 32))[:3]


def xor_int(a, b):
    return int.from_bytes(a, "big") ^ int.from_bytes(b, "big")


class Material:
    """Keys, addresses, the storage key, the value blobs and the packet builders; shared by all replays of one run."""

    def __init__(self, seed):
        from ipv8.dht.community import DHTCommunity
        from ipv8.keyvault.crypto import default_eccrypto as ec
        from ipv8.messaging.interfaces.udp.endpoint import UDPv4Address
        from ..simnet import SimNet
        from .. import nodes
        self.ec = ec
        self.A = UDPv4Address
        rng = random.Random("c15-keys-%d" % seed)

        def key():
            return ec.key_from_private_bin(b"LibNaCLSK:" + rng.randbytes(64))
        self.server_key, self.other_key, self.evil_key = key(), key(), key()
        self.rk = {"K1": key(), "K2": key(), "K3": key()}          # requester keys
        self.sk = {"S1": key(), "S2": key(), "S3": key()}          # value signers
        self.pk = {n: k.pub().key_to_bin() for n, k in self.sk.items()}
        self.signer_of = {v: n for n, v in self.pk.items()}
        self.target = hashlib.sha1(self.pk["S1"]).digest()         # the key hash of S1 IS the storage key
        self.mid = {n: hashlib.sha1(k.pub().key_to_bin()).digest() for n, k in self.rk.items()}
        self.key_of_mid = {v: n for n, v in self.mid.items()}
        # geometry: the observed node is the far-side host nearest to the key (first id bit differs from the key's), so
        # every other far-side host (requesters, second node, clients) is farther from the key than it, and every
        # near-side host (fillers, near nodes) is closer
        tbit = self.target[0] >> 7
        far, near = [], []
        for i in range(1, 4000):
            ip = "80.%d.%d.%d" % (10 + i // 60000, i // 250 % 250, 1 + i % 250)
            (near if crc_prefix(ip)[0] >> 7 == tbit else far).append(ip)
        far.sort(key=lambda ip: xor_int(crc_prefix(ip), self.target[:3]))
        far = [ip for j, ip in enumerate(far) if j == 0 or crc_prefix(ip) != crc_prefix(far[0])][:40]
        self.server_addr = UDPv4Address(far[0], 8090)
        self.other_addr = UDPv4Address(far[1], 8090)
        self.addr = {"A1": UDPv4Address(far[2], 7001), "A2": UDPv4Address(far[3], 7002), "A3": UDPv4Address(far[4], 7003)}
        # aliases of A1 / A2: same host another port ("p"), and a host whose IP differs only in bits that the node id
        # ignores ("m": calc_node_id masks the IP with 03.0f.3f.ff and drops the port) - same key, same node id, but a
        # different requester address: a token handed to A1 must not be honoured from A1p or A1m
        for n in ("A1", "A2"):
            ip, port = self.addr[n]
            first, rest = ip.split(".", 1)
            alias_ip = "%d.%s" % (int(first) ^ 0x40, rest)
            if crc_prefix(alias_ip) != crc_prefix(ip) or alias_ip == ip:
                raise MachineryError("alias address does not collide in the node id")
            self.addr[n + "p"] = UDPv4Address(ip, port + 100)
            self.addr[n + "m"] = UDPv4Address(alias_ip, port)
        self.name_of_addr = {v: n for n, v in self.addr.items()}
        self.far_ips, self.near_ips = far[5:], near
        self.fillers = [(key().pub().key_to_bin(), UDPv4Address(near[j], 9000 + j)) for j in range(9)]
        # packet builders: one real overlay per requester key (only its ezr_pack / serializer are used)
        self.toolnet = SimNet(vloop_loop(), auto=False)
        self.tools = {}
        for n, k in self.rk.items():
            node = nodes.Node(self.toolnet, key=k)
            ov = node.add(DHTCommunity)
            ov.cancel_all_pending_tasks()
            self.tools[n] = ov
        self.ser = self.tools["K1"].serializer
        self.blobs = {}
        self.sym = {}
        self.ident = 0
        self.foreign = {}

    # ---- values -----------------------------------------------------------------------------------------------
    def signed_blob(self, signer, version, data, sign_with=None):
        pk = self.pk[signer]
        body = b"\x01" + struct.pack(">H", len(data)) + data + struct.pack(">I", version) + struct.pack(">H", len(pk)) + pk
        return body + self.ec.create_signature(sign_with or self.sk[signer], body)

    def blob(self, v):
        """symbolic value (record of DhtStore.tla) -> serialized DHT value, built from the wire format, not by the code"""
        key = (v["s"], v["ver"], v["d"], v["ok"], v["sz"])
        if key in self.blobs:
            return self.blobs[key]
        s, ver, d, ok, sz = key
        if s == "none":
            data = ("unsigned-%s" % d).encode()
            if sz != "small":
                data = data.ljust(MAX_SIZE - 1 + (sz == "over"), b".")
            b = b"\x00" + data
        else:
            data = ("%s-v%d-%s" % (s, ver, d)).encode()
            if sz != "small":
                overhead = len(self.signed_blob(s, ver, b""))
                data = data.ljust(MAX_SIZE - overhead + (sz == "over"), b".")
            if ok:
                b = self.signed_blob(s, ver, data)
            elif ver % 2 == 0:
                b = self.signed_blob(s, ver, data, sign_with=self.evil_key)       # signed by somebody else
            else:
                good = bytearray(self.signed_blob(s, ver, data))                  # altered after signing
                good[3 + len(data) - 1] ^= 0x01
                b = bytes(good)
        if sz == "max" and len(b) != MAX_SIZE or sz == "over" and len(b) != MAX_SIZE + 1 or sz == "small" and len(b) > MAX_SIZE:
            raise MachineryError("value builder produced %d bytes for %r" % (len(b), key))
        self.blobs[key] = b
        self.sym[b] = key
        return b

    def describe(self, blob, raw=False):
        """serialized value -> symbolic record, decoded and verified independently of the code under test"""
        if blob in self.sym and not raw:
            s, ver, d, ok, sz = self.sym[blob]
            return {"s": s, "ver": ver, "d": d, "ok": ok, "sz": sz}
        sz = "small" if len(blob) < MAX_SIZE else ("max" if len(blob) == MAX_SIZE else "over")
        if blob[:1] == b"\x00":
            return {"s": "none", "ver": 0, "d": blob[1:].hex(), "ok": True, "sz": sz}
        if blob[:1] == b"\x01":
            try:
                n, = struct.unpack_from(">H", blob, 1)
                data = blob[3:3 + n]
                ver, m = struct.unpack_from(">IH", blob, 3 + n)
                pk = blob[9 + n:9 + n + m]
                sig = blob[9 + n + m:]
                ok = len(sig) == 64 and self.ec.is_valid_signature(self.ec.key_from_public_bin(pk), blob[:9 + n + m], sig)
                return {"s": self.signer_of.get(pk, "pk:" + hashlib.sha1(pk).hexdigest()[:8]), "ver": ver, "d": data.hex(),
                        "ok": bool(ok), "sz": sz}
            except Exception:  # noqa: BLE001
                pass
        return {"s": "garbage", "ver": 0, "d": blob.hex()[:16], "ok": False, "sz": sz}

    def data_name(self, data):
        """payload bytes of a built value -> the `d` of its symbolic record"""
        t = data.decode("latin1")
        if t.startswith("unsigned-"):
            return t[len("unsigned-"):].rstrip(".")
        return t.rstrip(".").split("-")[-1]

    # ---- datagrams --------------------------------------------------------------------------------------------
    def next_ident(self):
        self.ident = (self.ident + 1) % 2 ** 31
        return self.ident

    def find_packet(self, k, a, target=None):
        F = _ids()[0]
        return self.tools[k].ezr_pack(F.msg_id, F(self.next_ident(), self.addr[a], target or self.target, 0, False))

    def store_packet(self, k, token, blobs, target=None):
        S = _ids()[2]
        return self.tools[k].ezr_pack(S.msg_id, S(self.next_ident(), token, target or self.target, list(blobs)))

    def store_peer_packet(self, k, token, target):
        S = _ids()[4]
        return self.tools[k].ezr_pack(S.msg_id, S(self.next_ident(), token, target))

    def decode(self, data, cls):
        from ipv8.messaging.payload_headers import BinMemberAuthenticationPayload
        auth, off = self.ser.unpack_serializable(BinMemberAuthenticationPayload, data, offset=23)
        payload, _ = self.ser.unpack_serializable(cls, data, offset=off)
        return auth, payload


_LOOP = None


def vloop_loop():
    global _LOOP
    if _LOOP is None:
        _LOOP = vloop.install(vloop.VLoop())
    return _LOOP


class Server:
    """One real DHT node (fresh per replay) with seven known nodes that are closer to the storage key than itself."""

    def __init__(self, m, cls, periodic=False, key=None, addr=None, net=None, fillers=7, keep_tasks=()):
        from ipv8.dht.routing import Node as DhtNode
        from ..simnet import SimNet
        from .. import nodes
        self.m = m
        self.loop = vloop_loop()
        self.net = net or SimNet(self.loop, auto=False)
        addr = addr or m.server_addr
        self.node = nodes.Node(self.net, key=key or m.server_key, ip=addr[0], port=addr[1])
        self.ov = self.node.add(cls)
        if not periodic and not keep_tasks:
            self.ov.cancel_all_pending_tasks()       # maintenance runs are driven as explicit actions
        elif keep_tasks:
            # timed replays: the named periodic tasks stay what the node registered (their timers are the subject)
            for name in list(self.ov._pending_tasks):
                if name not in keep_tasks:
                    self.ov.cancel_pending_task(name)
            if sorted(n for n in self.ov._pending_tasks if isinstance(n, str)) != sorted(keep_tasks):
                raise MachineryError("node did not register the periodic tasks %r" % (keep_tasks,))
        self.DhtNode = DhtNode
        self.known_fillers = 0
        if fillers:
            rt = self.ov.get_routing_table(DhtNode(*m.fillers[0]))
            for pk, addr_ in m.fillers[:fillers]:
                if rt.add(DhtNode(pk, addr_)) is None:
                    raise MachineryError("could not place a filler node in the routing table")
            self.known_fillers = fillers
        self.tokens = {}

    def close(self):
        self.ov.cancel_all_pending_tasks()
        self.ov.request_cache.cancel_all_pending_tasks()
        self.ov.endpoint.close()

    # -- what the spec calls `closer`: the nodes the routing table offers as closest to the key (k-closest selection is
    #    property C14's business) that are nearer to the key than this node, counted with our own XOR arithmetic
    def closer(self, target=None):
        target = target or self.m.target
        n = 0
        for rt in self.ov.routing_tables.values():
            mine = xor_int(rt.my_node_id, target)
            for node in rt.closest_nodes(target, max_nodes=20):
                if xor_int(crc_prefix(node.address[0]) + node.mid[:17], target) < mine:
                    n += 1
        return n

    def send(self, src, packet):
        """inject one datagram; returns the datagrams the node sent in reaction"""
        before = len(self.net.inflight)
        dg = self.net.inject(src, self.node.address, packet)
        if not self.net.deliver(dg):
            raise MachineryError("injected datagram was not delivered: %s" % dg.fate)
        out = list(self.net.inflight)[before:]
        for _ in out:
            self.net.inflight.pop()
        return out

    def answers(self, out, src, cls):
        res = []
        for dg in out:
            if dg.dst == (src[0], src[1]) and dg.data[22] == cls.msg_id:
                res.append(self.m.decode(dg.data, cls)[1])
        return res

    # -- projection (the same function for replay and for trace recording)
    def project(self, unit=UNIT, target=None):
        target = target or self.m.target
        ov = self.ov
        entries = []
        problems = []
        for st in ov.storages.values():
            for key, vals in st.items.items():
                if key != target:
                    if vals and target == self.m.target and unit != MS:
                        problems.append("values stored under a key nobody asked for")
                    continue
                for v in vals:
                    d = self.m.describe(v.data)
                    exp = (v.last_update + v.max_age - T0) / unit
                    if abs(exp - round(exp)) > 1e-6:
                        problems.append("expiry of a stored value is not on the clock grid: %r" % exp)
                    exp_id = hashlib.sha1(v.data).digest() if d["s"] == "none" else None
                    if d["s"] in self.m.pk:
                        exp_id = hashlib.sha1(self.m.pk[d["s"]]).digest()
                    if exp_id is not None and v.id != exp_id:
                        problems.append("stored value carries a foreign id")
                    if v.version != d["ver"]:
                        problems.append("stored version %r differs from the signed version %r" % (v.version, d["ver"]))
                    entries.append((tuple(sorted(d.items())), int(round(exp))))
        peers = set()
        for tgt, lst in getattr(ov, "store", {}).items():
            for n in lst:
                peers.add((self.m.key_of_mid.get(tgt, tgt.hex()), self.m.key_of_mid.get(n.mid, n.mid.hex())))
        return {"storage": sorted(entries), "dups": len(entries) != len(set(entries)), "nsecrets": len(ov.token_secrets),
                "peers": sorted(peers), "problems": problems}


def spec_projection(st):
    entries = sorted((tuple(sorted(e["v"].items())), e["exp"]) for e in st["storage"])
    peers = sorted((p["t"], p["k"]) for p in st["peers"])
    return {"storage": entries, "dups": False, "nsecrets": len(st["secrets"]), "peers": peers, "problems": []}


def diff(spec, impl):
    return {k: {"spec": spec[k], "impl": impl[k]} for k in spec if spec[k] != impl[k]}


class Replayer:
    """Executes labelled spec actions on a fresh real node and compares after every action."""

    def __init__(self, ctx, m, cls, tag, unit=UNIT, period=0):
        self.ctx, self.m, self.cls, self.tag = ctx, m, cls, tag
        self.unit, self.period = unit, period        # period > 0: the node's own token_maintenance timer rotates
        self.ops = 0
        self.stray = set()

    # -- timed replays: the driver moves the clock, the node's timer does the rotation
    def timers_due(self, loop):
        return [h for h in loop._scheduled if not h._cancelled and id(h) not in self.stray and h._when <= loop._vt + 1e-9]

    def run_due(self, loop):
        """let the loop run what is due now (timers that have expired, ready callbacks); the clock must not move"""
        import asyncio
        at = loop._vt

        async def nop():
            await asyncio.sleep(0)
        for _ in range(3):
            loop.run_until_complete(nop())
            loop.settle()
            if not self.timers_due(loop):
                break
        if loop._vt != at:
            raise MachineryError("the virtual clock moved while due timers ran")

    def foreign_token(self, a, k):
        """a token another real node handed to the same requester"""
        key = (a, k)
        if key not in self.m.foreign:
            from ipv8.dht.community import DHTCommunity
            other = Server(self.m, DHTCommunity, key=self.m.other_key, addr=self.m.other_addr, fillers=0)
            out = other.send(self.m.addr[a], self.m.find_packet(k, a))
            ans = other.answers(out, self.m.addr[a], _ids()[1])
            other.close()
            if len(ans) != 1:
                raise MachineryError("the second node did not answer a find request")
            self.m.foreign[key] = ans[0].token
        return self.m.foreign[key]

    def token_bytes(self, srv, tok):
        if tok["kind"] == "own":
            t = srv.tokens.get((tok["a"], tok["k"], tok["ep"]))
            if t is None:
                raise MachineryError("replay presents a token that was never handed out: %r" % (tok,))
            return t
        if tok["kind"] == "foreign":
            return self.foreign_token(tok["a"], tok["k"])
        return b"\x5a" * 20

    def apply(self, srv, name, args, before, sabotage=None):
        """-> list of side observations that contradict the spec state `before` (responses)"""
        m, ov, loop = self.m, srv.ov, srv.loop
        F, FR, S, SR, P, PR = _ids()
        notes = []
        if name == "FindRequest":
            a, k = args
            out = srv.send(m.addr[a], m.find_packet(k, a))
            ans = srv.answers(out, m.addr[a], FR)
            if len(ans) != 1:
                raise MachineryError("no find-response for a paced find-request (%d)" % len(ans))
            srv.tokens[(a, k, before["secrets"][-1])] = ans[0].token
            got = sorted(tuple(sorted(m.describe(b).items())) for b in ans[0].values)
            want = sorted(tuple(sorted(e["v"].items())) for e in before["storage"])
            if len(want) <= 8 and got != want or len(want) > 8 and not (len(got) == 8 and set(got) <= set(want)):
                notes.append({"find_response_values": got, "stored_per_spec": want})
        elif name == "StoreRequest":
            a, k, tok, batch = args
            token = self.token_bytes(srv, tok)
            if sabotage == "expired-yield":
                for st_ in ov.storages.values():      # a node whose version gate ignores entries past their lifetime
                    st_.clean()
            if sabotage != "lose-request":
                srv.send(m.addr[a], m.store_packet(k, token, [m.blob(v) for v in batch]))
        elif name == "StorePeerRequest":
            a, k, tok, t = args
            srv.send(m.addr[a], m.store_peer_packet(k, self.token_bytes(srv, tok), m.mid[t]))
        elif name == "RotateSecrets":
            if self.period:
                if sabotage != "skip-rotation":
                    self.run_due(loop)                # the node's periodic task, if its timer has expired
            else:
                ov.token_maintenance()
        elif name == "Clean":
            if sabotage != "skip-clean":
                ov.value_maintenance()
        elif name == "Tick":
            loop._vt = T0 + (before["clock"] + 1) * self.unit
        elif name == "Discover":
            pk, addr = m.fillers[srv.known_fillers]
            srv.known_fillers += 1
            ov.on_node_discovered(pk, addr)
            srv.net.inflight.clear()
            if srv.closer() != before["closer"] + 1:
                raise MachineryError("harness geometry: %d closer nodes, spec %d" % (srv.closer(), before["closer"] + 1))
        elif name == "LocalStore":
            from ipv8.dht import DHTError
            v, = args
            far = srv.DhtNode(m.fillers[8][0], m.A(m.far_ips[0], 9100))
            try:
                loop.run_until_complete(ov.store_on_nodes(m.target, [m.blob(v)], [far]))
            except DHTError:
                pass                                  # no token for the remote node: only the local copy is made
            srv.net.inflight.clear()
        else:
            raise MachineryError("unknown action " + name)
        self.ops += 1
        return notes

    def run(self, steps, sabotage_at=None, sabotage=None):
        """steps: [(name, args, state_before, state_after)] starting in the initial state.
        -> None or (index, label, diff)"""
        from ipv8.dht import routing
        loop = vloop_loop()
        loop._vt = T0
        if self.period:
            loop.settle()
            self.stray = {id(h) for h in loop._scheduled if not h._cancelled}     # left-overs of earlier replays (none expected)
        srv = Server(self.m, self.cls, keep_tasks=("token_maintenance",) if self.period else (),
                     fillers=steps[0][2]["closer"])
        keep, routing.NODE_LIMIT_INTERVAL = routing.NODE_LIMIT_INTERVAL, 0     # requests count as paced (see assumptions)
        try:
            if self.period:
                self.run_due(loop)                    # the periodic task starts its first sleep at T0
            if srv.closer() != steps[0][2]["closer"]:
                raise MachineryError("harness geometry: %d closer nodes at start" % srv.closer())
            for i, (name, args, before, after) in enumerate(steps):
                notes = self.apply(srv, name, args, before, sabotage if i == sabotage_at else None)
                p = srv.project(unit=self.unit)
                sp = spec_projection(after)
                if self.period:
                    # is a maintenance run of the real node due exactly when the specification says one is?
                    p["rot_due"] = bool(self.timers_due(loop))
                    sp["rot_due"] = after["clock"] - after["lastRot"] >= self.period
                d = diff(sp, p)
                if notes:
                    d["find_response"] = notes[0]
                if name in ("StoreRequest", "Discover", "FindRequest") and srv.closer() != after["closer"]:
                    raise MachineryError("requester landed on the near side of the key")
                if d:
                    return i, name, d
            return None
        finally:
            routing.NODE_LIMIT_INTERVAL = keep
            srv.close()
            if self.period:
                loop.settle()                         # cancelled tasks take their timers with them


def label(name, args):
    def short(x):
        if isinstance(x, dict):
            if "kind" in x:
                return "%s-token(%s,%s,ep%d)" % (x["kind"], x["a"], x["k"], x["ep"])
            return "%s/v%d/%s%s%s" % (x["s"], x["ver"], x["d"], "" if x["ok"] else "/forged", "" if x["sz"] == "small" else "/" + x["sz"])
        if isinstance(x, tuple):
            return "[" + ",".join(short(y) for y in x) + "]"
        return str(x)
    return "%s(%s)" % (name, ", ".join(short(a) for a in args))


def signature_of(name, args, d):
    """stable identifier of a divergence: action, its outcome class and the diverging projection keys"""
    extra = ""
    if name == "StoreRequest":
        extra = ":" + args[2]["kind"]
    return "replay:%s%s:%s" % (name, extra, ",".join(sorted(d)))




from ..tlc import _unescape  # noqa: E402


class LazyEdges:
    """edge list of a dumped graph whose action arguments are parsed only when an edge is actually replayed"""

    def __init__(self):
        self.src, self.dst, self.raw, self.parsed = [], [], [], []

    def __len__(self):
        return len(self.src)

    def __getitem__(self, i):
        if self.parsed[i] is None:
            name, args = parse_label(_unescape(self.raw[i]))
            self.parsed[i] = (self.src[i], name, args, self.dst[i])
        return self.parsed[i]

    def name(self, i):
        return self.raw[i].split("(", 1)[0].strip()


def parse_dot_lazy(path):
    """harness.tlc.parse_dot with lazily parsed edge labels (a quick run replays a sample of the edges only)"""
    from ..tlc import _RE_EDGE, _RE_NODE, Graph, _unescape, parse_state
    g = Graph()
    with open(path, encoding="utf-8") as f:
        text = f.read()
    for mt in _RE_NODE.finditer(text):
        sid = int(mt.group(1))
        if sid not in g.states:
            g.states[sid] = parse_state(_unescape(mt.group(2)))
            if mt.group(3):
                g.init.append(sid)
    g.edges = LazyEdges()
    seen = set()
    for mt in _RE_EDGE.finditer(text):
        key = (mt.group(1), mt.group(2), mt.group(3))
        if key in seen:
            continue
        seen.add(key)
        g.edges.src.append(int(mt.group(1)))
        g.edges.dst.append(int(mt.group(2)))
        g.edges.raw.append(mt.group(3))
        g.edges.parsed.append(None)
    for i, s_ in enumerate(g.edges.src):
        g.out.setdefault(s_, []).append(i)
    return g


def cover(g, seed, max_ops=None, max_len=300):
    """Edge cover by long walks: take an unvisited edge of the current state if there is one, otherwise move along
    the shortest path to the nearest state that still has one; start a new walk (fresh node) from the initial state when
    none is reachable (the clock only moves forward) or the walk got long.  With a budget (`max_ops`) the unvisited edges
    are taken in seeded random order, so the sample is spread over the whole graph."""
    rng = random.Random(seed)
    unvisited = {s: list(g.out.get(s, ())) for s in g.states}
    for lst in unvisited.values():
        rng.shuffle(lst)
    remaining = sum(len(v) for v in unvisited.values())
    init = g.init[0]
    ops = 0
    esrc, edst = (g.edges.src, g.edges.dst) if isinstance(g.edges, LazyEdges) else ([e[0] for e in g.edges], [e[3] for e in g.edges])
    succ = {}
    for s_ in g.states:
        first = {}
        for ei in g.out.get(s_, ()):
            d = edst[ei]
            if d != s_ and d not in first:
                first[d] = ei
        succ[s_] = list(first.items())

    def nearest(src):
        seen = {src: None}
        dq = deque([src])
        while dq:
            s = dq.popleft()
            if unvisited[s]:
                path = []
                while seen[s] is not None:
                    path.append(seen[s])
                    s = esrc[seen[s]]
                path.reverse()
                return path
            for d, ei in succ[s]:
                if d not in seen:
                    seen[d] = ei
                    dq.append(d)
        return None
    cur, walk = init, []
    while remaining:
        if unvisited[cur] and len(walk) < max_len:
            e = unvisited[cur].pop()
            remaining -= 1
            walk.append(e)
            cur = edst[e]
            continue
        path = nearest(cur) if len(walk) < max_len else None
        if path is None:
            if not walk:
                raise MachineryError("edge cover: unreachable edges")
            ops += len(walk)
            yield init, walk
            if max_ops is not None and ops >= max_ops:
                return
            cur, walk = init, []
            continue
        walk.extend(path)
        cur = edst[path[-1]]
    if walk:
        yield init, walk


def tlc(*a, **k):
    """run_tlc, timed with the real clock (time.time is virtual while this driver runs)"""
    t = vloop._REAL_TIME()
    r = run_tlc(*a, **k)
    r.wall = vloop._REAL_TIME() - t
    return r


def finish(ctx):
    vloop.uninstall()
    return ctx.finish()


def cfg_variant(tmp, cfgname, **over):
    """copy of a specs/*.cfg with constants overridden (calibration, negative controls)"""
    with open(os.path.join(SPECS, cfgname), encoding="utf-8") as f:
        text = f.read()
    import re
    for k, v in over.items():
        text, n = re.subn(r"\b%s = \S+" % k, "%s = %s" % (k, v), text)
        if n != 1:
            raise MachineryError("constant %s not found in %s" % (k, cfgname))
    path = os.path.join(tmp, cfgname.replace(".cfg", "_" + "_".join("%s%s" % kv for kv in over.items()) + ".cfg"))
    with open(path, "w", encoding="utf-8") as f:
        f.write(text)
    return path


def check_coverage(r, cfgname, expect):
    missing = [a for a in expect if r.coverage.get(a, (0, 0))[1] == 0]
    if missing:
        raise MachineryError("vacuous model %s: actions never taken: %s" % (cfgname, missing))


def shortest_steps(g, ei):
    """the shortest behaviour from the initial state that ends with edge ei"""
    src, dst = g.edges.src, g.edges.dst
    parent = {g.init[0]: None}
    dq = deque([g.init[0]])
    while dq:
        s = dq.popleft()
        for e in g.out.get(s, ()):
            if dst[e] not in parent:
                parent[dst[e]] = e
                dq.append(dst[e])
    walk, s = [ei], src[ei]
    while parent[s] is not None:
        walk.append(parent[s])
        s = src[parent[s]]
    walk.reverse()
    return [(g.edges[e][1], g.edges[e][2], g.states[g.edges[e][0]], g.states[g.edges[e][3]]) for e in walk]


def report(ctx, cls, cfgname, steps, bad):
    i, name, d = bad
    labels = [label(n, a) for n, a, _b, _a in steps[:i + 1]]
    hint = ""
    if "rot_due" in d:
        at = steps[i][3]["clock"] * TIMED.get(cfgname, {}).get("unit", UNIT)
        hint = " (%d s after start-up, %d s after the last token_maintenance run: the node's maintenance timer is %s; " \
               "a secret must leave the window within TOKEN_EXPIRATION_TIME of the tokens made with it)" % (
                   at, at - steps[i][3]["lastRot"] * TIMED.get(cfgname, {}).get("unit", UNIT),
                   "due although none is scheduled by the specification" if d["rot_due"]["impl"] else "not due")
    ctx.violation(signature_of(name, steps[i][1], d),
                  "real %s diverges from DhtStore.tla after %s: %s%s" % (cls.__name__, labels[-1], d, hint),
                  {"cfg": cfgname, "overlay": cls.__name__, "actions": labels,
                   "steps": [[n, a] for n, a, _b, _a in steps[:i + 1]], "diff": d})


def replayer_for(ctx, m, cls, cfgname, tag):
    t = TIMED.get(os.path.basename(cfgname), {})
    return Replayer(ctx, m, cls, tag, unit=t.get("unit", UNIT), period=t.get("period", 0))


def replay_graph(ctx, m, g, cfgname, cls, max_ops):
    tag = cfgname[len("DhtStore_"):-4]
    rp = replayer_for(ctx, m, cls, cfgname, tag)
    covered = set()
    nwalks = 0
    for _init, walk in cover(g, ctx.seed, max_ops):
        steps = [(g.edges[e][1], g.edges[e][2], g.states[g.edges[e][0]], g.states[g.edges[e][3]]) for e in walk]
        bad = rp.run(steps)
        nwalks += 1
        for e in (walk if not bad else walk[:bad[0]]):
            if e not in covered:
                covered.add(e)
                if g.edges[e][0] != g.edges[e][3] or g.edges[e][1] in ("StoreRequest", "StorePeerRequest"):
                    ctx.nontrivial((tag, g.edges[e][0], g.edges[e][1], repr(g.edges[e][2])))
        if nwalks <= 1:
            ctx.sample({"cfg": cfgname, "actions": [label(n, a) for n, a, _b, _a in steps][:12]})
        if bad:
            # report the shortest behaviour that shows the same divergence, if it does
            short = shortest_steps(g, walk[bad[0]])
            sbad = rp.run(short) if len(short) < bad[0] + 1 else None
            if sbad and sbad[0] == len(short) - 1:
                report(ctx, cls, cfgname, short, sbad)
            else:
                report(ctx, cls, cfgname, steps, bad)
            if len(ctx.violations) >= 3:
                break
    ctx.evaluated(rp.ops)
    ctx.traces(nwalks)
    ctx.note("replay_" + tag, {"overlay": cls.__name__, "walks": nwalks, "real_operations": rp.ops,
                               "graph_states": len(g.states), "graph_edges": len(g.edges), "edges_covered": len(covered),
                               "complete_edge_cover": len(covered) == len(g.edges)})


def replay_simulated(ctx, m, tmp, cls, num, depth, eq):
    """seeded random behaviours of the large configuration (TLC -simulate), replayed as they are"""
    cfg = "DhtStore_big.cfg" if eq else cfg_variant(tmp, "DhtStore_big.cfg", EqReplaces="FALSE")
    prefix = os.path.join(tmp, "sim")
    r = tlc("DhtStore.tla", cfg, simulate="file=%s,num=%d" % (prefix, num), depth=depth, seed=ctx.seed + 1,
            workers=1, coverage=False)
    if not r.ok:
        raise MachineryError("DhtStore_big (simulate): TLC reports %s" % r.violated)
    rp = Replayer(ctx, m, cls, "sim")
    n = 0
    seen_actions = set()
    for f in sorted(os.listdir(tmp)):
        if not f.startswith("sim_"):
            continue
        beh = parse_simulate_file(os.path.join(tmp, f))
        os.unlink(os.path.join(tmp, f))
        steps = [(beh[i][0], beh[i][1], beh[i - 1][2], beh[i][2]) for i in range(1, len(beh))]
        if not steps:
            continue
        seen_actions.update(s_[0] for s_ in steps)
        bad = rp.run(steps)
        n += 1
        ctx.nontrivial(("sim", tuple((s_[0], repr(s_[1])) for s_ in steps)))
        if bad:
            i, name, d = bad
            labels = [label(a, b) for a, b, _c, _d in steps[:i + 1]]
            ctx.violation(signature_of(name, steps[i][1], d),
                          "real %s diverges from DhtStore.tla after %s: %s" % (cls.__name__, labels[-1], d),
                          {"cfg": "DhtStore_big.cfg (simulate)", "overlay": cls.__name__, "actions": labels,
                           "steps": [[a, b] for a, b, _c, _d in steps[:i + 1]], "diff": d})
            if len(ctx.violations) >= 3:
                break
    ctx.evaluated(rp.ops)
    ctx.traces(n)
    ctx.note("replay_simulated", {"behaviours": n, "real_operations": rp.ops, "depth": depth,
                                  "actions_seen": sorted(seen_actions)})


# ---------------------------------------------------------------------------------------------------------------
# binding E: what a lookup may report (specs/DhtLookup.tla)
# ---------------------------------------------------------------------------------------------------------------
def check_lookup(ctx, m, g, tag):
    ov = m.tools["K1"]
    n = 0
    for st in g.states.values():
        seen = st["seen"]
        blobs = [m.blob(v) for v in seen]
        res = ov.post_process_values(blobs)
        problems = lookup_problems(m, st, res)
        n += 1
        if len(seen) >= 2:
            ctx.nontrivial(("lookup", seen))
        if problems:
            ctx.violation("lookup:" + problems[0].split(":")[0], "post_process_values(%s) = %s: %s" % (
                [label("", (v,))[1:-1] for v in seen], [(d, m.signer_of.get(pk, pk) if pk else None) for d, pk in res],
                problems[0]), {"seen": [dict(v) for v in seen], "top": {k: [v[0], sorted(v[1])] for k, v in st["top"].items()},
                               "unsigned": sorted(st["unsigned"]), "problems": problems})
            if len(ctx.violations) >= 3:
                break
    ctx.evaluated(n)
    ctx.note("lookup_" + tag, {"value_lists": n})


def lookup_problems(m, st, res):
    """compare a real lookup result with what TLC computed for this `seen` list"""
    problems = []
    top, unsigned = st["top"], st["unsigned"]
    per_signer = {}
    for data, pk in res:
        if pk is None:
            d = m.data_name(data)
            if d not in unsigned:
                problems.append("invented-unsigned: %r was never received as unsigned data" % (data,))
            continue
        s = m.signer_of.get(pk)
        per_signer.setdefault(s, []).append(m.data_name(data))
    for s, (ver, datas) in top.items():
        got = per_signer.pop(s, [])
        if ver < 0 and got:
            problems.append("unverified-reported: data %s reported as signed by %s although no signature of %s verifies" % (got, s, s))
        elif ver >= 0 and len(got) != 1:
            problems.append("signer-count: %d entries reported for signer %s (one expected)" % (len(got), s))
        elif ver >= 0 and got[0] not in datas:
            problems.append("not-highest: %s reported for %s, the highest verified version %d carries %s" % (got[0], s, ver, sorted(datas)))
    if per_signer:
        problems.append("unknown-signer: reported %s" % sorted(map(str, per_signer)))
    return problems


# ---------------------------------------------------------------------------------------------------------------
# binding T: a network of real nodes with their real timers; what the observed nodes received and how their
# storage changed is validated by TLC (specs/DhtStoreTrace.tla, specs/DhtLookupTrace.tla)
# ---------------------------------------------------------------------------------------------------------------
MS = 0.001


class Observer:
    """Logs one event per spec action at one real node, per storage key, without touching the node's code."""

    def __init__(self, m, srv, keys, name):
        self.m, self.srv, self.ov, self.name = m, srv, srv.ov, name
        self.keys = list(keys)
        self.events = {k: [] for k in keys}
        self.tokens = {}          # token bytes -> (a, k, ep)
        self.epoch = 1
        self.handling = False
        self.stats = {}

    def now(self):
        return int(round((self.srv.loop.time() - T0) * 1000))

    def names(self, key):
        """signer names as the spec sees them for this storage key: the signer whose key hash is the key is OWN"""
        own = [n for n, pk in self.m.pk.items() if hashlib.sha1(pk).digest() == key]
        return own[0] if own else None

    def sym(self, blob, key):
        d = self.m.describe(blob)
        if d["s"] != "none" and d["s"] == self.names(key):
            d = dict(d, s="OWN")
        return d

    def state(self, key):
        p = self.srv.project(unit=MS, target=key)
        own = self.names(key)
        st = []
        for items, exp in p["storage"]:
            v = dict(items)
            if own and v["s"] == own:
                v["s"] = "OWN"
            st.append({"v": v, "exp": exp})
        return {"st": st, "nsecrets": p["nsecrets"], "problems": p["problems"]}

    def log(self, key, ev):
        ev = dict(ev, t=self.now(), **self.state(key))
        self.events[key].append(ev)
        self.stats[ev["ev"]] = self.stats.get(ev["ev"], 0) + 1

    def log_all(self, ev):
        for k in self.keys:
            self.log(k, ev)

    # -- spies (installed on the class by the harness)
    def on_rotate(self):
        self.epoch += 1
        self.log_all({"ev": "rotate"})

    def on_clean(self):
        self.log_all({"ev": "clean"})

    def on_add_value(self, key, blob, max_age):
        if not self.handling and key in self.events:
            self.log(key, {"ev": "local", "v": self.sym(blob, key), "max_age": max_age})

    # -- datagrams
    def requester(self, src, pk):
        return "%s:%d" % (src[0], src[1]), hashlib.sha1(pk).hexdigest()[:16]

    def blocked(self, src, pk):
        """the per-node query rate limiter will drop this request (recomputed here from the routing table)"""
        from ipv8.dht import routing
        for rt in self.ov.routing_tables.values():
            for b in rt.trie.values():
                for node in b.nodes.values():
                    if node.public_key.key_to_bin() == pk and tuple(node.address) == tuple(src):
                        q = node.last_queries
                        return len(q) >= routing.NODE_LIMIT_QUERIES and self.srv.loop.time() - q[0] < routing.NODE_LIMIT_INTERVAL
        return False

    def before(self, dg):
        from ipv8.messaging.payload_headers import BinMemberAuthenticationPayload
        data = dg.data
        F, FR, S, SR, P, PR = _ids()
        if data[:22] != self.ov.get_prefix() or len(data) < 24 or data[22] not in (F.msg_id, S.msg_id, P.msg_id):
            return None
        try:
            cls = {F.msg_id: F, S.msg_id: S, P.msg_id: P}[data[22]]
            auth, payload = self.m.decode(data, cls)
            pk = auth.public_key_bin
            valid = self.m.ec.is_valid_signature(self.m.ec.key_from_public_bin(pk), data[:-64], data[-64:])
        except Exception:  # noqa: BLE001
            return None
        if not valid:
            return None                       # not a message of the key it claims: must have no effect at all
        a, k = self.requester(dg.src, pk)
        pre = {"cls": cls, "payload": payload, "a": a, "k": k, "pk": pk, "src": dg.src}
        if cls is not P and self.blocked(dg.src, pk):
            pre["blocked"] = True
            return pre
        if cls is P:
            lst = getattr(self.ov, "store", {}).get(payload.target, [])
            pre["before"] = any(n.public_key.key_to_bin() == pk for n in lst)
        return pre

    def token(self, tok, a, k):
        if tok in self.tokens:
            ta, tk, ep = self.tokens[tok]
            return {"a": ta, "k": tk, "ep": ep, "kind": "own"}
        return {"a": a, "k": k, "ep": 0, "kind": "junk"}      # not handed out by this node (foreign or arbitrary)

    def after(self, pre, sent):
        F, FR, S, SR, P, PR = _ids()
        cls, pl, a, k = pre["cls"], pre["payload"], pre["a"], pre["k"]
        if pre.get("blocked"):
            self.stats["rate-limited"] = self.stats.get("rate-limited", 0) + 1
            return
        if cls is F:
            ans = [self.m.decode(d.data, FR)[1] for d in sent
                   if d.dst == (pre["src"][0], pre["src"][1]) and d.data[22] == FR.msg_id]
            if ans:
                self.tokens[ans[0].token] = (a, k, self.epoch)
                self.log_all({"ev": "find", "a": a, "k": k})
        elif cls is S:
            if pl.target in self.events:
                self.log(pl.target, {"ev": "store", "a": a, "k": k, "tok": self.token(pl.token, a, k),
                                     "b": [self.sym(b, pl.target) for b in pl.values],
                                     "closer": self.srv.closer(pl.target)})
        elif cls is P and hasattr(self.ov, "store"):
            lst = self.ov.store.get(pl.target, [])
            now = any(n.public_key.key_to_bin() == pre["pk"] for n in lst)
            ev = {"ev": "peer", "a": a, "k": k, "tok": self.token(pl.token, a, k),
                  "t_is_own_mid": pl.target == hashlib.sha1(pre["pk"]).digest(), "before": pre["before"],
                  "added": now and not pre["before"]}
            self.log(self.keys[0], ev)


class Scenario:
    def __init__(self, m, seed, duration, light=False):
        from ipv8.dht.community import DHTCommunity
        self.light = light
        from ipv8.dht.discovery import DHTDiscoveryCommunity
        from ..simnet import SimNet
        self.m, self.rng, self.duration, self.seed = m, random.Random("c15-scn-%d" % seed), duration, seed
        random.seed("c15-global-%d" % seed)     # ipv8 draws cache numbers and bucket-refresh targets from the global generator
        self.loop = vloop_loop()
        self.loop._vt = T0
        self.net = SimNet(self.loop, auto=True)
        self.key2 = hashlib.sha1(b"c15 second storage key %d" % seed).digest()
        self.keys = [m.target, self.key2]
        self.observers = {}
        self.by_addr = {}
        self.lookups = []
        self.captured = []        # honest serialized values seen on the wire (replay material for the attacker)
        self.captured_at = {}     # ... and the storage key each of them was sent to
        self.book = {}            # attacker's tokens: (node name, a, k) -> [(time, token)]
        self.counts = {}
        self._spy()
        rng = random.Random("c15-scnkeys-%d" % seed)

        def key():
            return m.ec.key_from_private_bin(b"LibNaCLSK:" + rng.randbytes(64))
        A = m.A
        self.V = Server(m, DHTDiscoveryCommunity, periodic=True, net=self.net, fillers=0)
        self.nears = [Server(m, DHTDiscoveryCommunity if j == 0 else DHTCommunity, periodic=True, key=key(),
                             addr=A(m.near_ips[j], 8090), net=self.net, fillers=0) for j in range(8)]
        self.clients = [Server(m, DHTCommunity, periodic=True, key=m.sk[s], addr=A(m.far_ips[1 + j], 8090), net=self.net,
                               fillers=0) for j, s in enumerate(("S1", "S2", "S3"))]
        self.evil = Server(m, DHTCommunity, periodic=True, key=key(), addr=A(m.near_ips[9], 8090), net=self.net, fillers=0)
        for name, srv in (("V", self.V), ("N1", self.nears[0]), ("N2", self.nears[1])):
            ob = Observer(m, srv, self.keys, name)
            self.observers[id(srv.ov)] = ob
            self.by_addr[(srv.node.address[0], srv.node.address[1])] = ob
        if light:
            # quick tier: bucket refreshing (a crawl per minute and node) only on the observed nodes
            watched = {id(ob.srv) for ob in self.observers.values()}
            for srv in [self.evil] + self.nears + self.clients:
                if id(srv) not in watched:
                    srv.ov.cancel_pending_task("node_maintenance")
            for srv in (self.V, self.nears[0]):
                srv.ov.cancel_pending_task("store_peer")     # its half-minute self-registration crawl; thorough keeps it
        orig = self.net.deliver

        def deliver(dg):
            ob = self.by_addr.get(dg.dst)
            pre = ob.before(dg) if ob else None
            n = len(self.net.wire)
            if ob:
                ob.handling = True
            try:
                ok = orig(dg)
            finally:
                if ob:
                    ob.handling = False
            if ok and pre:
                ob.after(pre, self.net.wire[n:])
            return ok
        self.net.deliver = deliver

    def _spy(self):
        from ipv8.dht.community import DHTCommunity
        reg = self.observers
        self._orig = (DHTCommunity.token_maintenance, DHTCommunity.value_maintenance, DHTCommunity.add_value)
        o_tm, o_vm, o_av = self._orig

        def token_maintenance(ov):
            o_tm(ov)
            if id(ov) in reg:
                reg[id(ov)].on_rotate()

        def value_maintenance(ov):
            o_vm(ov)
            if id(ov) in reg:
                reg[id(ov)].on_clean()

        def add_value(ov, key, value, storage, *a, **kw):
            o_av(ov, key, value, storage, *a, **kw)
            if id(ov) in reg:
                reg[id(ov)].on_add_value(key, value, a[0] if a else kw.get("max_age"))
        DHTCommunity.token_maintenance, DHTCommunity.value_maintenance, DHTCommunity.add_value = \
            token_maintenance, value_maintenance, add_value

    def unspy(self):
        from ipv8.dht.community import DHTCommunity
        DHTCommunity.token_maintenance, DHTCommunity.value_maintenance, DHTCommunity.add_value = self._orig

    def count(self, what):
        self.counts[what] = self.counts.get(what, 0) + 1

    # ---- attacker primitives (datagrams from addresses nobody listens on; answers are read off the wire)
    async def att_find(self, node, a, k, name):
        import asyncio
        F, FR = _ids()[0], _ids()[1]
        n = len(self.net.wire)
        dg = self.net.inject(self.m.addr[a], node.node.address, self.m.find_packet(k, a))
        self.net.deliver(dg)
        await asyncio.sleep(0.25)
        for d in self.net.wire[n:]:
            if d.dst == (self.m.addr[a][0], self.m.addr[a][1]) and d.data[22] == FR.msg_id and d.sender is node.node.sim_endpoint:
                tok = self.m.decode(d.data, FR)[1].token
                self.book.setdefault((name, a, k), []).append((self.loop.time(), tok))
                return tok
        return None

    def pick_token(self, kind, name, a, k):
        mine = self.book.get((name, a, k), [])
        now = self.loop.time()
        if kind == "stale":
            old = [t for ts, t in mine if now - ts > 640]
            return old[0] if old else None
        if kind == "aging":
            mid = [t for ts, t in mine if 200 < now - ts <= 640]
            return mid[-1] if mid else None
        if kind in ("late", "very-late"):
            # just outside the validity window: handed out more than one / one and a half windows ago
            lo, hi = (600, 900) if kind == "late" else (900, 1300)
            out = [t for ts, t in mine if lo < now - ts <= hi]
            return self.rng.choice(out) if out else None
        if kind == "other-addr":
            o = self.book.get((name, "A2" if a == "A1" else "A1", k), [])
            return o[-1][1] if o else None
        if kind == "other-key":
            o = self.book.get((name, a, "K2" if k == "K1" else "K1"), [])
            return o[-1][1] if o else None
        if kind == "foreign":
            o = self.book.get(("N2" if name != "N2" else "V", a, k), [])
            return o[-1][1] if o else None
        return bytes(self.rng.randrange(256) for _ in range(20))

    def pick_values(self, key):
        m, r = self.m, self.rng
        kind = r.choice(["unsigned", "unsigned", "signed", "signed", "replay", "replay", "forged", "over", "max", "nine", "eight",
                         "pair"])
        sv = lambda s, ver, d, ok=True, sz="small": {"s": s, "ver": ver, "d": d, "ok": ok, "sz": sz}   # noqa: E731
        if kind == "unsigned":
            return kind, [m.blob(sv("none", 0, r.choice("abcdef")))]
        if kind == "signed":
            return kind, [m.blob(sv(r.choice(["S1", "S2", "S3"]), r.randrange(0, 4), r.choice("ab")))]
        if kind == "replay" and self.captured:
            return kind, [r.choice(self.captured)]
        if kind == "forged":
            return kind, [m.blob(sv(r.choice(["S1", "S2"]), r.randrange(0, 4) + 2000000000, r.choice("ab"), ok=False))]
        if kind == "over":
            return kind, [m.blob(sv("none", 0, "a")), m.blob(sv(r.choice(["none", "S2"]), 0, "z", sz="over"))]
        if kind == "max":
            return kind, [m.blob(sv(r.choice(["none", "S2"]), 0, "z", sz="max"))]
        if kind == "nine":
            return kind, [m.blob(sv("none", 0, str(i))) for i in range(1, 10)]
        if kind == "eight":
            return kind, [m.blob(sv("none", 0, str(i))) for i in range(1, 9)]
        return "pair", [m.blob(sv("S2", 3, "a")), m.blob(sv("S2", 1, "b"))]

    async def attack(self):
        import asyncio
        m, r = self.m, self.rng
        targets = [("V", self.V), ("V", self.V), ("V", self.V), ("N1", self.nears[0]), ("N2", self.nears[1])]
        name, node = r.choice(targets)
        a, k = r.choice(["A1", "A2"]), r.choice(["K1", "K2"])
        op = r.choice(["find", "store", "store", "store", "store", "peer", "badsig", "refresh-own", "replay-old"])
        key = r.choice([m.target, m.target, self.key2])
        if op == "replay-old":
            # the oldest captured value of some signer, under the key it was stored under, with a fresh token: must never
            # displace a newer version the node holds (whatever the age of that entry)
            signed = [(b, kk) for b, kk in self.captured_at.items() if m.describe(b)["s"] != "none"]
            if not signed:
                return
            blob, bkey = r.choice(signed)
            sig = m.describe(blob)["s"]
            blob = min((b for b in self.captured if m.describe(b)["s"] == sig and self.captured_at[b] == bkey),
                       key=lambda b: m.describe(b)["ver"])
            token = await self.att_find(node, a, k, name)
            if token:
                await asyncio.sleep(1.0)
                self.count("attacker-store:fresh:replay-old")
                self.net.deliver(self.net.inject(m.addr[a], node.node.address, m.store_packet(k, token, [blob], target=bkey)))
            return
        if op == "refresh-own":
            # replay the newest captured value of the signer whose key hash is the storage key, with a fresh token
            own = [b for b in self.captured if m.describe(b)["s"] == "S1"]
            token = await self.att_find(node, a, k, name)
            if own and token:
                await asyncio.sleep(1.0)
                self.count("attacker-store:fresh:refresh-own")
                self.net.deliver(self.net.inject(m.addr[a], node.node.address, m.store_packet(k, token, [own[-1]], target=m.target)))
            return
        if op == "find":
            await self.att_find(node, a, k, name)
            return
        tk = r.choice(["fresh", "fresh", "fresh", "aging", "stale", "other-addr", "other-key", "foreign", "junk",
                       "port-alias", "port-alias", "mask-alias", "mask-alias", "late", "late", "very-late"])
        if tk in ("late", "very-late"):
            # any requester identity that holds a token of that age for this node
            lo, hi = (600, 900) if tk == "late" else (900, 1300)
            have = sorted((a2, k2) for (n2, a2, k2), lst in self.book.items()
                          if n2 == name and any(lo < self.loop.time() - ts <= hi for ts, _t in lst))
            if have:
                a, k = r.choice(have)
        src = m.addr[a]
        if tk in ("fresh", "port-alias", "mask-alias"):
            token = await self.att_find(node, a, k, name)
            await asyncio.sleep(1.0)
            if tk != "fresh":
                # the fresh token of (a, k) presented by the same key from an address with the same node id
                src = m.addr[a + ("p" if tk == "port-alias" else "m")]
        else:
            token = self.pick_token(tk, name, a, k)
        if token is None:
            return
        if op == "store":
            vk, blobs = self.pick_values(key)
            self.count("attacker-store:%s:%s" % (tk, vk))
            pkt = m.store_packet(k, token, blobs, target=key)
        elif op == "peer":
            own = r.random() < 0.6
            self.count("attacker-peer:%s:%s" % (tk, "own" if own else "other"))
            pkt = m.store_peer_packet(k, token, m.mid[k] if own else m.mid["K3"])
        else:
            # valid token and values, but the datagram is not signed by the key it names
            pkt = bytearray(m.store_packet(k, token, [m.blob({"s": "none", "ver": 0, "d": "x", "ok": True, "sz": "small"})], target=key))
            pkt[-1] ^= 0x40
            pkt = bytes(pkt)
            self.count("attacker-badsig")
        self.net.deliver(self.net.inject(src, node.node.address, pkt))

    async def honest(self):
        from ipv8.dht import DHTError
        r = self.rng
        c = r.choice(self.clients)
        key = r.choice([self.m.target, self.m.target, self.key2])
        op = r.choice(["store-signed", "store-signed", "store-unsigned", "find"])
        try:
            if op == "find":
                await self.lookup(c, key)
            else:
                data = ("honest-%s-%d" % (op, r.randrange(4))).encode()
                await c.ov.store_value(key, data, sign=op == "store-signed")
                self.count("honest-" + op)
        except DHTError:
            self.count("honest-failed")

    async def lookup(self, c, key):
        """find_values over the wire; everything the client received in find-responses meanwhile is what it `saw`"""
        FR = _ids()[1]
        n = len(self.net.wire)
        me = (c.node.address[0], c.node.address[1])
        res = await c.ov.find_values(key)
        seen = []
        for d in self.net.wire[n:]:
            if d.dst == me and d.fate == "delivered" and d.data[22] == FR.msg_id and d.data[:22] == c.ov.get_prefix():
                try:
                    seen.extend(self.m.decode(d.data, FR)[1].values)
                except Exception:  # noqa: BLE001
                    pass
        out = []
        for data, pk in res:
            out.append({"d": data.hex(), "s": "none" if pk is None else self.m.signer_of.get(pk, "pk:" + hashlib.sha1(pk).hexdigest()[:8])})
        self.lookups.append({"seen": [self.m.describe(b, raw=True) for b in seen], "res": out})
        self.count("lookup")

    def sniff(self):
        S = _ids()[2]
        for d in self.net.wire[self._sniffed:]:
            if d.sender is not None and len(d.data) > 23 and d.data[22] == S.msg_id and d.data[:22] == self.V.ov.get_prefix():
                try:
                    pl = self.m.decode(d.data, S)[1]
                    for b in pl.values:
                        if b not in self.captured and b not in self.m.sym:
                            self.captured.append(b)
                            self.captured_at[b] = pl.target
                except Exception:  # noqa: BLE001
                    pass
        self._sniffed = len(self.net.wire)

    def poison(self):
        """the malicious node answers lookups with forged and outdated values (its own storage is under its control)"""
        m = self.m
        sv = lambda s, ver, d, ok=True: {"s": s, "ver": ver, "d": d, "ok": ok, "sz": "small"}   # noqa: E731
        st = self.evil.ov.get_storage(self.evil.node.my_peer)
        for key in self.keys:
            for i, v in enumerate([sv("S1", 2100000000, "a", False), sv("S2", 2100000001, "b", False), sv("S3", 0, "a"),
                                   sv("S2", 1, "b")]):
                st.put(key, m.blob(v), id_=b"evil-%d" % i, version=0)
            for b in self.captured[:3]:
                st.put(key, b, id_=b"old-" + hashlib.sha1(b).digest()[:8], version=0)

    async def main(self):
        import asyncio
        from .. import nodes as nodes_mod
        # the network grows: few near nodes at first (long lifetimes at the far-side node), more later (shorter ones)
        everyone = [self.V] + self.nears[:3] + self.clients + [self.evil]
        nodes_mod.introduce_all([s.node for s in everyone])
        await asyncio.sleep(2)
        self._sniffed = 0
        joins = [(500, self.nears[3:6]), (1100, self.nears[6:7]), (1700, self.nears[7:8])]
        end = T0 + self.duration
        while self.loop.time() < end:
            await asyncio.sleep(self.rng.choice([7, 12, 20, 35, 50] if self.light else [3, 7, 12, 20, 35]))
            if joins and self.loop.time() - T0 > joins[0][0]:
                for late in joins.pop(0)[1]:
                    for s in everyone:
                        late.ov.walk_to(s.node.address)
                    everyone.append(late)
                await asyncio.sleep(2)
            self.sniff()
            if self.rng.random() < 0.05:
                self.poison()
            try:
                if self.rng.random() < (0.3 if self.light else 0.45):
                    await self.honest()
                else:
                    await self.attack()
            except Exception as e:  # noqa: BLE001
                self.count("scenario-exception:" + type(e).__name__)

    def run(self):
        try:
            self.loop.run_until_complete(self.main())
        finally:
            self.unspy()
            for s in [self.V, self.evil] + self.nears + self.clients:
                s.close()
        traces = []
        for ob in self.observers.values():
            for key in ob.keys:
                traces.append({"node": ob.name, "key": key.hex(), "events": ob.events[key]})
        return traces


# ---------------------------------------------------------------------------------------------------------------
def calibrate_equal_version():
    """Storage.put with an equal version: replaces-and-refreshes, or keeps the old entry?  The statement is silent,
    the specification follows whichever the code does (constant EqReplaces)."""
    from ipv8.dht.storage import Storage
    st = Storage()
    st.put(b"k" * 20, b"first", id_=b"i" * 20, version=1)
    st.put(b"k" * 20, b"second", id_=b"i" * 20, version=1)
    got = st.get(b"k" * 20)
    if got not in ([b"first"], [b"second"]):
        raise MachineryError("calibration: Storage.put of an equal version left %r" % (got,))
    return got == [b"second"]


def tlc_traces(traces, tag, tmp, eq):
    path = os.path.join(tmp, "traces-%s.json" % tag)
    with open(path, "w", encoding="utf-8") as f:
        json.dump([{"events": t["events"]} for t in traces], f)
    cfg = "DhtStoreTrace.cfg" if eq else cfg_variant(tmp, "DhtStoreTrace.cfg", EqReplaces="FALSE")
    try:
        return tlc("DhtStoreTrace.tla", cfg, env={"TRACE_FILE": path}, coverage=False, workers=2)
    finally:
        os.unlink(path)


def judge_traces(ctx, traces, tag, r, scenario=None):
    ctx.add_tlc(tag, r)
    if not r.ok:
        last = r.error_trace[-1][1] if r.error_trace else {}
        tid, l = last.get("tid"), last.get("l")
        tr = traces[tid - 1] if isinstance(tid, int) else None
        if tr and tr["node"] == "synthetic":
            raise MachineryError("DhtStoreTrace rejects a well-behaved synthetic history (%s at event %s)" % (r.violated, l))
        if r.violated != "TraceAccepted" and isinstance(l, int):
            l -= 1                            # a state invariant fails in the state the offending event produced
        ev = tr["events"][l - 1] if tr and isinstance(l, int) and 0 < l <= len(tr["events"]) else None
        what = r.violated if r.violated != "TraceAccepted" else "event not allowed by the specification"
        sig = "trace:%s:%s" % (r.violated, ev["ev"] if ev else "?")
        desc = "recorded history of node %s (key %s) is not a behaviour of DhtStore.tla: %s at event %s" % (
            tr and tr["node"], tr and tr["key"][:8], what, l)
        if ev is not None and r.violated == "TraceAccepted":
            spec_st = sorted((tuple(sorted(e["v"].items())), e["exp"]) for e in last.get("storage", ()))
            desc += "; event %s at t=%s ms: node holds %s, specification state before the event %s" % (
                {k: v for k, v in ev.items() if k not in ("st", "problems")}, ev["t"],
                [(x["v"]["s"], x["v"]["ver"], x["exp"]) for x in ev["st"]], [(dict(v)["s"], dict(v)["ver"], e) for v, e in spec_st])
        if ev is not None and r.violated != "TraceAccepted":
            desc += "; event %s at t=%s ms" % ({k: v for k, v in ev.items() if k not in ("st", "problems")}, ev["t"])
            if "tok" in ev and ev["tok"].get("kind") == "own":
                handed = [e["t"] for e in tr["events"][:l - 1] if e["ev"] == "find" and (e["a"], e["k"]) == (ev["tok"]["a"], ev["tok"]["k"])]
                if handed:
                    desc += "; this requester was last handed a token %.1f s before (validity window %d s)" % (
                        (ev["t"] - handed[-1]) / 1000.0, 600)
        ctx.violation(sig, desc, {"scenario": scenario, "trace_node": tr and tr["node"], "key": tr and tr["key"], "event_index": l, "event": ev,
                                  "events_before": tr["events"][max(0, l - 6):l - 1] if tr and isinstance(l, int) else None})
    else:
        ctx.traces(len(traces))
        ctx.evaluated(sum(len(t["events"]) for t in traces))
        for t in traces:
            for e in t["events"]:
                if e["ev"] in ("store", "peer", "clean", "local"):
                    ctx.nontrivial((t["node"], t["key"], e["t"], e["ev"]))
    return r.ok


def tlc_lookups(lookups, tag, tmp):
    path = os.path.join(tmp, "lookups-%s.json" % tag)
    with open(path, "w", encoding="utf-8") as f:
        json.dump(lookups, f)
    try:
        return tlc("DhtLookupTrace.tla", "DhtLookupTrace.cfg", env={"TRACE_FILE": path}, coverage=False, workers=2)
    finally:
        os.unlink(path)


def judge_lookups(ctx, lookups, tag, r, scenario=None):
    ctx.add_tlc(tag, r)
    if not r.ok:
        i = None
        for _lbl, st in r.error_trace:
            i = st.get("i", i)
        lk = lookups[i - 1] if isinstance(i, int) else None
        ctx.violation("lookup-wire:" + str(r.violated), "find_values over the wire reported %s after receiving %s" % (
            lk and lk["res"], lk and [(v["s"], v["ver"], v["ok"]) for v in lk["seen"]]), {"scenario": scenario, "lookup": lk})
    else:
        ctx.evaluated(len(lookups))
        for lk in lookups:
            ctx.nontrivial(("wire-lookup", json.dumps(lk, sort_keys=True)))
    return r.ok


def corrupt_drop_rotate(traces):
    for t in traces:
        idx = [i for i, e in enumerate(t["events"]) if e["ev"] == "rotate"]
        if idx and len(t["events"]) > idx[0] + 1:
            return [{"node": t["node"], "key": t["key"], "events": t["events"][:idx[0]] + t["events"][idx[0] + 1:]}]
    raise MachineryError("no rotate event recorded: scenario too short")


def corrupt_unauthorised_store(traces):
    for t in traces:
        for i, e in enumerate(t["events"]):
            if e["ev"] == "store" and e["tok"]["kind"] == "junk" and e["b"] and e["b"][0]["ok"] and e["b"][0]["sz"] == "small" \
                    and len(e["b"]) <= 8 and not any(x["v"] == e["b"][0] for x in e["st"]):
                ev = dict(e, st=e["st"] + [{"v": e["b"][0], "exp": e["t"] + 3600000}])
                return [{"node": t["node"], "key": t["key"], "events": t["events"][:i] + [ev]}]
    raise MachineryError("no store with a foreign token recorded: scenario too short")


def synthetic_histories():
    """Hand-written histories in the recorded format, in pairs: a node that behaves (must be accepted) and the same
    history with one deviation (must be rejected, for the stated reason).  They pin down what DhtStoreTrace.tla decides
    about time: the validity window of a token and the version gate for entries past their lifetime."""
    uv = {"s": "none", "ver": 0, "d": "78", "ok": True, "sz": "small"}
    tok = {"a": "h:1", "k": "k1", "ep": 1, "kind": "own"}

    def ev(kind, t, st, nsecrets, **kw):
        return dict(kw, ev=kind, t=t, st=st, nsecrets=nsecrets, problems=[])

    def window(age_ms):
        # token handed out at 1 s under the first secret; the node's second maintenance run is late, so that secret still
        # opens the gate when the token is presented
        at = 1000 + age_ms
        return [ev("find", 1000, [], 1, a="h:1", k="k1"), ev("rotate", 300000, [], 2),
                ev("store", at, [{"v": uv, "exp": at + 3600000}], 2, a="h:1", k="k1", tok=tok, b=[uv], closer=0)]

    def sv(ver):
        return {"s": "S2", "ver": ver, "d": "61", "ok": True, "sz": "small"}

    def stale(yields):
        # S2's version 7 stored with an 1800 s lifetime, no maintenance run; 2000 s later somebody with a fresh token
        # stores S2's version 5
        first = [{"v": sv(7), "exp": 2000 + 1800000}]
        after = [{"v": sv(5), "exp": 2002000 + 1800000}] if yields else first
        return [ev("find", 1000, [], 1, a="h:1", k="k1"),
                ev("store", 2000, first, 1, a="h:1", k="k1", tok=tok, b=[sv(7)], closer=8),
                ev("find", 2001000, first, 1, a="h:1", k="k1"),
                ev("store", 2002000, after, 1, a="h:1", k="k1", tok=tok, b=[sv(5)], closer=8)]

    def wrap(events):
        return [{"node": "synthetic", "key": "", "events": events}]
    return {"window_ok": wrap(window(599000)), "window_bad": wrap(window(601000)),
            "stale_ok": wrap(stale(False)), "stale_bad": wrap(stale(True))}


def find_yield_edge(g):
    """a store request that presents an older version of a signer whose stored newer version is past its lifetime and not
    yet cleaned (the specification leaves the storage as it is)"""
    for sid, st in g.states.items():
        old = {e["v"]["s"]: e["v"]["ver"] for e in st["storage"] if st["clock"] > e["exp"]}
        if not old:
            continue
        for ei in g.out.get(sid, ()):
            if g.edges.name(ei) != "StoreRequest" or g.edges.dst[ei] != sid:
                continue
            _s, _n, args, _d = g.edges[ei]
            a, k, tok, batch = args
            if tok["kind"] == "own" and len(batch) == 1 and batch[0]["s"] in old and batch[0]["ver"] < old[batch[0]["s"]] \
                    and batch[0]["ok"]:
                return ei
    raise MachineryError("DhtStore_stale: no store of an older version onto an expired newer one in the graph")


def follow(g, steps_json):
    """recorded [name, args] list -> steps with the states of graph g (for --replay)"""
    from ..common import jsonable
    cur = g.init[0]
    out = []
    for name, args in steps_json:
        for ei in g.out.get(cur, ()):
            _s, n, a, d = g.edges[ei]
            if n == name and jsonable(a) == args:
                out.append((n, a, g.states[cur], g.states[d]))
                cur = d
                break
        else:
            raise MachineryError("replay file does not follow the state graph at %s" % name)
    return out


GRAPHS = (("DhtStore_tokens.cfg", "disc", ("FindRequest", "RotateSecrets", "StoreRequest", "StorePeerRequest", "Clean")),
          ("DhtStore_versions.cfg", "dht", ("FindRequest", "StoreRequest", "Clean", "Tick")),
          ("DhtStore_expiry.cfg", "dht", ("FindRequest", "StoreRequest", "LocalStore", "Clean", "Tick", "Discover")),
          ("DhtStore_limits.cfg", "dht", ("FindRequest", "StoreRequest", "Clean", "Tick")),
          # versions x lifetimes x maintenance: what the version gate does with entries that are past their lifetime but
          # not yet cleaned, and with entries that were refreshed, cleaned and stored again
          ("DhtStore_stale.cfg", "dht", ("FindRequest", "StoreRequest", "Clean", "Tick")),
          # tokens x wall clock: the node's own token_maintenance timer (left running) against the validity window
          ("DhtStore_window.cfg", "dht", ("FindRequest", "RotateSecrets", "StoreRequest", "Clean", "Tick")))
BUDGET = {"quick": {"DhtStore_tokens.cfg": 8000, "DhtStore_versions.cfg": 4000, "DhtStore_expiry.cfg": 6000,
                    "DhtStore_limits.cfg": 3000, "DhtStore_stale.cfg": 3500, "DhtStore_window.cfg": 2500}}


def run(tier, seed, replay=None):
    setup_repo_path()
    vloop.uninstall()
    ctx = Ctx(PID, tier, seed, "model_checking")       # created under the real clock (wall time of the evidence)
    global _LOOP
    _LOOP = None
    vloop_loop()
    try:
        return _run(ctx, tier, seed, replay)
    finally:
        vloop.uninstall()


def _run(ctx, tier, seed, replay):
    from ipv8.dht.community import DHTCommunity
    from ipv8.dht.discovery import DHTDiscoveryCommunity
    classes = {"dht": DHTCommunity, "disc": DHTDiscoveryCommunity}
    quick = tier == "quick"
    ctx.cov["rule"] = (
        "R: every transition of the TLC state graphs of DhtStore.tla (tokens x requesters incl. same-key aliases of an address "
        "that share its node id (other port / IP bits the id masks away) x rotations; versions x signers x "
        "forgeries; lifetimes x clock x maintenance; size/count limits; versions x expired-not-yet-cleaned entries; token age in "
        "seconds x the node's own maintenance timer) is executed on a real node (quick: seeded sample of "
        "the transitions, thorough: complete edge cover + simulated behaviours of the large configuration) and Storage / "
        "token window / peer table compared with the TLC state; T: recorded histories of three real nodes in a 15-node "
        "network with real timers validated event by event by TLC; E: every value list a lookup can receive (TLC "
        "enumeration) against post_process_values. non-trivial = distinct state-changing or request transitions replayed, "
        "distinct recorded store/peer/clean events, distinct value lists of length >= 2")
    ctx.assumptions += [
        "signature primitives of the key vault are trusted (used to build forged values and datagrams)",
        "SHA-1 collisions do not occur (token = hash(requester, secret))",
        "graph replays run with the per-node query rate limiter switched off (routing.NODE_LIMIT_INTERVAL = 0): dropping a "
        "request is always allowed by the property; the recorded network runs keep the limiter and skip dropped requests",
        "the set of known nodes offered by RoutingTable.closest_nodes is taken as given (property C14); how many of them are "
        "closer to the key than the node is recomputed by the harness",
        "a malformed value that makes unserialize_value raise (truncated, unknown key format) aborts the request/lookup; "
        "robustness against such input is property C03's subject and is not explored here",
        "one storage key per replayed node (per-key lists are independent); two keys in the recorded runs",
        "validity window of a store token = TOKEN_EXPIRATION_TIME = 600 s after it was handed out (protocol constant, written "
        "into the specification, not read from the code); timers of the virtual-time loop fire exactly when due"]
    phases, t_phase = {}, [vloop._REAL_TIME()]

    def phase(name):
        now = vloop._REAL_TIME()
        phases[name] = round(phases.get(name, 0) + now - t_phase[0], 2)
        t_phase[0] = now
        ctx.note("wall_by_phase_s", phases)
    m = Material(seed)
    ctx.eq = calibrate_equal_version()
    ctx.note("calibration", {"equal_version_replaces": ctx.eq})
    tmp = scratch_dir("c15-")
    pool = ThreadPoolExecutor(max_workers=8)
    try:
        def model(cfgname, dump=True, **over):
            cfg = cfgname
            if not ctx.eq:
                over["EqReplaces"] = "FALSE"
            if over:
                cfg = cfg_variant(tmp, cfgname, **over)
            dot = os.path.join(tmp, os.path.basename(cfg) + ".dot") if dump else None
            return tlc("DhtStore.tla", cfg, dump=dot, workers=2, coverage=dump), dot

        if replay:
            with open(replay, encoding="utf-8") as f:
                whole = json.load(f)
            rec = whole["replay"]
            if rec and rec.get("scenario"):
                m = Material(whole["seed"])
                sc = Scenario(m, rec["scenario"]["seed"], rec["scenario"]["duration"], rec["scenario"].get("light", False))
                traces = sc.run()
                ctx.sample({"replayed_network_run": rec["scenario"]})
                judge_traces(ctx, traces, "trace", tlc_traces(traces, "trace", tmp, ctx.eq), rec["scenario"])
                judge_lookups(ctx, sc.lookups, "lookups", tlc_lookups(sc.lookups, "lookups", tmp), rec["scenario"])
                return finish(ctx)
            if rec and "seen" in rec:
                blobs = [m.blob(FrozenDict(v)) for v in rec["seen"]]
                st = {"seen": tuple(FrozenDict(v) for v in rec["seen"]), "top": {k: (v[0], frozenset(v[1])) for k, v in rec["top"].items()},
                      "unsigned": frozenset(rec["unsigned"])}
                ctx.sample({"replayed_lookup": rec["seen"]})
                problems = lookup_problems(m, st, m.tools["K1"].post_process_values(blobs))
                if problems:
                    ctx.violation("lookup:" + problems[0].split(":")[0], problems[0], rec)
                ctx.evaluated(1)
                return finish(ctx)
            if not rec or "steps" not in rec or not rec["cfg"].endswith(".cfg"):
                raise MachineryError("this replay file carries no graph behaviour (re-run the tier that produced it)")
            r, dot = model(rec["cfg"])
            g = parse_dot(dot)
            steps = follow(g, rec["steps"])
            cls = classes["disc" if rec["overlay"] == "DHTDiscoveryCommunity" else "dht"]
            bad = replayer_for(ctx, m, cls, rec["cfg"], "replay").run(steps)
            ctx.sample({"replayed_behaviour": [label(n, a) for n, a, _b, _a in steps]})
            ctx.add_tlc("replay", r)
            if bad:
                report(ctx, cls, rec["cfg"], steps, bad)
            ctx.evaluated(len(steps))
            return finish(ctx)

        # ---- all TLC jobs start now and run beside the real-code work
        jobs = {c: pool.submit(model, c) for c, _k, _a in GRAPHS}
        ctl_clean = pool.submit(model, "DhtStore_expiry.cfg", False, CleanAll="FALSE")
        ctl_window = pool.submit(model, "DhtStore_tokens.cfg", False, KeepSecrets="3")
        ctl_yield = pool.submit(model, "DhtStore_stale.cfg", False, ExpiredYields="TRUE")
        ctl_period = pool.submit(model, "DhtStore_window.cfg", False, RotatePeriod="4")
        ctl_notimer = None if quick else pool.submit(model, "DhtStore_window.cfg", False, RotatePeriod="0")
        lk_cfgs = ["DhtLookup_quick.cfg"] if quick else ["DhtLookup_thorough.cfg", "DhtLookup_len4.cfg"]

        def lookup_model(cfgname):
            dot = os.path.join(tmp, cfgname + ".dot")
            return tlc("DhtLookup.tla", cfgname, dump=dot, workers=2, coverage=False), dot
        lk_jobs = {c: pool.submit(lookup_model, c) for c in lk_cfgs}
        big_job = None if quick else pool.submit(tlc, "DhtStore.tla", "DhtStore_bigmc.cfg", workers=6, coverage=False,
                                                 timeout=3000)

        # ---- T: record while TLC computes
        scen = []
        for i in range(1 if quick else 3):
            sc = Scenario(m, seed * 10 + i, 3800 if quick else 11200, light=quick)
            traces = sc.run()
            scen.append((sc, traces))
            ctx.note("network_run_%d" % i, {"virtual_seconds": sc.duration, "datagrams": len(sc.net.wire),
                                             "lookups": len(sc.lookups), "traffic": dict(sorted(sc.counts.items())),
                                             "events": {ob.name: ob.stats for ob in sc.observers.values()}})
            stores = sum(ob.stats.get("store", 0) for ob in sc.observers.values())
            if stores < 20 or not sc.lookups or not any(ob.stats.get("clean") for ob in sc.observers.values()):
                raise MachineryError("recorded run is vacuous: %d stores, %d lookups" % (stores, len(sc.lookups)))
        phase("record_network_runs")
        syn = synthetic_histories()
        scen[0][1].extend(syn["window_ok"] + syn["stale_ok"])      # the well-behaved twins of the controls ride along
        t_jobs = [(tr, "trace%d" % i, pool.submit(tlc_traces, tr, "trace%d" % i, tmp, ctx.eq)) for i, (_sc, tr) in enumerate(scen)]
        l_jobs = [(sc.lookups, "lookups%d" % i, pool.submit(tlc_lookups, sc.lookups, "lookups%d" % i, tmp))
                  for i, (sc, _tr) in enumerate(scen)]
        bad1 = {"seen": [{"s": "S1", "ver": 3, "d": "aa", "ok": False, "sz": "small"}], "res": [{"d": "aa", "s": "S1"}]}
        bad2 = {"seen": [{"s": "S1", "ver": 3, "d": "aa", "ok": True, "sz": "small"},
                         {"s": "S1", "ver": 2, "d": "bb", "ok": True, "sz": "small"}], "res": [{"d": "bb", "s": "S1"}]}
        c_jobs = [("recorded history with one token rotation removed is rejected",
                   pool.submit(tlc_traces, corrupt_drop_rotate(scen[0][1]), "ctl1", tmp, ctx.eq)),
                  ("recorded history in which a store with a foreign token takes effect is rejected",
                   pool.submit(tlc_traces, corrupt_unauthorised_store(scen[0][1]), "ctl2", tmp, ctx.eq)),
                  ("lookup reporting data of an unverifiable signature is rejected", pool.submit(tlc_lookups, [bad1], "ctl3", tmp)),
                  ("lookup reporting an older verified version is rejected", pool.submit(tlc_lookups, [bad2], "ctl4", tmp))]

        s_jobs = {name: pool.submit(tlc_traces, syn[name], "syn-" + name, tmp, ctx.eq) for name in ("window_bad", "stale_bad")}

        # ---- R: graphs
        graphs = {}
        for cfgname, kind, acts in GRAPHS:
            r, dot = jobs[cfgname].result()
            if not r.ok:
                raise MachineryError("DhtStore %s: TLC reports %s on the specification itself" % (cfgname, r.violated))
            check_coverage(r, cfgname, acts)
            ctx.add_tlc(cfgname[len("DhtStore_"):-4], r)
            phase("wait_for_tlc")
            g = parse_dot_lazy(dot)
            os.unlink(dot)
            graphs[cfgname] = g
            phase("parse_graphs")
            if len(ctx.violations) < 3:
                replay_graph(ctx, m, g, cfgname, classes[kind], BUDGET.get(tier, {}).get(cfgname))
            phase("replay_graphs")
        ctx.cov["exhaustive"] = not quick

        # ---- replay negative controls: the comparison must notice a node that does something else
        g = graphs["DhtStore_versions.cfg"]
        e1 = next(i for i in range(len(g.edges)) if g.edges.src[i] != g.edges.dst[i] and g.edges.name(i) == "StoreRequest")
        steps = shortest_steps(g, e1)
        keep = list(ctx.violations)
        bad = Replayer(ctx, m, DHTCommunity, "ctl").run(steps, sabotage_at=len(steps) - 1, sabotage="lose-request")
        ctx.control("replay in which the node never receives a store request that the specification processes is flagged", bool(bad))
        g = graphs["DhtStore_expiry.cfg"]
        e2 = next(i for i in range(len(g.edges)) if g.edges.src[i] != g.edges.dst[i] and g.edges.name(i) == "Clean")
        steps = shortest_steps(g, e2)
        bad = Replayer(ctx, m, DHTCommunity, "ctl").run(steps, sabotage_at=len(steps) - 1, sabotage="skip-clean")
        ctx.control("replay in which maintenance is skipped where the specification removes expired values is flagged", bool(bad))
        g = graphs["DhtStore_window.cfg"]
        e3 = next(i for i in range(len(g.edges)) if g.edges.name(i) == "RotateSecrets" and len(g.states[g.edges.src[i]]["secrets"]) == 2)
        steps = shortest_steps(g, e3)
        bad = replayer_for(ctx, m, DHTCommunity, "DhtStore_window.cfg", "ctl").run(steps, sabotage_at=len(steps) - 1,
                                                                                    sabotage="skip-rotation")
        ctx.control("replay in which the node's maintenance timer does not fire when the specification rotates the secrets is flagged",
                    bool(bad))
        g = graphs["DhtStore_stale.cfg"]
        steps = shortest_steps(g, find_yield_edge(g))
        ok_run = Replayer(ctx, m, DHTCommunity, "ctl").run(steps)
        bad = Replayer(ctx, m, DHTCommunity, "ctl").run(steps, sabotage_at=len(steps) - 1, sabotage="expired-yield")
        ctx.control("replay in which an expired, not yet cleaned newer version yields to an older one is flagged",
                    bool(bad) and bad[0] == len(steps) - 1 and (ok_run is None or bool(ctx.violations)))
        ctx.sample({"cfg": "DhtStore_stale.cfg", "older_version_onto_expired_newer": [label(n, a) for n, a, _b, _a in steps]})
        ctx.violations[:] = keep

        # ---- spec-level negative controls
        r, _ = ctl_clean.result()
        ctx.control("specification with the pinned clean-up (stop at first unexpired value) violates ExpiredGoneAfterClean",
                    r.violated == "ExpiredGoneAfterClean")
        r, _ = ctl_window.result()
        ctx.control("specification with a three-slot secret window violates the two-rotation validity bound",
                    r.violated in ("StoreNeedsOwnFreshToken", "WindowIsTwoNewest", "StorePeerOnlyOwnMid"))
        r, _ = ctl_yield.result()
        ctx.control("specification in which an expired, not yet cleaned entry yields to any version violates NoDowngrade",
                    r.violated == "NoDowngrade")
        r, _ = ctl_period.result()
        ctx.control("specification whose maintenance timer has the period of the whole validity window honours tokens past the window",
                    r.violated == "StoreNeedsOwnFreshToken")
        if ctl_notimer is not None:
            r, _ = ctl_notimer.result()
            ctx.control("specification in which rotation is not tied to the clock honours tokens past the window",
                        r.violated == "StoreNeedsOwnFreshToken")

        # ---- R: simulated behaviours of the large configuration
        if not quick and len(ctx.violations) < 3:
            replay_simulated(ctx, m, tmp, DHTDiscoveryCommunity, 300, 400, ctx.eq)

        phase("controls_and_simulated")
        # ---- E
        for cfgname, job in lk_jobs.items():
            r, dot = job.result()
            phase("wait_for_tlc")
            if not r.ok:
                raise MachineryError("DhtLookup %s: TLC reports %s on the reference" % (cfgname, r.violated))
            ctx.add_tlc(cfgname[:-4], r)
            g = parse_dot(dot, keep_vars=("seen", "top", "unsigned"))
            os.unlink(dot)
            check_lookup(ctx, m, g, cfgname[len("DhtLookup_"):-4])
            phase("lookup_enumeration")

        # ---- T verdicts
        for (sc, _t), (tr, tag, j) in zip(scen, t_jobs):
            judge_traces(ctx, tr, tag, j.result(), {"seed": sc.seed, "duration": sc.duration, "light": sc.light})
        for (sc, _t), (lks, tag, j) in zip(scen, l_jobs):
            judge_lookups(ctx, lks, tag, j.result(), {"seed": sc.seed, "duration": sc.duration, "light": sc.light})
        for name, j in c_jobs:
            ctx.control(name, not j.result().ok)
        res = {name: j.result() for name, j in s_jobs.items()}
        ctx.control("history in which a token is honoured 601 s after it was handed out is rejected (599 s is accepted)",
                    res["window_bad"].violated == "StoreNeedsOwnFreshToken")
        ctx.control("history in which an older version replaces an expired, not yet cleaned newer one is rejected",
                    res["stale_bad"].violated == "TraceAccepted")
        if scen:
            tr = scen[0][1][0]
            ctx.sample({"recorded_history": {"node": tr["node"], "events": [
                {k: v for k, v in e.items() if k not in ("st", "problems")} for e in tr["events"] if e["ev"] != "find"][:4]}})
        phase("trace_verdicts")
        if big_job is not None:
            r = big_job.result()
            if not r.ok:
                raise MachineryError("DhtStore_bigmc: TLC reports %s on the specification itself" % r.violated)
            ctx.add_tlc("bigmc", r)
        return finish(ctx)
    finally:
        pool.shutdown(wait=True, cancel_futures=True)
        shutil.rmtree(tmp, ignore_errors=True)
