"""C17 - identity consent.

Specification: specs/Identity.tla (+ IdentityWorld.tla universe, IdentityMC.tla configurations, IdentityTrace.tla).
Binding R: every transition of the state graphs TLC dumps for the small configurations (and random behaviours that
           TLC simulates from the large one) is executed on a real IdentityCommunity node (working_directory
           ':memory:', harness/simnet.py endpoint); the peers are played by the harness with real keys and real signed
           Token / Metadata / Attestation objects inside ezr_pack'd, signed datagrams.  After every action the
           AttestPayload / RequestMissingPayload / MissingResponsePayload / DisclosePayload datagrams that left the
           node, the rows of its Attestations and Metadata tables, the token trees, the consent table and the
           permissions are compared with the TLC state.
Binding T: seeded random adversarial sessions (arbitrary sequences of the universe's objects, long own chains, clock
           jumps around the five minute window) are recorded and validated by TLC against the same actions.
Storage faults (the specification's `fault` variable / Fault action): the harness wraps `execute` of the node's
           IdentityDatabase *instance*; an armed fault makes the next INSERT into the named table raise
           sqlite3.OperationalError once.  Both bindings arm faults before disclosures, replays, incoming attestations
           and own advertisements: what left the node and what its tables hold after the failed write, and what it does
           with the replay afterwards, are compared with the TLC state like every other step.
"""
from __future__ import annotations

import json
import os
import random
import re
import shutil
import sqlite3
import struct

from ..common import Ctx, setup_repo_path
from ..replay import diff_states, edge_cover
from ..tlc import FrozenDict, MachineryError, parse_dot, parse_simulate_file, run_tlc, scratch_dir

PID = "C17"
A_ADDR = ("80.0.0.1", 8090)
P_ADDR = {1: ("80.0.0.11", 8090), 2: ("80.0.0.12", 8090), 3: ("80.0.0.13", 8090)}
NAMES = {1: "n1", 2: "n2"}
EXTRA = {1: {}, 2: {"a": "b"}}
REGMETA = {0: None, 1: {}, 2: {"a": "b"}}
OWN_NAME = "own"
MAX_OWN = 16

KEEP = {"clock", "known", "els", "unch", "mdTab", "attTab", "chain", "perm", "handed", "out", "fault"}
ACTIONS = ("Reg", "Adv", "Disc", "Miss", "SelfAdv", "ReqAdv", "ReqMissing", "Attest", "Flt")
GRAPHS = ("keys", "time", "meta", "chain", "atts", "owner", "fault", "ofault")
QUICK_BUDGET = {"fault": 1800, "ofault": 900}          # real operations per graph in the quick tier (default 2500)
FAULT_TABLE = {1: "attestations", 2: "metadata"}       # Identity.tla: TabAtt, TabMd
INSERT_RE = re.compile(r"\s*INSERT\b.*?\bINTO\s+(\w+)", re.I | re.S)
INJECTED = "database is locked [injected storage fault]"


def fd(**kw):
    return FrozenDict(kw)


NO_OUT = fd(to=0, att=frozenset(), miss=0, missKnown=0, respSent=False, discSent=False, toks=frozenset())


# ---------------------------------------------------------------------------------------------------------------
# the universe: read from the specification, built with real keys and real signed objects
# ---------------------------------------------------------------------------------------------------------------
def load_catalogue():
    tmp = scratch_dir("c17cat-")
    try:
        dot = os.path.join(tmp, "cat.dot")
        r = run_tlc("IdentityCat.tla", "IdentityCat.cfg", dump=dot, coverage=False, workers=1)
        if not r.ok:
            raise MachineryError("IdentityCat: %s" % r.violated)
        g = parse_dot(dot)
    finally:
        shutil.rmtree(tmp, ignore_errors=True)
    if len(g.states) != 1:
        raise MachineryError("IdentityCat must have exactly one state")
    return next(iter(g.states.values()))["cat"]


class Universe:
    """Keys 0..3 and every object of IdentityWorld.tla as a real signed object."""

    def __init__(self, cat, loop, seed=0):
        from ipv8.attestation.identity.attestation import Attestation
        from ipv8.attestation.identity.community import IdentityCommunity
        from ipv8.attestation.identity.metadata import Metadata
        from ipv8.attestation.tokentree.token import Token
        from ipv8.keyvault.crypto import default_eccrypto
        from ipv8.attestation.identity.payload import (AttestPayload, DisclosePayload, MissingResponsePayload,
                                                       RequestMissingPayload)
        from ipv8.messaging.payload_headers import BinMemberAuthenticationPayload
        from ipv8.peer import Peer
        from .. import simnet
        self.P = (DisclosePayload, AttestPayload, RequestMissingPayload, MissingResponsePayload)
        self.Auth = BinMemberAuthenticationPayload
        self.cat = cat
        self.w = w = cat["w"]
        self.loop = loop
        self.Token, self.Metadata, self.Attestation = Token, Metadata, Attestation
        self.IdentityCommunity, self.Peer = IdentityCommunity, Peer
        krng = random.Random(seed * 7919 + 17)      # seeded keys: every hash, signature and set order is reproducible
        self.keys = {i: default_eccrypto.key_from_private_bin(b"LibNaCLSK:" + krng.randbytes(64)) for i in range(4)}
        self.pub = {i: k.pub() for i, k in self.keys.items()}
        self.keybin = {i: k.key_to_bin() for i, k in self.pub.items()}
        self.key_id = {v: k for k, v in self.keybin.items()}
        self.hashes = {1: b"\x11" * 32, 2: b"\x22" * 32}
        self.own_hash = {i: bytes([0xA0 + i]) * 32 for i in range(1, MAX_OWN + 2)}
        # the peers' overlays: real IdentityCommunity instances (they create the honest chains and sign datagrams)
        self.net0 = simnet.SimNet(loop)
        self.net0.policy = lambda dg: []
        self.sender = {}
        for p in (1, 2, 3):
            self.sender[p] = self.make_overlay(self.net0, self.keys[p], P_ADDR[p])
        ntok, nmd, natt = len(w["tokOwner"]), len(w["mdSigner"]), len(w["attSigner"])
        # honest chains through the real self_advertise of the subjects' own overlays
        self.tok, self.md, self.att = {}, {}, {}
        honest = {}    # token id -> metadata id created together with it (name n1, no extra metadata, all fields)
        for m in range(1, nmd + 1):
            t = w["mdTok"][m - 1]
            if (t <= ntok and w["mdSigner"][m - 1] == w["tokOwner"][t - 1] and w["mdName"][m - 1] == 1
                    and w["mdExtra"][m - 1] == 1 and w["mdReq"][m - 1] and t not in honest):
                honest[t] = m
        for t in range(1, ntok + 1):
            owner, par, h = w["tokOwner"][t - 1], w["tokPar"][t - 1], w["tokHash"][t - 1]
            ov = self.sender[owner]
            if t not in honest:
                raise MachineryError("universe: token %d has no honest metadata" % t)
            if (par == 0) != (not ov.token_chain) or (par != 0 and ov.token_chain[-1] is not self.tok.get(par)):
                raise MachineryError("universe: tokens of an owner must be listed in chain order")
            cred = ov.self_advertise(self.hashes[h], NAMES[1])
            self.tok[t] = ov.token_chain[-1]
            self.md[honest[t]] = cred.metadata
            if self.tok[t].content_hash != self.hashes[h] or cred.metadata.token_pointer != self.tok[t].get_hash():
                raise MachineryError("universe: self_advertise built something else")
        self.honest = honest
        self.ghost_pointer = b"\x99" * 32
        for m in range(1, nmd + 1):
            if m in self.md:
                continue
            t = w["mdTok"][m - 1]
            d = {"name": NAMES[w["mdName"][m - 1]], "schema": "id_metadata", "date": 1000.5}
            if not w["mdReq"][m - 1]:
                del d["schema"]
            d.update(EXTRA[w["mdExtra"][m - 1]])
            ptr = self.tok[t].get_hash() if t <= ntok else self.ghost_pointer
            self.md[m] = Metadata(ptr, json.dumps(d).encode(), private_key=self.keys[w["mdSigner"][m - 1]])
        for x in range(1, natt + 1):
            self.att[x] = Attestation.create(self.md[w["attMd"][x - 1]], self.keys[w["attSigner"][x - 1]])
        self.tok_id = {t.get_hash(): i for i, t in self.tok.items()}
        self.md_id = {m.get_hash(): i for i, m in self.md.items()}
        self.peers = {p: Peer(self.keys[p].pub(), P_ADDR[p]) for p in (1, 2, 3)}
        self.addr_id = {ad: p for p, ad in P_ADDR.items()}
        self.name_id = {v: k for k, v in NAMES.items()}
        self.extra_id = {json.dumps(v, sort_keys=True): k for k, v in EXTRA.items()}
        self.by_id = {c.msg_id: c for c in self.P}
        self._signer = {}
        self._mdrow = {}
        self.stats = {}

    def signer_of(self, plaintext, signature):
        """Which key of the universe verifies this signature (-1: none) - independent of what the node believes."""
        k = (plaintext, signature)
        if k not in self._signer:
            from ipv8.keyvault.crypto import default_eccrypto
            self._signer[k] = next((i for i, pk in self.pub.items()
                                    if default_eccrypto.is_valid_signature(pk, plaintext, signature)), -1)
        return self._signer[k]

    def identify_md(self, pkb, ptr, js, sig):
        k = (pkb, ptr, js, sig)
        if k not in self._mdrow:
            m = self.Metadata(ptr, js, signature=sig)
            mid = self.md_id.get(m.get_hash(), -1)
            if mid > 0 and self.key_id.get(pkb) != self.w["mdSigner"][mid - 1]:
                mid = -2                      # stored under a pseudonym that did not sign it
            self._mdrow[k] = mid
        return self._mdrow[k]

    def make_overlay(self, net, key, addr):
        from ipv8.attestation.identity.community import IdentitySettings
        from ipv8.peerdiscovery.network import Network
        ep = net.endpoint(ip=addr[0], port=addr[1])
        s = IdentitySettings(my_peer=self.Peer(key, ep.addr), endpoint=ep, network=Network())
        s.working_directory = ":memory:"
        ov = self.IdentityCommunity(s)
        ov.my_estimated_lan = ov.my_estimated_wan = ep.addr
        return ov

    # -- serialisations the way PseudonymManager.create_disclosure makes them
    def ser_tokens(self, ids):
        return b"".join(self.tok[t].get_plaintext_signed() for t in ids)

    def ser_mds(self, ids):
        out = b""
        for m in ids:
            s = self.md[m].get_plaintext_signed()
            out += struct.pack(">I", len(s)) + s
        return out

    def ser_atts(self, pairs):
        atts = auths = b""
        for x, a in pairs:
            atts += self.att[x].get_plaintext_signed()
            kb = self.keybin[a]
            auths += struct.pack(">H", len(kb)) + kb
        return atts, auths


class LogSpy:
    """Stands in for the overlay's logger: counts handler exceptions (Community.on_packet swallows them)."""

    def __init__(self):
        self.exceptions = []

    def exception(self, msg, *a):
        try:
            self.exceptions.append(str(msg) % a if a else str(msg))
        except Exception:  # noqa: BLE001
            self.exceptions.append(str(msg))

    def _noop(self, *a, **k):
        pass

    debug = info = warning = error = critical = log = _noop


class Run:
    """One fresh node under test and the operations of the specification's actions on it."""

    def __init__(self, u):
        from .. import simnet
        self.u = u
        self.P = u.P
        self.Auth = u.Auth
        self.net = simnet.SimNet(u.loop)
        self.sent = []
        self.net.policy = self._capture
        self.a = u.make_overlay(self.net, u.keys[0], A_ADDR)
        self.spy = LogSpy()
        self.a.logger = self.spy
        self.t0 = u.loop.time()
        self.handed = {1: set(), 2: set(), 3: set()}
        self.out = NO_OUT
        self.problems = []
        self.own_pos = {}
        self.stats = u.stats
        self.fault_tab = 0          # the specification's `fault`: table whose next INSERT raises (0: none)
        self.injected = 0           # storage errors raised so far
        self.unrecorded = False     # a disclosure was cut short by a failed Attestations write (vacuity bookkeeping)
        self._install_faults()

    def _install_faults(self):
        """Storage faults without a source hook: `execute` of this node's database instance is wrapped."""
        db = self.a.identity_manager.database
        if self.a.pseudonym_manager.database is not db:
            raise MachineryError("the node's pseudonym does not use the identity manager's database")
        real = db.execute

        def execute(statement, *args, **kw):
            if self.fault_tab:
                m = INSERT_RE.match(statement)
                if m and m.group(1).lower() == FAULT_TABLE[self.fault_tab]:
                    self.fault_tab = 0
                    self.injected += 1
                    raise sqlite3.OperationalError(INJECTED)
            return real(statement, *args, **kw)
        db.execute = execute

    def _user_call(self, fn, *args):
        """A call of the node's user: the injected storage error may come out of it, nothing else may."""
        try:
            fn(*args)
        except sqlite3.OperationalError as e:
            if INJECTED not in str(e):
                raise

    def close(self):
        self.a.cancel_all_pending_tasks()
        self.a.identity_manager.database.close()

    def _capture(self, dg):
        if dg.sender is self.a.endpoint:
            self.sent.append(dg)
        return []

    # -- inputs
    def send(self, p, msg_id, payload):
        data = self.u.sender[p].ezr_pack(msg_id, payload)
        self.net.deliver(self.net.inject(P_ADDR[p], A_ADDR, data))

    def do(self, name, args):
        """An edge label of IdentityMC.tla -> the canonical event (catalogue indices resolved)."""
        cat = self.u.cat
        if name == "Reg":
            r = cat["regs"][args[0] - 1]
            ev = {"a": "reg", "h": r["h"], "name": r["name"], "subj": r["subj"], "meta": r["meta"]}
        elif name == "Adv":
            ev = {"a": "tick", "d": args[0]}
        elif name == "Disc":
            p, i, j, k = args
            ev = {"a": "disc", "p": p, "mds": list(cat["mds"][j - 1]), "toks": list(cat["toks"][p - 1][i - 1]),
                  "atts": [list(x) for x in cat["atts"][k - 1]]}
        elif name == "Miss":
            p, i = args
            ev = {"a": "miss", "p": p, "toks": list(cat["toks"][p - 1][i - 1])}
        elif name == "SelfAdv":
            ev = {"a": "selfadv"}
        elif name == "ReqAdv":
            ev = {"a": "reqadv", "p": args[0]}
        elif name == "ReqMissing":
            ev = {"a": "reqmissing", "p": args[0], "k": args[1]}
        elif name == "Attest":
            ev = {"a": "attest", "p": args[0], "x": args[1]}
        elif name == "Flt":
            ev = {"a": "fault", "tab": args[0]}
        else:
            raise MachineryError("unknown action " + name)
        self.apply(ev)
        return ev

    def apply(self, ev):
        u, a = self.u, self.a
        D, At, Rm, Mr = self.P
        self.sent = []
        nexc = len(self.spy.exceptions)
        ninj = self.injected
        armed = self.fault_tab
        kind = ev["a"]
        if kind == "reg":
            m = REGMETA[ev["meta"]]
            a.add_known_hash(u.hashes[ev["h"]], NAMES[ev["name"]], u.keybin[ev["subj"]],
                             None if m is None else dict(m))
        elif kind == "tick":
            u.loop._vt += ev["d"]
        elif kind == "disc":
            s_att, s_auth = u.ser_atts(ev["atts"])
            self.send(ev["p"], D.msg_id, D(u.ser_mds(ev["mds"]), u.ser_tokens(ev["toks"]), s_att, s_auth))
        elif kind == "miss":
            self.send(ev["p"], Mr.msg_id, Mr(u.ser_tokens(ev["toks"])))
        elif kind == "selfadv":
            self._user_call(a.self_advertise, u.own_hash[len(a.token_chain) + 1], OWN_NAME)
            self._index_own()
        elif kind == "reqadv":
            self._user_call(a.request_attestation_advertisement, u.peers[ev["p"]],
                            u.own_hash[len(a.token_chain) + 1], OWN_NAME)
            self._index_own()
        elif kind == "fault":
            if ev["tab"] not in FAULT_TABLE:
                raise MachineryError("unknown table %r" % (ev["tab"],))
            self.fault_tab = ev["tab"]
        elif kind == "reqmissing":
            self.send(ev["p"], Rm.msg_id, Rm(ev["k"]))
        elif kind == "attest":
            self.send(ev["p"], At.msg_id, At(u.att[ev["x"]].get_plaintext_signed()))
        else:
            raise MachineryError("unknown event " + kind)
        if len(self.spy.exceptions) - nexc > self.injected - ninj:      # the injected storage error is expected
            self.problems.append("handler raised: " + self.spy.exceptions[-1][-300:])
        self.out = self.decode_out()
        st = self.stats
        st[kind] = st.get(kind, 0) + 1
        if self.injected > ninj:
            st["fault_hit_" + kind] = st.get("fault_hit_" + kind, 0) + 1
            if armed == 1 and kind in ("disc", "miss") and not any(
                    u.w["attSigner"][x - 1] == au for x, au in ev.get("atts", ())):
                self.unrecorded = True          # no piggy-backed attestation was written: the own row's write failed
        if self.unrecorded and self.out["att"]:
            st["signed_after_failed_write"] = st.get("signed_after_failed_write", 0) + 1
            self.unrecorded = False
        if self.out["att"]:
            st["signed"] = st.get("signed", 0) + 1
        if self.out["miss"]:
            st["asked_missing"] = st.get("asked_missing", 0) + 1
        if self.out["toks"]:
            st["handed_tokens"] = st.get("handed_tokens", 0) + 1

    def _index_own(self):
        self.own_pos = {t.get_hash(): i + 1 for i, t in enumerate(self.a.token_chain)}

    # -- outputs
    def decode_out(self):
        """The datagrams that left the node during the last action -> the spec's `out` record."""
        u, a = self.u, self.a
        D, At, Rm, Mr = self.P
        to = 0
        att, toks = [], []
        miss, miss_known = 0, set()
        resp = disc = 0
        for dg in self.sent:
            data = dg.data
            if data[:22] != a._prefix:
                self.problems.append("datagram with a foreign prefix left the node")
                continue
            dst = u.addr_id.get(dg.dst)
            if dst is None:
                self.problems.append("datagram to an unknown address %s" % (dg.dst,))
                continue
            if to not in (0, dst):
                self.problems.append("one action answered two different peers")
            to = dst
            msg_id = data[22]
            auth, _ = a.serializer.unpack_serializable(self.Auth, data, offset=23)
            ok, remainder = a._verify_signature(auth, data)
            if not ok or auth.public_key_bin != u.keybin[0]:
                self.problems.append("outgoing message %d is not signed by the node" % msg_id)
            cls = u.by_id.get(msg_id)
            if cls is None:
                self.problems.append("unexpected message id %d left the node" % msg_id)
                continue
            pl = a.serializer.unpack_serializable_list([cls], remainder, offset=23)[0]
            if cls is At:
                at = u.Attestation.unserialize(pl.attestation, u.pub[0])
                if not at.verify(u.pub[0]):
                    self.problems.append("AttestPayload carries an attestation that is not signed by the node")
                att.append(u.md_id.get(at.metadata_pointer, -1))
            elif cls is Rm:
                miss += 1
                miss_known.add(pl.known)
            elif cls is Mr:
                resp += 1
                toks += self._own_tokens(pl.tokens)
            elif cls is D:
                disc += 1
                toks += self._own_tokens(pl.tokens)
                if pl.attestations or pl.authorities:
                    self.problems.append("request_attestation_advertisement disclosed attestations")
        if len(att) != len(set(att)):
            self.problems.append("the same metadata attested twice within one action")
        if resp > 1 or disc > 1 or len(miss_known) > 1:
            self.problems.append("more responses than one per request")
        if to:
            self.handed[to].update(toks)
        return fd(to=to, att=frozenset(att), miss=miss, missKnown=(miss_known.pop() if miss_known else 0),
                  respSent=resp > 0, discSent=disc > 0, toks=frozenset(toks))

    def _own_tokens(self, blob):
        pk = self.u.pub[0]
        size = 64 + pk.get_signature_length()
        out = []
        for i in range(0, len(blob), size):
            t = self.u.Token.unserialize(blob, pk, offset=i)
            out.append(self.own_pos.get(t.get_hash(), -1))
        return out

    # -- projection of the node's state onto the specification's variables
    def project(self):
        u, a = self.u, self.a
        known = []
        for h in (1, 2):
            e = a.known_attestation_hashes.get(u.hashes[h])
            if e is None:
                known.append(fd(name=0, time=0, subj=0, meta=0))
            else:
                name, t, kb, meta = e
                known.append(fd(name=u.name_id.get(name, -1), time=int(round(t - self.t0)),
                                subj=u.key_id.get(kb, -1),
                                meta=0 if meta is None else u.extra_id.get(json.dumps(meta, sort_keys=True), -1)))
        if set(a.known_attestation_hashes) - set(u.hashes.values()):
            self.problems.append("consent table holds hashes nobody registered")
        els, unch = [], []
        for p in (1, 2, 3):
            ps = a.identity_manager.pseudonyms.get(u.keybin[p])
            if ps is None:
                els.append(frozenset())
                unch.append(frozenset())
                continue
            for h, t in ps.tree.elements.items():
                if t.get_hash() != h:
                    self.problems.append("tree.elements key is not the token hash")
            els.append(frozenset(u.tok_id.get(h, -1) for h in ps.tree.elements))
            unch.append(frozenset(u.tok_id.get(t.get_hash(), -1) for t in ps.tree.unchained))
        db = a.identity_manager.database
        md_tab = set()
        for pkb, ptr, sig, js in db.execute("SELECT public_key, token_pointer, signature, serialized_json_dict "
                                            "FROM Metadata"):
            pkb = bytes(pkb)
            if pkb == u.keybin[0]:
                continue                      # the node's own credentials (self_advertise)
            md_tab.add(u.identify_md(pkb, bytes(ptr), bytes(js), bytes(sig)))
        att_tab = set()
        for pkb, akb, ptr, sig in db.execute("SELECT public_key, authority_key, metadata_pointer, signature "
                                             "FROM Attestations"):
            ptr, sig = bytes(ptr), bytes(sig)
            att_tab.add(fd(subj=u.key_id.get(bytes(pkb), -1), auth=u.key_id.get(bytes(akb), -1),
                           signer=u.signer_of(ptr, sig), md=u.md_id.get(ptr, -1)))
        return {"clock": int(round(u.loop.time() - self.t0)),
                "known": tuple(known), "els": tuple(els), "unch": tuple(unch),
                "mdTab": frozenset(md_tab), "attTab": frozenset(att_tab),
                "chain": len(a.token_chain),
                "perm": tuple(a.permissions.get(u.peers[p], 0) for p in (1, 2, 3)),
                "handed": tuple(frozenset(self.handed[p]) for p in (1, 2, 3)),
                "out": self.out, "fault": self.fault_tab}


def label(name, args):
    return "%s(%s)" % (name, ",".join(str(x) for x in args))


# ---------------------------------------------------------------------------------------------------------------
# binding R
# ---------------------------------------------------------------------------------------------------------------
def check_step(ctx, run, spec_state, labels, where):
    """Compare the node with the TLC state after the last action; report divergences. -> True if it diverged."""
    proj = run.project()
    d = diff_states(spec_state, proj)
    name = labels[-1].split("(")[0]
    if run.problems:
        for p in run.problems:
            ctx.violation("observe:%s:%s" % (name, p.split(":")[0][:60]),
                          "after %s: %s" % (labels[-1], p), {"where": where, "actions": labels})
        run.problems = []
        return True
    if d:
        ctx.violation("replay:%s:%s" % (name, ",".join(sorted(d))),
                      "real IdentityCommunity diverges from Identity.tla after %s: %s%s" % (
                          labels[-1], meaning(d, proj), describe(d)),
                      {"where": where, "actions": labels, "diff": d})
        return True
    return False


def meaning(d, proj=None):
    """The divergence in the words of the property."""
    out = []
    attested_rows = None if proj is None else {r["md"] for r in proj["attTab"] if r["auth"] == 0}
    if "out" in d:
        spec, impl = d["out"]["spec"], d["out"]["impl"]
        if impl["att"] - spec["att"] and attested_rows is not None and not (impl["att"] - spec["att"]) <= attested_rows:
            out.append("an AttestPayload for metadata %s left the node although its Attestations table holds no row "
                       "for it (the write failed): nothing remembers the attestation, a replayed disclosure is "
                       "attested again" % sorted(impl["att"] - spec["att"] - attested_rows))
        elif impl["att"] - spec["att"]:
            out.append("the node signed and sent an attestation for metadata %s without the consent the specification "
                       "requires (registration of hash+subject+name+metadata younger than 300 s, verified chain, not "
                       "attested before)" % sorted(impl["att"] - spec["att"]))
        if spec["att"] - impl["att"]:
            out.append("the node refused an attestation the specification's implementation layer expects")
        if impl["toks"] - spec["toks"]:
            out.append("the node handed out own tokens %s beyond what the peer was permitted" % sorted(
                impl["toks"] - spec["toks"]))
    if "attTab" in d:
        spec, impl = d["attTab"]["spec"], d["attTab"]["impl"]
        extra = [r for r in impl if r not in spec]
        if any(r["signer"] != r["auth"] for r in extra):
            out.append("the node stored an attestation that is not validly signed by its sender/authority")
        elif [r for r in spec if r not in impl]:
            out.append("an attestation row the node must keep (its own signature or a valid one) is missing from the "
                       "Attestations table")
    if "mdTab" in d and any(m == -2 for m in d["mdTab"]["impl"]):
        out.append("the node stored metadata under a pseudonym whose key did not sign it")
    if "els" in d and not out:
        out.append("the token trees the node keeps for its peers differ (tokens accepted or refused differently)")
    return ("; ".join(out) + " -- ") if out else ""


def describe(d):
    parts = []
    for k, v in sorted(d.items()):
        parts.append("%s: spec %s, node %s" % (k, short(v["spec"]), short(v["impl"])))
    return "; ".join(parts)


def short(v):
    from ..common import jsonable
    s = json.dumps(jsonable(v), sort_keys=True)
    return s if len(s) < 400 else s[:400] + "..."


class Job:
    """A TLC run in a background thread with its own scratch directory."""

    def __init__(self, pool, module, cfg, *, dump=False, simulate=None, depth=None, seed=None, coverage=True, env=None,
                 workers=4, files=None, light=False):
        self.tmp = scratch_dir("c17-")
        self.cfg = cfg
        self.dot = os.path.join(self.tmp, "g.dot") if dump else None
        self.simprefix = os.path.join(self.tmp, "b") if simulate else None
        kw = {"coverage": coverage, "workers": workers, "timeout": 3000, "extra": ("-fp", "7")}   # fixed state ids
        if dump:
            kw["dump"] = self.dot
        if simulate:
            kw["simulate"] = "file=%s,num=%d" % (self.simprefix, simulate)
            kw["depth"] = depth
            kw["seed"] = seed
            kw["workers"] = 1
            kw["coverage"] = False
        if light:       # short runs: the JVM's start-up (optimising JIT, GC threads) costs more than the model checking
            kw["java_opts"] = ("-XX:TieredStopAtLevel=1", "-XX:ParallelGCThreads=2")
        if env:
            kw["env"] = env
        if files:
            for name, obj in files.items():
                with open(os.path.join(self.tmp, name), "w", encoding="utf-8") as f:
                    json.dump(obj, f)
                kw.setdefault("env", {})["TRACE_FILE"] = os.path.join(self.tmp, name)
        self.fut = pool.submit(run_tlc, module, cfg, **kw)

    def result(self):
        return self.fut.result()

    def cleanup(self):
        shutil.rmtree(self.tmp, ignore_errors=True)


def replay_graph(ctx, u, job, tag, max_ops=None):
    cfgname = job.cfg
    try:
        r = job.result()
        if not r.ok:
            report_spec_violation(ctx, r, cfgname)
            return r
        ctx.add_tlc(tag, r)
        g = parse_dot(job.dot, keep_vars=KEEP)
    finally:
        job.cleanup()
    g.edges.sort()                 # the order in which TLC's workers wrote the edges must not influence the walks
    g.init.sort()
    g.out = {}
    g.finish()
    nwalks = nedges = 0
    covered = set()
    for init, walk in edge_cover(g, max_ops=max_ops, seed=ctx.seed):
        run = Run(u)
        labels = []
        try:
            for ei in walk:
                _s, name, args, dst = g.edges[ei]
                labels.append(label(name, args))
                run.do(name, args)
                nedges += 1
                covered.add(ei)
                if check_step(ctx, run, g.states[dst], labels, cfgname):
                    break
        finally:
            run.close()
        nwalks += 1
        ctx.nontrivial((cfgname, tuple(labels)))
        if nwalks == 1:
            ctx.sample({"cfg": cfgname, "actions": labels})
        if len(ctx.violations) >= 4:
            break
    u.loop.settle()
    ctx.evaluated(nedges)
    ctx.traces(nwalks)
    ctx.note("replay_" + tag, {"walks": nwalks, "real_operations": nedges, "graph_states": len(g.states),
                               "graph_edges": len(g.edges), "edges_covered": len(covered),
                               "complete_edge_cover": len(covered) == len(g.edges)})
    return r


def replay_simulated(ctx, u, job, tag):
    """Random behaviours of the large configuration (TLC -simulate) executed on the real node."""
    try:
        r = job.result()
        if not r.ok:
            report_spec_violation(ctx, r, job.cfg)
            return
        files = sorted(f for f in os.listdir(job.tmp) if f.startswith("b_"))
        behaviours = [parse_simulate_file(os.path.join(job.tmp, f)) for f in files]
    finally:
        job.cleanup()
    nops = 0
    for beh in behaviours:
        run = Run(u)
        labels = []
        try:
            for name, args, st in beh[1:]:
                labels.append(label(name, args))
                run.do(name, args)
                nops += 1
                if check_step(ctx, run, st, labels, job.cfg + " (simulate)"):
                    break
        finally:
            run.close()
        ctx.nontrivial((job.cfg, tuple(labels)))
        if len(ctx.violations) >= 4:
            break
    u.loop.settle()
    if behaviours:
        ctx.sample({"cfg": job.cfg + " -simulate", "actions": [label(n, a) for n, a, _ in behaviours[0][1:]]})
    ctx.evaluated(nops)
    ctx.traces(len(behaviours))
    ctx.note("replay_" + tag, {"behaviours": len(behaviours), "real_operations": nops})


def report_spec_violation(ctx, r, cfgname):
    """TLC found a property of Identity.tla violated in a configuration that models the code as it should be."""
    acts = [head.split(" line ")[0].strip() for head, _st in r.error_trace[1:]]
    ctx.violation("spec:%s:%s" % (cfgname, r.violated),
                  "Identity.tla (%s) violates %s: %s" % (cfgname, r.violated, acts),
                  {"cfg": cfgname, "violated": r.violated, "actions": acts})


# ---------------------------------------------------------------------------------------------------------------
# binding T: seeded random adversarial sessions recorded on the real node, validated by TLC (IdentityTrace.tla)
# ---------------------------------------------------------------------------------------------------------------
TICKS = (1, 5, 100, 250, 299, 301, 400)
INPUT_KEYS = ("a", "h", "name", "subj", "meta", "d", "p", "mds", "toks", "atts", "k", "x", "tab")


def observation(proj):
    o = proj["out"]
    return {"out": {"to": o["to"], "att": sorted(o["att"]), "miss": o["miss"], "missKnown": o["missKnown"],
                    "respSent": o["respSent"], "discSent": o["discSent"], "toks": sorted(o["toks"])},
            "clock": proj["clock"],
            "known": [dict(k) for k in proj["known"]],
            "els": [sorted(x) for x in proj["els"]], "unch": [sorted(x) for x in proj["unch"]],
            "md": sorted(proj["mdTab"]),
            "att": sorted([r["subj"], r["auth"], r["signer"], r["md"]] for r in proj["attTab"]),
            "chain": proj["chain"], "perm": list(proj["perm"]), "fault": proj["fault"]}


def random_event(u, rng, run, reg_times, clock):
    w = u.w
    ntok, nmd, natt = len(w["tokOwner"]), len(w["mdSigner"]), len(w["attSigner"])
    chain = len(run.a.token_chain)
    x = rng.random()
    if x < 0.16 or not reg_times and x < 0.5:
        if rng.random() < 0.6:
            subj = rng.choice((1, 2))
            t = rng.choice([t for t in range(1, ntok + 1) if w["tokOwner"][t - 1] == subj])
            return {"a": "reg", "h": w["tokHash"][t - 1], "name": 1, "subj": subj, "meta": rng.choice((0, 0, 1, 2))}
        return {"a": "reg", "h": rng.choice((1, 2)), "name": rng.choice((1, 2)), "subj": rng.choice((1, 2, 3)),
                "meta": rng.choice((0, 1, 2))}
    if x < 0.27:
        d = rng.choice(TICKS)
        while any(clock + d - t == 300 for t in reg_times):     # the boundary instant itself is left open
            d += 1
        return {"a": "tick", "d": d}
    if x < 0.70:
        if rng.random() < 0.45:
            p = rng.choice((1, 2))
            mine = [t for t in range(1, ntok + 1) if w["tokOwner"][t - 1] == p]
            toks = mine[:rng.randint(1, len(mine))]
            if rng.random() < 0.25:
                toks.reverse()
            if rng.random() < 0.2:
                toks = toks[1:]
            mds = [m for m in range(1, nmd + 1) if w["mdSigner"][m - 1] == p and rng.random() < 0.45]
            rng.shuffle(mds)
            atts = []
            if rng.random() < 0.3:
                xa = rng.randint(1, natt)
                atts = [[xa, w["attSigner"][xa - 1] if rng.random() < 0.8 else rng.randint(0, 3)]]
            return {"a": "disc", "p": p, "mds": mds, "toks": toks, "atts": atts}
        return {"a": "disc", "p": rng.choice((1, 2, 3)),
                "mds": [rng.randint(1, nmd) for _ in range(rng.choice((0, 1, 1, 2, 3)))],
                "toks": [rng.randint(1, ntok) for _ in range(rng.choice((0, 1, 2, 2, 3, 4)))],
                "atts": [[rng.randint(1, natt), rng.randint(0, 3)] for _ in range(rng.choice((0, 0, 1, 2)))]}
    if x < 0.80:
        return {"a": "miss", "p": rng.choice((1, 2, 3)),
                "toks": [rng.randint(1, ntok) for _ in range(rng.choice((0, 1, 2, 3)))]}
    if x < 0.86 and chain < MAX_OWN:
        return {"a": "selfadv"}
    if x < 0.91 and chain < MAX_OWN:
        return {"a": "reqadv", "p": rng.choice((1, 2, 3))}
    if x < 0.95:
        return {"a": "reqmissing", "p": rng.choice((1, 2, 3)), "k": rng.choice((0, 0, 1, 2, rng.randint(0, chain + 2)))}
    if x < 0.975:
        return {"a": "fault", "tab": rng.choice((1, 1, 2))}
    return {"a": "attest", "p": rng.choice((1, 2, 3)), "x": rng.randint(1, natt)}


def failed_write_opening(u, rng):
    """Scenario family 'history, failed write, replay': a consented disclosure meets a storage fault, then the very
    same disclosure comes again (and again after another fault, or after the registration was renewed)."""
    w = u.w
    t = rng.choice(sorted(u.honest))
    p = w["tokOwner"][t - 1]
    chain = [t]
    while w["tokPar"][chain[0] - 1]:
        chain.insert(0, w["tokPar"][chain[0] - 1])
    mds = [u.honest[t]] + ([u.honest[chain[0]]] if len(chain) > 1 and rng.random() < 0.5 else [])
    reg = {"a": "reg", "h": w["tokHash"][t - 1], "name": 1, "subj": p, "meta": rng.choice((0, 0, 1))}
    disc = {"a": "disc", "p": p, "mds": mds, "toks": chain, "atts": []}
    evs = [reg]
    if len(mds) > 1:
        evs.append({"a": "reg", "h": w["tokHash"][chain[0] - 1], "name": 1, "subj": p, "meta": 0})
    if rng.random() < 0.3:
        evs.append(dict(disc, toks=chain[-1:]))            # the chain arrives child first ...
        evs.append({"a": "fault", "tab": rng.choice((1, 2))})
        evs.append({"a": "miss", "p": p, "toks": chain[:-1]})   # ... and is completed while the write fails
    else:
        evs.append({"a": "fault", "tab": rng.choice((1, 1, 1, 2))})
        evs.append(dict(disc))
    evs.append(dict(disc))
    if rng.random() < 0.5:
        evs.append({"a": "fault", "tab": 1})
    if rng.random() < 0.5:
        evs.append({"a": "tick", "d": rng.choice((1, 5, 100))})
        evs.append(dict(reg))
    evs.append(dict(disc))
    return evs


def record_sessions(ctx, u, rng, count, length, owner_heavy_every=5):
    sessions = []
    for si in range(count):
        run = Run(u)
        events, reg_times, clock = [], [], 0
        try:
            if si % owner_heavy_every == owner_heavy_every - 1:
                # a long own chain first: exercises the packet limits of disclosures and missing responses
                for _ in range(rng.randint(9, 13)):
                    events.append(run_event(run, {"a": "selfadv"}))
                events.append(run_event(run, {"a": "reqadv", "p": rng.choice((1, 2))}))
            elif si % 3 == 1:
                for ev in failed_write_opening(u, rng):
                    if ev["a"] == "reg":
                        reg_times.append(clock)
                    elif ev["a"] == "tick":
                        clock += ev["d"]
                    events.append(run_event(run, ev))
            while len(events) < length:
                ev = random_event(u, rng, run, reg_times, clock)
                if ev["a"] == "reg":
                    reg_times.append(clock)
                elif ev["a"] == "tick":
                    clock += ev["d"]
                events.append(run_event(run, ev))
                if run.problems:
                    break
            if run.problems:
                for p in run.problems:
                    ctx.violation("observe:%s:%s" % (events[-1]["a"], p.split(":")[0][:60]),
                                  "recorded session, after event %d (%s): %s" % (len(events), events[-1]["a"], p),
                                  {"events": events})
        finally:
            run.close()
        sessions.append({"events": events})
    u.loop.settle()
    return sessions


def run_event(run, ev):
    run.apply(ev)
    ev = dict(ev)
    ev.update(observation(run.project()))
    return ev


def submit_sessions(pool, sessions):
    return Job(pool, "IdentityTrace.tla", "IdentityTrace.cfg", coverage=False, workers=1,
               files={"traces.json": sessions}, light=len(sessions) < 200)


def rejected(job):
    try:
        return not job.result().ok
    finally:
        job.cleanup()


def collect_sessions(ctx, pool, job, sessions, tag):
    try:
        r = job.result()
    finally:
        job.cleanup()
    ctx.add_tlc(tag, r)
    if not r.ok:
        last = r.error_trace[-1][1] if r.error_trace else {}
        tid, l = last.get("tid"), last.get("l")
        bad = sessions[tid - 1]["events"] if isinstance(tid, int) else None
        inv = r.violated
        at = l if inv == "TraceAccepted" else (l - 1 if isinstance(l, int) else l)
        ev = bad[at - 1] if bad and isinstance(at, int) and 0 < at <= len(bad) else None
        why = ""
        if ev is not None and inv == "TraceAccepted":
            why = expected_vs_logged(pool, bad[:at])
        ctx.violation("trace:%s:%s" % (inv, ev["a"] if ev else "?"),
                      "recorded session is not a behaviour of Identity.tla (%s) at event %s %s: %s" % (
                          inv, at, short({k: v for k, v in (ev or {}).items() if k in INPUT_KEYS}), why or short(ev)),
                      {"events": bad[:at] if bad and isinstance(at, int) else bad,
                       "event_index": at, "violated": inv})
    else:
        ctx.traces(len(sessions))
        ctx.evaluated(sum(len(t["events"]) for t in sessions))
        for t in sessions:
            ctx.nontrivial(("session", json.dumps([[e["a"], e.get("p"), e.get("mds"), e.get("toks"), e.get("atts"),
                                                    e.get("h"), e.get("d"), e.get("k")] for e in t["events"]])))
    return r.ok


def expected_vs_logged(pool, events):
    """Diagnosis of a rejected event: let TLC apply the logged inputs and compare its state with the logged one."""
    job = Job(pool, "IdentityTrace.tla", "IdentityTrace_expect.cfg", coverage=False, workers=1,
              files={"traces.json": [{"events": events}]}, light=True)
    try:
        r = job.result()
    except MachineryError:
        return ""
    finally:
        job.cleanup()
    if r.violated != "NotDone" or not r.error_trace:
        return ""
    st = r.error_trace[-1][1]
    e = events[-1]
    o = e["out"]
    logged = {"out": fd(to=o["to"], att=frozenset(o["att"]), miss=o["miss"], missKnown=o["missKnown"],
                        respSent=o["respSent"], discSent=o["discSent"], toks=frozenset(o["toks"])),
              "clock": e["clock"], "known": tuple(FrozenDict(k) for k in e["known"]),
              "els": tuple(frozenset(x) for x in e["els"]), "unch": tuple(frozenset(x) for x in e["unch"]),
              "mdTab": frozenset(e["md"]),
              "attTab": frozenset(fd(subj=r_[0], auth=r_[1], signer=r_[2], md=r_[3]) for r_ in e["att"]),
              "chain": e["chain"], "perm": tuple(e["perm"]), "fault": e["fault"]}
    d = diff_states(st, logged)
    return (meaning(d, logged) + describe(d)) if d else ""


def corrupted(u, sessions, how):
    """One session with one logged field altered - TLC must reject it."""
    import copy
    for s in sessions:
        evs = s["events"]
        for i, e in enumerate(evs):
            if how == "drop-attest" and e["out"]["att"]:
                c = copy.deepcopy(evs[:i + 1])
                c[i]["out"]["att"] = c[i]["out"]["att"][1:]
                if not c[i]["out"]["att"] and not c[i]["out"]["miss"]:
                    c[i]["out"]["to"] = 0
                return [{"events": c}]
            if how == "unconsented-attest" and e["a"] == "disc" and not e["out"]["att"] and e["md"]:
                c = copy.deepcopy(evs[:i + 1])
                m = c[i]["md"][0]
                c[i]["out"]["att"] = [m]
                c[i]["out"]["to"] = e["p"]
                row = [e["p"], 0, 0, m]
                if row in c[i]["att"]:
                    continue
                c[i]["att"] = sorted(c[i]["att"] + [row])
                return [{"events": c}]
            if how == "token-beyond-permission" and e["a"] == "reqmissing" and e["chain"] > e["perm"][e["p"] - 1]:
                c = copy.deepcopy(evs[:i + 1])
                c[i]["out"]["toks"] = sorted(set(c[i]["out"]["toks"]) | {e["chain"]})
                c[i]["out"]["to"] = e["p"]
                c[i]["out"]["respSent"] = True
                return [{"events": c}]
            if how == "sent-unrecorded" and e["a"] in ("disc", "miss") and i > 0 and evs[i - 1]["fault"] == 1 \
                    and e["fault"] == 0 and e["md"] and not e["out"]["att"]:
                c = copy.deepcopy(evs[:i + 1])          # the packet is logged although the write failed
                c[i]["out"]["att"] = [c[i]["md"][0]]
                c[i]["out"]["to"] = e["p"]
                return [{"events": c}]
            if how == "stores-foreign-attestation" and e["a"] == "attest" and \
                    u.w["attSigner"][e["x"] - 1] != e["p"]:
                c = copy.deepcopy(evs[:i + 1])
                c[i]["att"] = sorted(c[i]["att"] + [[0, e["p"], u.w["attSigner"][e["x"] - 1],
                                                     u.w["attMd"][e["x"] - 1]]])
                return [{"events": c}]
    return None


def replay_file(ctx, u, path):
    """./check C17 --replay <file>: re-execute the recorded actions on the real node and show what it does."""
    with open(path, encoding="utf-8") as f:
        rep = json.load(f)["replay"]
    run = Run(u)
    try:
        if rep.get("events"):
            for e in rep["events"]:
                run.apply({k: v for k, v in e.items() if k in INPUT_KEYS})
                print(e["a"], "->", short(run.out), run.problems)
        else:
            for lab in rep.get("actions", []):
                name, _, rest = lab.partition("(")
                args = tuple(int(x) for x in rest.rstrip(")").split(",") if x)
                run.do(name, args)
                print(lab, "->", short(run.out), run.problems)
        print("final state:", short(run.project()))
    finally:
        run.close()
    return 0


def run(tier, seed, replay=None):
    import asyncio
    from concurrent.futures import ThreadPoolExecutor
    setup_repo_path()
    from .. import vloop
    import ipv8.attestation.identity.community  # noqa: F401  (imported before the clock is bound)
    import ipv8.overlay as ov
    loop = vloop.VLoop()
    asyncio.set_event_loop(loop)
    vloop.patch_ipv8_time(loop)        # the node's clock; time.time itself stays real (wall times of the evidence)
    ov.get_providers = lambda: []
    ctx = Ctx(PID, tier, seed, "model_checking")
    ctx.cov["rule"] = ("TLC enumerates registrations x disclosures (honest, wrong key, wrong name, extra metadata, "
                       "dangling / foreign / reordered tokens, piggy-backed attestations, replays) x clock steps x "
                       "token requests and incoming attestations x storage faults (a failed INSERT into the Attestations "
                       "or Metadata table before any of them, then replays); every transition of the dumped state graphs (edge "
                       "cover; a seeded sample in the quick tier), TLC-simulated behaviours of the large configuration "
                       "and recorded random sessions are executed on a real IdentityCommunity node and the datagrams "
                       "leaving it plus its tables compared with the TLC state; non-trivial = distinct action "
                       "sequences executed on the real node")
    ctx.assumptions += ["signature primitives of the key vault are trusted (used to build the peers' objects and to "
                        "identify who signed a stored row)",
                        "the instant 'exactly 300 s after the registration' is not exercised (299 and 301 are)",
                        "fewer than 100 tokens wait in a pseudonym's tree (no eviction from TokenTree.unchained)",
                        "well-formed messages only (malformed encodings belong to C03)",
                        "a storage fault is the INSERT statement into the Attestations or Metadata table raising "
                        "sqlite3.OperationalError once (harness wrapper on the node's database instance); failing "
                        "commit() calls, faults on the Tokens table and crashes (C19) are not exercised here"]
    rng = random.Random(seed)
    u = Universe(load_catalogue(), loop, seed)
    if replay:
        return replay_file(ctx, u, replay)
    quick = tier == "quick"
    pool = ThreadPoolExecutor(max_workers=12 if quick else 5)
    try:
        graphs = {name: Job(pool, "IdentityMC.tla", "Identity_%s.cfg" % name, dump=True, workers=2 if quick else 4,
                            light=quick)
                  for name in GRAPHS}
        sim = Job(pool, "IdentityMC.tla", "Identity_big.cfg", simulate=60 if quick else 4000, depth=16, seed=seed + 1,
                  light=quick)
        ctl = {name: Job(pool, "IdentityMC.tla", "Identity_ctl_%s.cfg" % name, coverage=False, workers=1, light=True)
               for name in ("already", "pk", "subject", "perm", "commit", "record")}      # needed last: queued last
        mc = None if quick else Job(pool, "IdentityMC.tla", "Identity_mc.cfg", workers=8)

        # binding T first (the TLC jobs are running meanwhile)
        import time as _time
        phases, t_ph = {}, _time.time()
        sessions = record_sessions(ctx, u, rng, 60 if quick else 2500, 22 if quick else 26)
        ctx.sample({"recorded_session_first_events": [{k: v for k, v in e.items() if k in (
            "a", "p", "mds", "toks", "atts", "h", "name", "subj", "meta", "d", "k", "x", "out")}
            for e in sessions[0]["events"][:4]]})
        tjob = submit_sessions(pool, sessions) if not ctx.violations else None
        phases["record_sessions"] = round(_time.time() - t_ph, 1)

        # binding R
        budget = 2500 if quick else None
        coverage = {}
        for name in GRAPHS:
            if len(ctx.violations) >= 4:
                graphs[name].cleanup()
                continue
            t_ph = _time.time()
            r = replay_graph(ctx, u, graphs[name], name, max_ops=QUICK_BUDGET.get(name, budget) if quick else None)
            phases["graph_" + name] = round(_time.time() - t_ph, 1)
            for k, v in r.coverage.items():
                coverage[k] = coverage.get(k, 0) + v[1]
        if len(ctx.violations) < 4:
            replay_simulated(ctx, u, sim, "simulate")
        else:
            sim.cleanup()
        tjob_ok = collect_sessions(ctx, pool, tjob, sessions, "trace") if tjob is not None else False
        if mc is not None:
            r = mc.result()
            mc.cleanup()
            if not r.ok:
                report_spec_violation(ctx, r, "Identity_mc.cfg")
            else:
                ctx.add_tlc("mc", r)
        ctx.cov["exhaustive"] = not quick

        # vacuity: every action of the specification was taken by TLC, and the interesting outcomes were observed
        if not ctx.violations:
            missing = [a for a in ACTIONS if not coverage.get(a)]
            if missing:
                raise MachineryError("spec actions never taken by TLC: %s" % missing)
            for k in ("signed", "asked_missing", "handed_tokens", "reg", "tick", "disc", "miss", "selfadv", "reqadv",
                      "reqmissing", "attest", "fault", "fault_hit_disc", "fault_hit_miss", "fault_hit_attest",
                      "fault_hit_selfadv", "fault_hit_reqadv", "signed_after_failed_write"):
                if not u.stats.get(k):
                    raise MachineryError("vacuous binding: no real step of kind %r was observed" % k)
        ctx.note("real_steps", dict(sorted(u.stats.items())))
        ctx.note("wall_s_phases", phases)

        # negative controls: specification level (one defect switch each)
        want = {"already": "SignsOnlyConsented", "pk": "SignsOnlyConsented", "subject": "SignsOnlyConsented",
                "perm": "TokensOnlyUpToPermitted", "commit": "SignsOnlyConsented", "record": "SentOnlyRecorded"}
        text = {"already": "spec with the pinned already-attested comparison (never matches) violates SignsOnlyConsented",
                "pk": "spec with the pinned Attestations key (subject, metadata) violates SignsOnlyConsented",
                "subject": "spec without the subject-key comparison violates SignsOnlyConsented",
                "perm": "spec ignoring the permission index violates TokensOnlyUpToPermitted",
                "commit": "spec sending the AttestPayload before the row is written violates SignsOnlyConsented "
                          "(failed write, replayed disclosure attested again)",
                "record": "spec sending the AttestPayload before the row is written violates SentOnlyRecorded"}
        for name, job in ctl.items():
            try:
                r = job.result()
            finally:
                job.cleanup()
            ctx.control(text[name], r.violated == want[name])
        # negative controls: trace level (one logged field altered)
        if tjob_ok:
            pending = []
            for how, what in (("drop-attest", "session with one AttestPayload removed from the log is rejected"),
                              ("unconsented-attest", "session logging an attestation the spec does not allow is rejected"),
                              ("token-beyond-permission", "session logging a token beyond the permission is rejected"),
                              ("sent-unrecorded",
                               "session logging an AttestPayload at a step whose Attestations write failed is rejected"),
                              ("stores-foreign-attestation",
                               "session logging a stored attestation not signed by its sender is rejected")):
                bad = corrupted(u, sessions, how)
                if bad is None:
                    if how in ("drop-attest", "unconsented-attest", "sent-unrecorded"):
                        raise MachineryError("no recorded session offers a place for the control %r" % how)
                    continue
                pending.append((what, submit_sessions(pool, bad)))
            for what, job in pending:
                ctx.control(what, rejected(job))
    finally:
        pool.shutdown(wait=True, cancel_futures=True)
    return ctx.finish()
