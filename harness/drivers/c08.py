"""C08 - circuit hops are only keyed with the peer the originator chose.
Onion.tla (symbolic DH: session key = [initiator ephemeral, responder ephemeral, responder static]) model-checked with
every manipulation of created / extended answers; real handshakes with a real adversarial responder (real DH, an auth
that is correct for a substituted ephemeral key), operational key-agreement probes, executions validated by TLC."""
from __future__ import annotations

from ..common import Ctx, setup_repo_path
from .. import onion_check as K
from .. import onion_runs as R

PID = "C08"
NONTRIVIAL = {"MangleAnswer", "Dup", "RetryTimeout"}
HOWS = ("ident", "cid", "eph", "ephauth", "auth", "cands")


def key_probe(ctx, w, where):
    """operational key agreement on the REAL keys: every hop key of every circuit is held by the selected peer (and
    by nobody else); a probe encrypted by the originator decrypts with the peer's entry"""
    by_key = {}
    for nm in w.names:
        ov = w.ov[nm]
        for e in list(ov.relay_from_to.values()) + list(ov.exit_sockets.values()):
            if e.hop.keys is not None:
                by_key.setdefault(bytes(e.hop.keys.key_forward), set()).add(nm)
    probes = 0
    for o in w.names:
        for c in w.ov[o].circuits.values():
            for i, hop in enumerate(c.hops):
                who = w.name_of_peer(hop.peer)
                holders = by_key.get(bytes(hop.keys.key_forward), set())
                probes += 1
                if holders - {who}:
                    ctx.violation("probe:foreign-holder", "hop %d key of a circuit of %s (selected peer %s) is also held by %s (%s)"
                                  % (i + 1, o, who, sorted(holders - {who}), where), {"where": where})
                for ak in w.adv_keys:
                    if bytes(ak.key_forward) == bytes(hop.keys.key_forward):
                        ctx.violation("probe:attacker-holds-key", "the attacker derived the session key the originator accepted for "
                                      "hop %d (%s)" % (i + 1, where), {"where": where})
                if holders:
                    blob = hop.keys.encrypt_str(b"probe", 0)
                    peer_entry = next(e for nm in holders for e in list(w.ov[nm].relay_from_to.values()) +
                                      list(w.ov[nm].exit_sockets.values())
                                      if e.hop.keys is not None and bytes(e.hop.keys.key_forward) == bytes(hop.keys.key_forward))
                    if peer_entry.hop.keys.decrypt_str(blob, 0) != b"probe":
                        ctx.violation("probe:no-agreement", "probe cell does not decrypt at the selected peer (%s)" % where, {})
    return probes


def install_probe(ctx):
    """probe the real keys whenever a hop was added anywhere (the circuit may be gone again later)"""
    seen = {}

    def on_step(w, ev):
        n = sum(len(c.hops) for o in w.names for c in w.ov[o].circuits.values())
        if seen.get(id(w)) != n:
            seen[id(w)] = n
            key_probe(ctx, w, "%s seed-world after %s" % (ev["a"], {k: v for k, v in ev.items() if k not in ("post", "now")}))
    R.ON_STEP = on_step


def scripted_mangle(ctx, seed, goal, hop, how, dup):
    """build a circuit; when the answer for hop `hop` is in flight as a plaintext created cell, manipulate it"""
    w = R.world("line4", seed)
    try:
        w.create_circuit("o", goal)
        done = False
        for _ in range(300):
            if not w.net.inflight:
                if done and w.now_ms() > 75000:
                    break
                if w.fire_next_timer() is None:
                    break
                continue
            d = w.net.inflight[0]
            desc = w.describe(d)
            is_created = desc["t"] == "cell" and desc["plain"] and len(d.data) > 29 and d.data[29] == 3
            if is_created and not done:
                seen = sum(1 for e in w.events if e["a"] == "MangleAnswer")
                answers = sum(1 for x in w.net.wire if len(x.data) > 29 and x.data[22] == 0 and x.data[27] != 0 and x.data[29] == 3)
                if answers >= hop:
                    if dup:
                        w.dup(d.seq)
                    w.mangle_answer(d.seq, how)
                    done = True
            w.deliver(d.seq)
        tr = {"events": w.events, "topology": "line4", "seed": seed, "profile": "mangle g%d h%d %s%s" % (goal, hop, how, "+dup" if dup else "")}
        K.check_escapes(ctx, w, tr, "mangle")
        key_probe(ctx, w, tr["profile"])
        return tr, w.header()
    finally:
        w.close()


def scripted_late_answer(ctx, seed, goal, hop, topology="line4", after=False):
    """the answer for hop `hop` is held back until the originator's retry time-out has fired (it retries with another
    candidate or gives up), then it arrives: an answer from an earlier attempt must not be accepted"""
    w = R.world(topology, seed)
    try:
        w.create_circuit("o", goal)
        held = None
        for _ in range(400):
            pending = [d for d in w.net.inflight if held is None or d.seq != held.seq]
            if held is None:
                for d in w.net.inflight:
                    desc = w.describe(d)
                    if desc["t"] == "cell" and desc["plain"] and len(d.data) > 29 and d.data[29] == 3:
                        answers = sum(1 for x in w.net.wire if len(x.data) > 29 and x.data[22] == 0 and x.data[27] != 0
                                      and x.data[29] == 3)
                        if answers >= hop:
                            held = d
                            break
                if held is not None:
                    continue
            retried = any(e["a"] == "RetryTimeout" for e in w.events)
            if held is not None and retried and any(x.seq == held.seq for x in w.net.inflight) and not (after and pending):
                # the late answer overtakes whatever the retry has sent / (after) arrives when the retry has gone through,
                # at the same instant (the joined node's own 10 s cache of the abandoned attempt is still there)
                w.deliver(held.seq)
                held = type("gone", (), {"seq": -1})()
                continue
            if pending:
                w.deliver(pending[0].seq)
                continue
            if w.now_ms() > 90000 or w.fire_next_timer() is None:
                break
        tr = {"events": w.events, "topology": topology, "seed": seed,
              "profile": "late-answer g%d h%d%s" % (goal, hop, " after" if after else "")}
        K.check_escapes(ctx, w, tr, "late-answer")
        return tr, w.header()
    finally:
        w.close()


def scripted_dup_create(ctx, seed, goal, hop, order):
    """nodes whose should_join_circuit really suspends (the async extension point): the create for hop `hop` is
    duplicated, both on_create tasks pass the guards and wait; they are resumed in the given order. Whatever the
    joined node ends up with must be the keys of the answer the originator accepts."""
    w = R.world("line4", seed, suspend_join=True)
    try:
        w.create_circuit("o", goal)
        creates = 0
        for _ in range(300):
            if w.net.inflight:
                d = w.net.inflight[0]
                is_create = len(d.data) > 29 and d.data[22] == 0 and d.data[27] != 0 and d.data[29] == 2
                if is_create:
                    creates += 1
                    if creates == hop:
                        w.dup(d.seq)
                        twin = w.net.inflight[-1]
                        w.deliver(d.seq)
                        w.deliver(twin.seq)
                        held = [(n, w.cid(rc), k) for n, rc, k, _f in w.held_joins]
                        for n, c, k in (held if order == 0 else held[::-1]):
                            w.join_resume(n, c, k)
                        continue
                w.deliver(d.seq)
                continue
            if w.held_joins:
                n, rc, k, _f = w.held_joins[0]
                w.join_resume(n, w.cid(rc), k)
                continue
            ready = [c for c in w.ov["o"].circuits.values() if c.state == "READY"]
            if ready or w.now_ms() > 30000 or w.fire_next_timer() is None:
                break
        for c in list(w.ov["o"].circuits.values()):
            if c.state == "READY":
                w.send_data("o", w.cid(c.circuit_id), 1)
        for _ in range(40):
            if w.net.inflight:
                w.deliver(w.net.inflight[0].seq)
            elif w.held_joins:
                n, rc, k, _f = w.held_joins[0]
                w.join_resume(n, w.cid(rc), k)
            else:
                break
        tr = {"events": w.events, "topology": "line4", "seed": seed,
              "profile": "dup-create g%d h%d order %d" % (goal, hop, order)}
        K.check_escapes(ctx, w, tr, "dup-create")
        key_probe(ctx, w, tr["profile"])
        return tr, w.header()
    finally:
        w.close()


def run(tier, seed, replay=None):
    setup_repo_path()
    ctx = Ctx(PID, tier, seed, "model_checking")
    ctx.cov["rule"] = ("TLC explores Onion.tla handshakes with <= 2 manipulations (wrong identifier, other circuit id, substituted "
                       "ephemeral key with and without a correct auth, flipped auth / candidates, duplicates, retries after "
                       "time-out); the same manipulations are applied to real plaintext created cells at every hop position "
                       "with real DH; TLC validates each execution (NoForeignKey, KeyAgreement, AnswerMustMatch, hops immutable) "
                       "and the harness probes the real session keys; non-trivial = distinct executions with a manipulation")
    if replay and K.replay_file(ctx, PID, replay, NONTRIVIAL):
        return ctx.finish()
    ctx.assumptions += ["X25519 / HMAC / HKDF idealised in the spec; the probe compares real key bytes",
                        "encrypted extended answers cannot be rewritten by a network attacker (only the plaintext created leg)",
                        "a malicious relay ON the path is represented by manipulations of the created it forwards"]
    install_probe(ctx)
    bg = K.Background(["Onion_c08_a.cfg", "Onion_c08_b.cfg", "Onion_c08_t.cfg", "Onion_c08_a3.cfg", "Onion_c08_late_q.cfg", "Onion_c08_susp.cfg"] +
                      (["Onion_c08_late.cfg", "Onion_c08_cands.cfg"] if tier == "thorough" else []),
                      [("Onion_c08_noident.cfg", "AnswerMustMatch",
                        "spec without the identifier comparison accepts a stale answer (AnswerMustMatch violated)"),
                       ("Onion_c08_socketfirst.cfg", "EntriesStable",
                        "spec whose join installs the exit socket before the cache refuses the duplicate lets a duplicated "
                        "create re-key a joined hop while the admission decision is suspended (EntriesStable violated)"),
                       ("Onion_c08_nocandsguard.cfg", "HopByRightAnswer",
                        "spec in which an answer with an undecodable candidate list leaves the previous step's retry cache behind "
                        "(the code before the fix) lets the retry add a directly keyed node as second hop (HopByRightAnswer)"),
                       ("Onion_c08_norelayonce.cfg", "PathAgreement",
                        "spec in which a created may re-point a circuit that already is a relay (the code before the fix) lets a "
                        "late answer of an abandoned attempt change an established hop (PathAgreement violated)")])
    base = seed * 1000
    n = 4 if tier == "quick" else 16
    ok, traces, hdr = K.random_family(ctx, PID, "line4", "handshake", range(base, base + n), 220 if tier == "quick" else 500,
                                      NONTRIVIAL)
    if ok:
        with_hop = [t for t in traces if any(c["hops"] for e in t["events"] for c in e["post"]["circ"].get("o", []))]
        if not with_hop:      # every handshake of these seeds was spoilt: take an undisturbed run for the control
            t0, w0 = R.random_run("line4", base, "honest", 80)
            with_hop, hdr = [t0], w0.header()
        K.trace_control(ctx, "trace in which the originator's hop list names another peer is rejected", with_hop, "line4", hdr,
                        _swap_hop)
    scr, hdr2 = [], None
    combos = [(3, h, how, False) for h in (1, 2, 3) for how in HOWS]
    if tier == "thorough":
        combos += [(g, h, how, True) for g in (1, 2, 3) for h in range(1, g + 1) for how in HOWS]
    else:
        combos += [(2, 2, "ephauth", True), (1, 1, "ident", True), (3, 1, "cands", True), (3, 2, "cands", True)]
    for i, (goal, hop, how, dup) in enumerate(combos):
        tr, hdr2 = scripted_mangle(ctx, seed * 100 + i, goal, hop, how, dup)
        scr.append(tr)
    K.validate_family(ctx, PID, scr, "line4", hdr2, "mangle-every-position", NONTRIVIAL)
    late = []
    for i, (goal, hop) in enumerate([(1, 1), (2, 1), (2, 2), (3, 2), (3, 3)] if tier == "quick" else
                                    [(g, h) for g in (1, 2, 3) for h in range(1, g + 1)] * 3):
        tr, hdr3 = scripted_late_answer(ctx, seed * 100 + 50 + i, goal, hop)
        late.append(tr)
    K.validate_family(ctx, PID, late, "line4", hdr3, "late-answer", NONTRIVIAL | {"Deliver"})
    # an answer whose candidate list was altered, with a second first-hop candidate to retry with, until the time-outs are over
    cr = []
    for i, goal in enumerate((2, 3)):
        t = R.TOPOLOGIES["line4"]
        from ..onion import OnionWorld
        w = OnionWorld(seed=seed * 100 + 70 + i, names=t["names"], exits=t["exits"], origins=t["origins"],
                       first={n: ["r1", "r2"] for n in t["names"]})
        w.on_step = R.ON_STEP
        try:
            w.create_circuit("o", goal)
            w.deliver(w.net.inflight[0].seq)
            w.mangle_answer(w.net.inflight[0].seq, "cands" if i == 0 else "candkey")
            w.deliver(w.net.inflight[0].seq)
            w.run_until(25000)
            tr = {"events": w.events, "topology": "line4", "seed": seed,
                  "profile": "%s-then-retry g%d" % ("cands" if i == 0 else "candkey", goal)}
            K.check_escapes(ctx, w, tr, "cands-then-retry")
            cr.append(tr)
            hdr_c = w.header()
        finally:
            w.close()
    K.validate_family(ctx, PID, cr, "line4", hdr_c, "cands-then-retry", NONTRIVIAL)
    # with a second exit the retry succeeds: the abandoned attempt's answer meets an established hop
    late2 = []
    for i, (goal, hop, after) in enumerate([(2, 2, True), (3, 3, True), (2, 2, False), (3, 2, True)] if tier == "quick" else
                                           [(g, h, a) for g in (2, 3) for h in range(2, g + 1) for a in (True, False)] * 3):
        tr, hdr4 = scripted_late_answer(ctx, seed * 100 + 80 + i, goal, hop, "two_exits", after)
        late2.append(tr)
    K.validate_family(ctx, PID, late2, "two_exits", hdr4, "late-answer-retried", NONTRIVIAL | {"Deliver"})
    # the admission decision really suspends: duplicated creates at every hop position, both resume orders
    susp = []
    for i, (goal, hop, order) in enumerate([(1, 1, 0), (2, 2, 1), (3, 2, 0), (3, 3, 1)] if tier == "quick" else
                                           [(g, h, o) for g in (1, 2, 3) for h in range(1, g + 1) for o in (0, 1)]):
        tr, hdr5 = scripted_dup_create(ctx, seed * 100 + 90 + i, goal, hop, order)
        susp.append(tr)
    # an application's own admission policy (should_join_circuit overridden without super()): creates for the ids of
    # established hops, before and after the joined node's 60 s cache has gone, must not re-key them
    from .c05 import scripted_id_reuse
    w = R.world("line4", seed * 100 + 97, suspend_join="own")
    w.auto_resume = True
    try:
        gone = K.guarded(w, scripted_id_reuse, w, "o", 2)
        tr = {"events": w.events, "topology": "line4", "seed": seed, "profile": "own-admission id reuse", "aborted": gone}
        K.check_escapes(ctx, w, tr, "own-admission")
        key_probe(ctx, w, tr["profile"])
        susp.append(tr)
    finally:
        w.close()
    K.validate_family(ctx, PID, susp, "line4", hdr5, "suspended-join", NONTRIVIAL | {"JoinResume"}, suspend_join=True)
    ctx.note("scripted", {"runs": len(scr), "manipulations": sum(1 for t in scr for e in t["events"] if e["a"] == "MangleAnswer")})
    bg.collect(ctx)
    return ctx.finish()


def _swap_hop(t):
    for e in t["events"]:
        for c in e["post"]["circ"].get("o", []):
            if c["hops"]:
                c["hops"][0] = "r2" if c["hops"][0] != "r2" else "r1"
                return
    raise RuntimeError("no hop in the control trace")
