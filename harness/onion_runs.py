"""Scenario generation for the tunnel checks: seeded random / scripted drivers over harness/onion.py worlds and
TLC validation of the recorded traces against specs/OnionTrace.tla."""
from __future__ import annotations

import json
import os
import random
import shutil

from .onion import OnionWorld
from .tlc import MachineryError, run_tlc, scratch_dir

TOPOLOGIES = {
    "line4": dict(names=("o", "r1", "r2", "x"), exits=("x",), origins=("o",)),
    "two_origins": dict(names=("o", "o2", "r1", "r2", "x"), exits=("x",), origins=("o", "o2")),
    "two_exits": dict(names=("o", "o2", "r1", "r2", "x", "x2"), exits=("x", "x2"), origins=("o", "o2")),
}

CFG_TEMPLATE = """SPECIFICATION TraceSpec
CONSTANTS
 Node = {%(nodes)s}
 Adv = "adv"
 Flags <- FlagsT
 Cands <- CandsT
 FirstHops <- FirstT
 MaxJoined = %(max_joined)d
 MaxEarly = %(max_early)d
 Tries = 6
 NextHop = 10000 Unstable = 60000 CacheTO = 10000 Inactive = 20000 RemoveDelay = 5000 SweepEvery = 5000 PingEvery = 7500
 MaxTime = 3600000
 CreateGuard = %(create_guard)s
 MaxCircuits = 1000 MaxData = 100000 MaxLoss = 100000 MaxDup = 100000 MaxAdv = 100000 MaxNow = 2000000000
 Goals = {1, 2, 3}
 Origins = {%(origins)s}
 AdvKinds = {}
 NodeRank <- RankT
 AdvSrcs = {"adv"}
 TrackWire = %(track_wire)s
 UseIds = TRUE
 NodeTeardown = TRUE
 MayVanish = TRUE
 SweepRelays = TRUE
 TestCells = TRUE
 E2E = TRUE
 Aead = TRUE
 CheckIdent = TRUE
 RelayOnce = TRUE
 CandsGuard = TRUE
 DataGuard = TRUE
 SuspendJoin = %(suspend_join)s
 JoinCacheFirst = TRUE
 AutoTimers = FALSE
%(locate)sINVARIANT ExitIntegrity
INVARIANT ReturnIntegrity
INVARIANT LayerDepth
INVARIANT E2ELayers
INVARIANT NoRepeatOnLinks
INVARIANT ExitOnlyOwn
INVARIANT NoShadow
INVARIANT NoForeignKey
INVARIANT KeyAgreement
INVARIANT PathAgreement
INVARIANT RelayEarlyBudget
INVARIANT Reclaimed
PROPERTY EntriesStable
PROPERTY DestroyOnlyFromNeighbour
PROPERTY UnknownCellsInert
PROPERTY AnswerMustMatch
PROPERTY HopByRightAnswer
PROPERTY JoinLimit
"""


ON_STEP = None      # set by a driver: callback(world, event) installed into every world (e.g. C08's key probe)


def world(topology, seed, settings=None, suspend_join=False, dual_stack=False):
    t = TOPOLOGIES[topology]
    w = OnionWorld(seed=seed, names=t["names"], exits=t["exits"], origins=t["origins"], settings=settings,
                   suspend_join=suspend_join, dual_stack=dual_stack)
    w.on_step = ON_STEP
    return w


# weights of the random driver; a profile switches families of actions on
PROFILES = {
    "honest": dict(deliver=20, timer=3, send=4, ret=4, create=2, remove=0.3, test=1.5),
    "lossy": dict(deliver=14, timer=4, send=3, ret=3, create=2, remove=0.5, lose=3, dup=2),
    "tamper": dict(deliver=14, timer=2, send=5, ret=4, create=2, tamper=4, header=2, splice=2, inject=2, plain=1, test=1),
    "isolation": dict(deliver=14, timer=2, send=5, ret=4, create=3, remove=0.5, inject=2, advcreate=3, destroy=3,
                      splice=2, plain=1, dup=1, mangle=1.5),
    "handshake": dict(deliver=10, timer=2, create=3, mangle=5, dup=2, lose=1, send=1),
    "reclaim": dict(deliver=10, timer=8, send=2, ret=1, create=1.5, remove=1, lose=4, dup=1, vanish=0.3, nodedown=0.7),
}


def random_run(topology, seed, profile, steps, settings=None, max_circuits=3, goals=(1, 2, 3), dual_stack=False):
    rng = random.Random(seed * 7919 + 17)
    w = world(topology, seed, settings, dual_stack=dual_stack)
    w.auto_transports = rng.random() < 0.4
    prof = PROFILES[profile]
    origins = TOPOLOGIES[topology]["origins"]
    names = TOPOLOGIES[topology]["names"]
    next_p = [0]
    returned = set()
    tampered = set()
    ncirc = 0
    try:
        for _ in range(steps):
            infl = list(w.net.inflight)
            cells = [d for d in infl if len(d.data) > 29 and d.data[22] == 0]
            enc = [d for d in cells if d.data[27] == 0 and (d.seq in tampered or w.measure_depth(d.data[29:]) > 0)]
            created = [d for d in cells if d.data[27] != 0 and d.data[29] == 3]
            ready = [(o, w.cid(rc)) for o in origins for rc, c in w.ov[o].circuits.items() if c.state == "READY"]
            anyc = [(o, w.cid(rc)) for o in origins for rc, c in w.ov[o].circuits.items() if c.state != "CLOSING"]
            retable = [(e["n"], e["cid"], e["p"]) for e in w.exit_log()
                       if e["p"] and e["p"] not in returned and
                       any(w.cid(rc) == e["cid"] and s.transport_ipv4 is not None
                           for rc, s in w.ov[e["n"]].exit_sockets.items())]
            known = list(w.cid_map.values())
            opts = []

            def add(name, cond=True):
                if prof.get(name, 0) > 0 and cond:
                    opts.append((name, prof[name]))
            add("deliver", bool(infl))
            add("timer")
            add("send", bool(ready))
            add("test", bool(ready))
            add("ret", bool(retable))
            add("create", ncirc < max_circuits)
            add("remove", bool(anyc))
            add("lose", bool(infl))
            add("dup", bool(infl))
            add("tamper", bool(enc))
            add("header", bool(infl))
            add("splice", bool(enc) and len(known) > 1)
            add("inject")
            add("plain", bool(known))
            add("advcreate")
            add("destroy", bool(known))
            add("mangle", bool(created))
            pend_socks = w.pending_sockets()
            if pend_socks and not w.auto_transports:
                opts.append(("tready", 3))
            alive = [o for o in origins if w.nodes[o].sim_endpoint.is_open()]
            add("vanish", bool(alive) and ncirc > 0)
            joined = [(n, "relay", w.cid(rc)) for n in names for rc in w.ov[n].relay_from_to] + \
                     [(n, "exit", w.cid(rc)) for n in names for rc in w.ov[n].exit_sockets]
            add("nodedown", bool(joined))
            if not opts:
                break
            tot = sum(wt for _, wt in opts)
            x = rng.random() * tot
            for name, wt in opts:
                x -= wt
                if x <= 0:
                    break
            if name == "deliver":
                # mostly FIFO, sometimes reordered
                d = infl[0] if rng.random() < 0.7 else rng.choice(infl)
                w.deliver(d.seq)
            elif name == "timer":
                w.fire_next_timer()
            elif name == "send":
                o, c = rng.choice(ready)
                next_p[0] += 1
                w.send_data(o, c, next_p[0], size=rng.choice([0, 0, 1, 100, 900]))
            elif name == "test":
                o, c = rng.choice(ready)
                w.send_test(o, c, rng.choice([0, 10, 200]), rng.choice([0, 50, 600]))
            elif name == "ret":
                n, c, p = rng.choice(retable)
                returned.add(p)
                w.exit_return(n, c, p)
            elif name == "create":
                o = rng.choice(origins)
                if w.create_circuit(o, rng.choice(goals)) is not None:
                    ncirc += 1
            elif name == "remove":
                o, c = rng.choice(anyc)
                w.remove_circuit(o, c, rng.random() < 0.6)
            elif name == "lose":
                w.lose(rng.choice(infl).seq)
            elif name == "dup":
                w.dup(rng.choice(infl).seq)
            elif name == "tamper":
                d = rng.choice(enc)
                tampered.add(d.seq)
                w.tamper(d.seq, bit=rng.randrange(8))
            elif name == "header":
                d = rng.choice(infl)
                what = rng.choice(["drop", "cid", "plain", "early"]) if d in cells else "drop"
                w.tamper_header(d.seq, what)
            elif name == "splice":
                d = rng.choice(enc)
                cur = w.describe(d)["cid"]
                other = [c for c in known if c != cur]
                if other:
                    w.splice(d.seq, rng.choice(other))
            elif name == "inject":
                w.inject(rng.choice(list(names) + ["adv"]), rng.choice(names), rng.choice([0] + known),
                         rng.choice(["data", "ping", "extend", "extended"]))
            elif name == "plain":
                w.adv_plain(rng.choice(list(names) + ["adv"]), rng.choice(names), rng.choice(known),
                            rng.choice(["data", "ping"]))
            elif name == "advcreate":
                w.adv_create(rng.choice(list(names) + ["adv"]), rng.choice(names), rng.choice([0] + known))
            elif name == "destroy":
                genuine = [d for d in w.net.wire if len(d.data) > 23 and d.data[22] == 8 and d.note != "injected"
                           and w.describe(d).get("signer") in names]      # (a duplicate of a forged one is not genuine)
                if genuine and rng.random() < 0.4:
                    g = rng.choice(genuine)
                    # a replayed genuine destroy is sent with the (spoofed) source address of its signer: the community
                    # layer re-points a verified peer's address to the source of any validly signed datagram, which the
                    # tunnel spec does not model (see DESIGN.md, observations)
                    w.forge_destroy(w.describe(g)["signer"], rng.choice(names), w.describe(g)["cid"], replay_seq=g.seq)
                elif rng.random() < 0.3:
                    # names another node's key under a signature that does not verify
                    dst = rng.choice(names)
                    w.forge_destroy(rng.choice(list(names) + ["adv"]), dst, rng.choice(known),
                                    claim=rng.choice([m for m in names if m != dst]))
                else:
                    w.forge_destroy(rng.choice(list(names) + ["adv"]), rng.choice(names), rng.choice(known))
            elif name == "tready":
                (w.transport4_ready if rng.random() < 0.4 else w.transports_ready)(*rng.choice(pend_socks))
            elif name == "vanish":
                w.vanish(rng.choice(alive))
            elif name == "nodedown":
                n, kind, c = rng.choice(joined)
                (w.node_remove_relay if kind == "relay" else w.node_remove_exit)(n, c)
            elif name == "mangle":
                w.mangle_answer(rng.choice(created).seq, rng.choice(["ident", "cid", "eph", "ephauth", "auth", "cands"]))
        return {"events": w.events, "topology": topology, "seed": seed, "profile": profile}, w
    finally:
        w.close()


def validate(traces, topology, hdr, *, max_joined=100, max_early=8, create_guard=True, suspend_join=False, timeout=1800, track_wire=True,
             locate=None):
    """-> (ok, TlcResult, failing (trace index, event index) or None).
    Fast path: without the ENABLED-based acceptance invariant TLC simply walks every trace as far as it is a behaviour
    of the spec; all traces were accepted iff it found exactly one state per event (+ the initial ones). Only when
    that count is short (or a property fails) a second run with TraceAccepted names the trace and the event."""
    t = TOPOLOGIES[topology]
    expected = sum(len(tr["events"]) + 1 for tr in traces)
    need_stop = any("nocheck" in e for tr in traces for e in tr["events"])
    tmp = scratch_dir("onion-")
    try:
        path = os.path.join(tmp, "traces.json")
        with open(path, "w", encoding="utf-8") as f:
            json.dump({"hdr": hdr, "traces": [{"events": tr["events"]} for tr in traces]}, f)

        def run(with_locate):
            cfg = os.path.join(tmp, "OnionTrace%d.cfg" % with_locate)
            with open(cfg, "w", encoding="utf-8") as f:
                f.write(CFG_TEMPLATE % dict(nodes=", ".join('"%s"' % n for n in t["names"]),
                                            origins=", ".join('"%s"' % n for n in t["origins"]),
                                            max_joined=max_joined, max_early=max_early,
                                            create_guard="TRUE" if create_guard else "FALSE",
                                            suspend_join="TRUE" if suspend_join else "FALSE",
                                            track_wire="TRUE" if track_wire else "FALSE",
                                            locate="INVARIANT TraceAccepted\nINVARIANT DebugStop\n" if with_locate else ""))
            return run_tlc("OnionTrace.tla", cfg, env={"TRACE_FILE": path}, coverage=False, timeout=timeout)
        r = run(bool(locate) or need_stop)
        if not (locate or need_stop) and r.ok and r.distinct < expected:
            r = run(True)
            if r.ok:
                raise MachineryError("trace validation: %d states for %d expected, but the locating run accepts everything"
                                     % (r.distinct, expected))
    finally:
        shutil.rmtree(tmp, ignore_errors=True)
    where = None
    if not r.ok and r.error_trace:
        last = r.error_trace[-1][1]
        where = (last.get("tid"), last.get("l"))
    return r.ok, r, where


def _vdepth(L):
    n = 0
    for layer in L:
        if not layer["ok"] or layer["k"].get("st") == "adv":
            break
        n += 1
    return n


def spec_projection(st):
    """the spec state (parsed TLC state) in the shape OnionWorld.project() logs"""
    out = {"circ": {}, "relay": {}, "exit": {}, "retryC": {}, "createdC": {}, "createC": {}, "pingC": {}}

    def items(f):
        if isinstance(f, tuple):
            return list(enumerate(f, 1))
        return list(f.items())
    for n, f in items(st["circ"]):
        out["circ"][n] = sorted(({"cid": c, "goal": v["goal"], "hops": [h["peer"] for h in v["hops"]], "unv": v["unv"]["peer"],
                                  "via": v["hops"][0]["peer"] if v["hops"] else v["unv"]["peer"], "act": 0,
                                  "closing": v["closing"], "early": v["early"], "ctype": v["ctype"],
                                  "hs": v["hs"]["st"] != "none"} for c, v in items(f)), key=lambda x: x["cid"])
    for n, f in items(st["relay"]):
        out["relay"][n] = sorted(({"cid": c, "to": v["to"], "next": v["next"], "dir": v["dir"], "early": v["early"],
                                   "rdv": v["rdv"]}
                                  for c, v in items(f)), key=lambda x: x["cid"])
    for n, f in items(st["exit"]):
        out["exit"][n] = sorted(({"cid": c, "prev": v["prev"], "pk": v["pk"], "enabled": v["enabled"], "open": v["open"],
                                  "queued": len(v["q"])}
                                 for c, v in items(f)), key=lambda x: x["cid"])
    for n, f in items(st["retryC"]):
        out["retryC"][n] = sorted(({"cid": c, "ident": v["ident"], "tries": v["tries"], "alts": list(v["alts"]),
                                    "kind": v["kind"]} for c, v in items(f)), key=lambda x: x["cid"])
    for n, f in items(st["createdC"]):
        out["createdC"][n] = sorted(c for c, _ in items(f))
    for n, f in items(st["createC"]):
        out["createC"][n] = sorted(({"ident": i, "to": v["to"], "from": v["from"], "peer": v["peer"], "toPeer": v["toPeer"]}
                                    for i, v in items(f)), key=lambda x: x["ident"])
    tests = set(st["hist"].get("tests", ()))
    out["testC"] = {}
    for n, f in items(st["pingC"]):
        out["pingC"][n] = sorted(i for i, _ in items(f) if i not in tests)
        out["testC"][n] = sorted(i for i, _ in items(f) if i in tests)
    net = []
    for d in st["net"]:
        if d["t"] == "cell":
            net.append({"id": d["id"], "src": d["src"], "dst": d["dst"], "t": "cell", "cid": d["cid"], "plain": d["plain"],
                        "early": d["early"], "depth": _vdepth(d["L"])})
        else:
            net.append({"id": d["id"], "src": d["src"], "dst": d["dst"], "t": "destroy", "cid": d["cid"], "signer": d["signer"]})
    out["net"] = sorted(net, key=lambda x: x["id"])
    out["exitLog"] = sorted((dict(e) for e in st["hist"]["exitLog"]), key=lambda e: (e["n"], e["cid"], e["p"]))
    out["origLog"] = sorted((dict(e) for e in st["hist"]["origLog"]), key=lambda e: (e["n"], e["cid"], e["p"]))
    return out


def explain(trace, topology, hdr, l, **kw):
    """what Onion.tla expected after event l of the trace versus what the real nodes did (differences only)"""
    import copy
    tr2 = copy.deepcopy(trace)
    tr2["events"] = tr2["events"][:l]
    tr2["events"][-1]["nocheck"] = True
    _ok, r2, _w = validate([tr2], topology, hdr, **kw)
    if not r2.error_trace or r2.violated != "DebugStop":
        return {"note": "the spec does not allow this action at all in the state before it (%s)" % r2.violated}
    exp = spec_projection(r2.error_trace[-1][1])
    real = trace["events"][l - 1]["post"]
    diff = {}
    for k, v in exp.items():
        rv = real.get(k)
        if isinstance(v, dict):
            for n, ev in v.items():
                rr = rv.get(n)
                rr = sorted(rr, key=lambda x: (x.get("cid", 0), x.get("ident", 0)) if isinstance(x, dict) else x)
                if ev != rr:
                    diff["%s[%s]" % (k, n)] = {"spec": ev, "real": rr}
        else:
            rr = sorted(rv, key=lambda x: x.get("id", 0) if "id" in x else (x["n"], x["cid"], x["p"]))
            if v != rr:
                diff[k] = {"spec": v, "real": rr}
    return diff
