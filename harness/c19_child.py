"""C19 child process: runs in a FRESH interpreter (started by harness/drivers/c19.py), drives the real
IdentityManager / PseudonymManager / IdentityDatabase / AttestationsDB on file databases, logs every
database statement with unbuffered os.write to an append-only file (data handed to the kernel survives
SIGKILL) and kills itself with SIGKILL when the crash-point counter reaches ``kill_at``.

All observation is done from here (harness side, no source hook): the sqlite3 trace callback of the
connections (every statement sqlite runs, including the implicit BEGIN / COMMIT of the python driver and every
statement inside executescript), wrappers around Database.execute/executescript/commit (call boundaries) and
around the four insert methods (the acknowledgement point of a record) and around Database.__enter__/__exit__
(the "with database:" blocks that defer commits).  The sqlite connection of every Database is reached through a
forwarding proxy (set by the wrapped Database._connect): it logs a COMMIT that sqlite FAILS - whatever the code does
with the exception afterwards - together with whether sqlite rolled the transaction back, and it is the place where
the configured fault is injected: the n-th COMMIT after the first item (and the ones after it) is refused the way
sqlite refuses it when the volume is full (transaction rolled back, OperationalError) or when the file is locked
(transaction kept, OperationalError).

usage: python c19_child.py <config.json>
"""
import hashlib
import json
import os
import signal
import sqlite3
import sys
import time


def main():
    with open(sys.argv[1], encoding="utf-8") as f:
        cfg = json.load(f)
    sys.path.insert(0, cfg["repo"])
    import logging
    logging.disable(logging.CRITICAL)

    fd = os.open(cfg["log"], os.O_WRONLY | os.O_APPEND | os.O_CREAT, 0o644)
    kill_at = cfg.get("kill_at")
    kill_rel = cfg.get("kill_rel")   # kill at the n-th distinct point after the first item of this process started
    fault = cfg.get("fault")         # {"at": j, "n": m, "rb": bool}: COMMITs j .. j+m-1 after the first item fail
    injecting = [False]
    commits = [0]                    # COMMITs (of an open transaction) asked of sqlite since the first item started
    counter = [0]
    rel = [None]                     # distinct points since the first item started (None: not started)

    # crash points that differ from their predecessor: something happened in between (a statement other than a
    # SELECT ran, an insert call returned or raised, a block was entered or left, an item was completed). A kill at
    # any other point leaves exactly the files and acknowledgements of the kill at the point before it.
    distinct, dirty = [], [True]
    quiet = ("call", "ret", "item", "observe")

    def log(ev):
        if ev["e"] not in quiet and not (ev["e"] == "sql" and ev["s"].upper().startswith("SELECT")):
            dirty[0] = True
        os.write(fd, (json.dumps(ev, separators=(",", ":")) + "\n").encode())

    def point(label):
        """One crash point. The kill is logged first, so every other logged event is known to have happened."""
        counter[0] += 1
        if dirty[0]:
            distinct.append(counter[0])
            dirty[0] = False
            if rel[0] is not None:
                rel[0] += 1
                if kill_rel is not None and rel[0] == kill_rel:
                    log({"e": "kill", "k": "item+%d" % kill_rel, "at": label})
                    os.kill(os.getpid(), signal.SIGKILL)
                    time.sleep(600)
        if kill_at is not None and counter[0] == kill_at:
            log({"e": "kill", "k": kill_at, "at": label})
            os.kill(os.getpid(), signal.SIGKILL)
            time.sleep(600)  # not reached: SIGKILL to self is delivered before kill() returns

    def hexs(seq):
        out = []
        for v in seq:
            if v is None:
                out.append(None)
            elif isinstance(v, (bytes, bytearray, memoryview)):
                out.append(bytes(v).hex())
            elif isinstance(v, str):
                out.append("s:" + v)
            else:
                out.append("r:" + repr(v))
        return out

    from ipv8.database import Database

    # ---- statement level: the sqlite trace callback fires when a statement starts to run
    orig_connect = Database._connect

    class ConnectionProxy:
        """Forwards everything to the sqlite3 connection; commit() reports (and on request produces) failures."""

        def __init__(self, real, name):
            object.__setattr__(self, "_real", real)
            object.__setattr__(self, "_name", name)

        def __getattr__(self, key):
            return getattr(self._real, key)

        def __setattr__(self, key, value):
            setattr(self._real, key, value)

        def commit(self):
            real = self._real
            if real.in_transaction and rel[0] is not None:
                commits[0] += 1
                if fault and fault["at"] <= commits[0] < fault["at"] + fault.get("n", 1):
                    # the statement does not reach sqlite: the transaction is rolled back (what sqlite does when
                    # the COMMIT hits a full volume / an I/O error) or kept (a locked file)
                    if fault["rb"]:
                        injecting[0] = True
                        real.rollback()
                        injecting[0] = False
                    log({"e": "sqlfail", "db": self._name, "ran": False, "rb": not real.in_transaction,
                         "injected": True})
                    raise sqlite3.OperationalError("database or disk is full" if fault["rb"] else "database is locked")
            try:
                return real.commit()
            except sqlite3.Error as e:
                log({"e": "sqlfail", "db": self._name, "ran": True, "rb": not real.in_transaction,
                     "exc": type(e).__name__, "msg": str(e)[:120]})
                raise

    def connect(self):
        orig_connect(self)
        name = "att" if type(self).__name__ == "AttestationsDB" else "id"
        self._connection = ConnectionProxy(self._connection, name)

        def on_statement(stmt):
            if injecting[0]:
                return      # the ROLLBACK by which the proxy imitates sqlite's own roll back of a failed COMMIT
            point("sql:%s:%s" % (name, stmt.strip()[:24]))
            head = stmt.lstrip()[:6].upper()
            if head != "SELECT" or "sqlite_master" in stmt:     # plain reads are crash points but carry no event
                log({"e": "sql", "db": name, "s": " ".join(stmt.split())[:160]})
        self._connection.set_trace_callback(on_statement)
    Database._connect = connect

    def dbname(db):
        return "att" if type(db).__name__ == "AttestationsDB" else "id"

    # ---- "with database:" blocks
    orig_enter, orig_exit = Database.__enter__, Database.__exit__

    def enter(self):
        res = orig_enter(self)
        log({"e": "enter", "db": dbname(self)})
        point("entered:" + dbname(self))
        return res

    def leave(self, exc_type, exc_value, tb):
        from ipv8.database import IgnoreCommits
        how = "ok" if exc_type is None else "ignore" if isinstance(exc_value, IgnoreCommits) else "error"
        try:
            res = orig_exit(self, exc_type, exc_value, tb)
        except BaseException as e:  # noqa: BLE001
            log({"e": "leave", "db": dbname(self), "how": "error", "exc": type(e).__name__})
            raise
        if how == "ignore" and not res:
            how = "error"     # the exception travels on to the caller
        log({"e": "leave", "db": dbname(self), "how": how})
        point("left:%s:%s" % (dbname(self), how))
        return res
    Database.__enter__, Database.__exit__ = enter, leave

    # ---- call level
    def wrap_call(fname):
        orig = getattr(Database, fname)

        def wrapper(self, *a, **kw):
            ev = {"e": "call", "fn": fname}
            if fname == "execute" and a and a[0].lstrip().upper().startswith("INSERT"):
                ev["sql"] = " ".join(a[0].split())
                b = a[1] if len(a) > 1 else kw.get("bindings", ())
                ev["bind"] = hexs(b)
            log(ev)
            try:
                res = orig(self, *a, **kw)
            except BaseException as e:  # noqa: BLE001
                log({"e": "raise", "fn": fname, "exc": type(e).__name__, "msg": str(e)[:200]})
                raise
            ev = {"e": "ret", "fn": fname}
            if fname == "commit":
                ev["db"] = dbname(self)
                ev["done"] = bool(res)    # False: Database.commit() deferred the commit
            log(ev)
            point("after:" + fname)
            return res
        setattr(Database, fname, wrapper)
    for fname in ("execute", "executescript", "commit"):
        wrap_call(fname)

    # ---- acknowledgement level: the insert methods named by the property
    from ipv8.attestation.identity.database import IdentityDatabase
    from ipv8.attestation.wallet.database import AttestationsDB

    def wrap_insert(cls, mname):
        orig = getattr(cls, mname)

        def wrapper(self, *a, **kw):
            log({"e": "ins_call", "m": cls.__name__ + "." + mname})
            try:
                res = orig(self, *a, **kw)
            except BaseException as e:  # noqa: BLE001
                log({"e": "ins_raise", "exc": type(e).__name__, "msg": str(e)[:200]})
                raise
            log({"e": "ins_ret"})
            point("acked:" + mname)
            return res
        setattr(cls, mname, wrapper)
    for m in ("insert_token", "insert_metadata", "insert_attestation"):
        wrap_insert(IdentityDatabase, m)
    wrap_insert(AttestationsDB, "insert_attestation")

    from ipv8.attestation.identity.manager import IdentityManager
    from ipv8.keyvault.crypto import default_eccrypto

    plan = cfg["plan"]
    owner = default_eccrypto.key_from_private_bin(bytes.fromhex(plan["owner"]))
    auths = [default_eccrypto.key_from_private_bin(bytes.fromhex(h)) for h in plan["authorities"]]

    log({"e": "start", "pid": os.getpid(), "observe": bool(cfg.get("observe")), "todo": cfg["todo"]})
    point("started")
    try:
        im = IdentityManager(os.path.join(cfg["dir"], "identity", "id.db"))
        wdb = AttestationsDB(cfg["dir"], "att")
    except BaseException as e:  # noqa: BLE001
        log({"e": "open_error", "exc": type(e).__name__, "msg": str(e)[:200]})
        os._exit(3)

    pseudonym = im.get_pseudonym(owner)  # the real reload path (PseudonymManager.__init__)

    if cfg.get("observe"):
        log(observe(im, wdb, pseudonym, hexs))
        point("observed")

    known = {}     # credentials created by THIS process (saves the workload driver a database scan per lookup)

    def find_metadata(name):
        if name in known:
            return known[name]
        for cred in pseudonym.get_credentials():
            if json.loads(cred.metadata.serialized_json_dict).get("name") == name:
                return cred.metadata
        raise LookupError("workload refers to credential %r which is not stored" % name)

    class Gone(Exception):
        pass

    class BatchAborted(Exception):
        """The application error that ends a "with database:" block of the workload."""

    databases = {"id": im.database, "att": wdb}

    def do_item(item, path=()):
        try:
            for ref in (item.get("after"), item.get("cred")):
                if ref:
                    find_metadata(ref)
        except LookupError as e:
            # an earlier item of the workload is gone although it had completed: nothing to build on. The statement
            # log and the observation above already carry that fact to TLC; the workload just stops here.
            raise Gone(str(e)) from e
        if item["op"] == "batch":
            # the items run inside "with database:" blocks of the listed databases, which are left normally ("ok"),
            # by raise IgnoreCommits ("ignore") or by an ordinary exception that the application catches ("error")
            import contextlib

            from ipv8.database import IgnoreCommits
            before = set(known)
            try:
                with contextlib.ExitStack() as stack:
                    for d in item["dbs"]:
                        stack.enter_context(databases[d])
                    for j, sub in enumerate(item["items"]):
                        # (blocks nest: a sub-item may be a block again - of the same database as well)
                        log({"e": "item", "i": i, "p": [*path, j], "n": counter[0]})
                        point("item:%d.%s" % (i, ".".join(str(x) for x in (*path, j))))
                        do_item(sub, (*path, j))
                    if item["end"] == "ignore":
                        raise IgnoreCommits
                    if item["end"] == "error":
                        raise BatchAborted
            except BatchAborted:
                pass
            except sqlite3.OperationalError:
                # the database refused inside the block or when it was left: the application takes nothing the block
                # was storing for stored (it asks the database again before it builds on any of it)
                for name in set(known) - before:
                    del known[name]
                raise
        elif item["op"] == "credential":
            after = find_metadata(item["after"]) if item.get("after") else None
            cred = pseudonym.create_credential(hashlib.sha3_256(item["name"].encode()).digest(),
                                               {"name": item["name"]}, after)
            if cred is None:
                raise RuntimeError("create_credential refused")
            known[item["name"]] = cred.metadata
        elif item["op"] == "import":
            # a whole credential made elsewhere (token, metadata and attestations by several authorities) is handed
            # to PseudonymManager.add_credential in ONE call: the multi-step write of the library
            from ipv8.attestation.identity.attestation import Attestation
            from ipv8.attestation.identity.metadata import Metadata
            from ipv8.attestation.tokentree.token import Token
            after = find_metadata(item["after"]) if item.get("after") else None
            previous = pseudonym.tree.genesis_hash if after is None else after.token_pointer
            form = item.get("form", "hash")
            if form == "hash":
                token = Token(previous, content_hash=hashlib.sha3_256(item["name"].encode()).digest(), private_key=owner)
            else:
                # the token carries its content ("full") or is the public form of that very token ("bare": the double
                # pointer and the signature as Token.unserialize yields them) - one token, two byte strings
                token = Token(previous, content=b"value of " + item["name"].encode(), private_key=owner)
                if form == "bare":
                    token = Token.unserialize(token.get_plaintext_signed(), owner.pub())
            md = Metadata(token.get_hash(), json.dumps({"name": item["name"]}).encode(), owner)
            atts = [(auths[a].pub(), Attestation.create(md, auths[a])) for a in item["auths"]]
            cred = pseudonym.add_credential(token, md, set(atts))
            if cred is None or len(cred.attestations) != len(atts):
                raise RuntimeError("add_credential refused")
            known[item["name"]] = cred.metadata
        elif item["op"] == "attest":
            md = find_metadata(item["cred"])
            auth = auths[item["auth"]]
            att = pseudonym.create_attestation(md, auth)
            if not pseudonym.add_attestation(auth.pub(), att):
                raise RuntimeError("add_attestation refused")
        elif item["op"] == "blob":
            from ipv8.attestation.wallet.bonehexact.structs import BonehAttestation
            from ipv8.attestation.wallet.primitives.structs import BonehPrivateKey
            ahash = bytes.fromhex(item["hash"])
            stored = wdb.get_attestation_by_hash(ahash)
            if stored and not item.get("again"):
                return "item_skip"     # stored before the crash: a plain INSERT would raise
            sk = BonehPrivateKey.unserialize(bytes.fromhex(plan["boneh_key"]))
            att = BonehAttestation.unserialize(bytes.fromhex(item["attestation"]), "id_metadata")
            try:
                wdb.insert_attestation(att, ahash, sk, "id_metadata")
            except sqlite3.IntegrityError:
                # "again": the application stores a blob it has stored before; the insert raises, the application
                # carries on
                if not (stored and item.get("again")):
                    raise
        else:
            raise RuntimeError("unknown op")
        return "item_done"

    for i in cfg["todo"]:
        item = plan["items"][i]
        log({"e": "item", "i": i, "n": counter[0]})
        if rel[0] is None:
            rel[0] = 0
        point("item:%d" % i)
        try:
            outcome = do_item(item)
        except Gone as e:
            if fault:
                # the item builds on one that the injected fault made fail: the application leaves it out
                log({"e": "item_skip", "i": i, "why": str(e)})
                point("item-done:%d" % i)
                continue
            log({"e": "item_abort", "i": i, "why": str(e)})
            break
        except sqlite3.OperationalError as e:
            # the database refused (a COMMIT failed): the application logs it and carries on, nothing the failed call
            # was storing counts as stored
            log({"e": "item_fail", "i": i, "exc": type(e).__name__, "msg": str(e)[:120]})
            point("item-failed:%d" % i)
            continue
        log({"e": outcome, "i": i})
        point("item-done:%d" % i)

    if cfg.get("kill_end"):
        log({"e": "kill", "k": "end", "at": "end-of-workload"})
        os.kill(os.getpid(), signal.SIGKILL)
        time.sleep(600)
    try:
        im.database.close()
        wdb.close()
    except Exception as e:  # noqa: BLE001
        # close() refused (it commits first): the process ends with its connections dropped, uncommitted work is lost
        log({"e": "close_error", "exc": type(e).__name__, "msg": str(e)[:200], "points": counter[0],
             "distinct": distinct})
        os.close(fd)
        os._exit(0)
    log({"e": "exit", "points": counter[0], "distinct": distinct, "commits": commits[0]})
    os.close(fd)


def verify_all(tree):
    """{hash: TokenTree.verify(token)} for every token of the tree, decided by the real verify: it is run on the tokens
    that no other token points to; where it succeeds it has checked every token on the path back to the genesis (the
    same checks verify makes when started from one of them); every token not covered that way is verified directly."""
    elements = tree.elements
    parents = {tok.previous_token_hash for tok in elements.values()}
    out = {}
    for h, tok in elements.items():
        if h in parents or not tree.verify(tok):
            continue
        cur = tok
        while cur is not None and cur.get_hash() not in out:
            out[cur.get_hash()] = True
            cur = elements.get(cur.previous_token_hash)
    for h, tok in elements.items():
        if h not in out:
            out[h] = bool(tree.verify(tok))
    return out


def observe(im, wdb, pseudonym, hexs):
    """Read every table back and rebuild + verify the pseudonym and the wallet with the real reload code."""
    from ipv8.attestation.wallet.bonehexact.structs import BonehAttestation
    from ipv8.attestation.wallet.primitives.structs import BonehPrivateKey
    from ipv8.keyvault.crypto import default_eccrypto

    rows = {}
    for table in ("Tokens", "Metadata", "Attestations"):
        rows[table] = [hexs(r) for r in im.database.execute("SELECT * FROM %s" % table)]  # noqa: S608
    rows["att"] = [hexs(r) for r in wdb.get_all()]
    problems = []
    rebuilt = {"tree": [], "creds": [], "atts": []}
    verified = {}
    try:
        pk = pseudonym.public_key.key_to_bin()
        # the objects PseudonymManager.__init__ built from the file: the token tree and the credential list
        verified = verify_all(pseudonym.tree)
        for h, tok in pseudonym.tree.elements.items():
            rebuilt["tree"].append({"row": hexs((pk, *tok.to_database_tuple())),
                                    "ok": bool(tok.get_hash() == h and verified.get(h))})
        for cred in pseudonym.credentials:
            md = cred.metadata
            rebuilt["creds"].append({"row": hexs((pk, *md.to_database_tuple())),
                                     "ok": bool(md.verify(pseudonym.public_key))})
            for att in cred.attestations:
                authority = im.database.get_authority(att)
                rebuilt["atts"].append({"row": hexs((pk, authority, *att.to_database_tuple())),
                                        "ok": bool(att.verify(default_eccrypto.key_from_public_bin(authority)))})
    except Exception as e:  # noqa: BLE001
        problems.append("inspecting the rebuilt pseudonym raised %s: %s" % (type(e).__name__, str(e)[:120]))
    try:
        tree = pseudonym.tree
        if len(tree.elements) != len(rows["Tokens"]):
            problems.append("reloaded %d tokens from %d rows" % (len(tree.elements), len(rows["Tokens"])))
        for h, tok in tree.elements.items():
            if tok.get_hash() != h:
                problems.append("token stored under a foreign hash")
            if not verified.get(h):
                problems.append("token %s does not verify back to the genesis" % h.hex()[:12])
        creds = pseudonym.get_credentials()
        if len(creds) != len(rows["Metadata"]):
            problems.append("reloaded %d credentials from %d metadata rows" % (len(creds), len(rows["Metadata"])))
        natt = 0
        for cred in creds:
            md = cred.metadata
            if not md.verify(pseudonym.public_key):
                problems.append("metadata signature does not verify")
            if md.token_pointer not in tree.elements:
                problems.append("metadata points to a token that is not stored")
            json.loads(md.serialized_json_dict)
            for att in cred.attestations:
                natt += 1
                authority = default_eccrypto.key_from_public_bin(im.database.get_authority(att))
                if not att.verify(authority):
                    problems.append("attestation signature does not verify")
                if att.metadata_pointer != md.get_hash():
                    problems.append("attestation attached to foreign metadata")
        if natt != len(rows["Attestations"]):
            problems.append("%d attestation rows but %d reachable from stored metadata" % (len(rows["Attestations"]),
                                                                                         natt))
        for row in wdb.get_all():
            ahash, blob, key, id_format = row
            sk = BonehPrivateKey.unserialize(key)
            if sk is None:
                problems.append("stored attestation key does not load")
                continue
            att = BonehAttestation.unserialize_private(sk, blob, id_format.decode())
            if att.serialize_private(sk.public_key()) != blob:
                problems.append("stored attestation blob does not round-trip")
    except Exception as e:  # noqa: BLE001
        problems.append("reload raised %s: %s" % (type(e).__name__, str(e)[:120]))
    try:
        # the rebuilt pseudonym can be USED: every rebuilt credential can be disclosed (the library walks from the
        # credential's token back to the genesis and refuses tokens that do not verify)
        pick = sorted(pseudonym.credentials, key=lambda c: c.metadata.get_hash())
        if len(pick) > 30:
            pick = pick[:6] + pick[-6:]
        for cred in pick:
            pseudonym.disclose_credentials([cred], {att.get_hash() for att in cred.attestations})
    except Exception as e:  # noqa: BLE001
        problems.append("a rebuilt credential cannot be disclosed: %s: %s" % (type(e).__name__, str(e)[:120]))
    return {"e": "observe", "rows": rows, "verifies": not problems, "problems": problems, "rebuilt": rebuilt}


if __name__ == "__main__":
    main()
