"""C11: scripted protocol runs of every shipped overlay class (default settings) on the simulated network, with
unload() of the observed overlay T requested at a chosen event, late datagrams of every message id and 2 h of
virtual time afterwards. Produces the event log that specs/UnloadTrace.tla validates."""
from __future__ import annotations

import asyncio
import random
import zlib
from binascii import unhexlify

from . import c11_obs as obs
from . import vloop
from .nodes import Node
from .simnet import SimNet, attach

LATE_PEERS_ALIVE = 120.0
LATE_TOTAL = 7200.0
BT_QUERY = b"d1:ad2:id20:abcdefghij0123456789e1:q4:ping1:t2:aa1:y1:qe"
BT_REPLY = b"d1:rd2:id20:mnopqrstuvwxyz123456e1:t2:aa1:y1:re"
BONEH_SK = ("01064c65dcb113f901064228da3ea57101064793a4f9c77901062b083e"
            "8690fb0106408293c67e9f010601d1a9d3744901030f4243")


class World:
    def __init__(self, loop, net, rec, wiring, keys):
        self.loop, self.net, self.rec, self.wiring, self.keys = loop, net, rec, wiring, keys
        self.nodes = []
        self.T = None
        self.t = None
        self.unload_task = None
        self.spawned = []
        self.unload_error = None
        self.listener_errors = []
        self.marks = []
        self.mark_times = []
        self.t0 = loop.time()
        self.kind = "basic"

    # ---- building
    def node(self, cls, observed=False, **settings):
        i = len(self.nodes)
        n = Node(self.net, key=self.keys[i], wiring=self.wiring if observed else "plain")
        ov = n.add(cls, **settings)
        self.nodes.append(n)
        if observed:
            self.T, self.t = n, ov
            self.kind = "tunnel" if hasattr(ov, "crypto_endpoint") else ("cache" if hasattr(ov, "request_cache")
                                                                         else "basic")
            self.rec.watch(n, ov)
        return n

    @property
    def peers(self):
        return [n for n in self.nodes if n is not self.T]

    def peer_obj(self, n):
        from ipv8.peer import Peer
        return Peer(n.my_peer.public_key, n.address)

    def introduce(self, pairs=None):
        for a in self.nodes:
            for b in self.nodes:
                if a is not b and (pairs is None or (self.nodes.index(a), self.nodes.index(b)) in pairs
                                   or (self.nodes.index(b), self.nodes.index(a)) in pairs):
                    if a is self.T and not self.loaded:
                        continue
                    a.overlay.walk_to(b.address)

    # ---- script helpers
    @property
    def loaded(self):
        return self.rec.phase == "loaded"

    def on_t(self, fn, *a, **k):
        """An application call into T: only made while T is loaded (the property is about what T does by itself)."""
        if not self.loaded:
            return None
        try:
            r = fn(*a, **k)
        except Exception:  # noqa: BLE001
            return None
        if asyncio.iscoroutine(r):
            self.marks.append(len(self.rec.events))     # an API coroutine of T is in flight from here on
            self.mark_times.append(round(self.loop.time() - self.t0, 3))
            return self.spawn(r)
        return r

    def mark(self):
        """the script reached a point after which unload is to be requested densely (events and virtual times)"""
        self.marks.append(len(self.rec.events))
        self.mark_times.append(round(self.loop.time() - self.t0, 3))

    def boot_in(self, data, src, note=""):
        """a datagram from the local network arrives on every open bootstrap socket of T"""
        for tr, sid in list(self.rec.bsocks.items()):
            if not tr.closed:
                self.rec.log("BootIn", sid, note=note)
                try:
                    tr.inject(data, src)
                except Exception as e:  # noqa: BLE001
                    self.listener_errors.append(repr(e))

    def call(self, fn, *a, **k):
        try:
            r = fn(*a, **k)
        except Exception:  # noqa: BLE001
            return None
        if asyncio.iscoroutine(r):
            return self.spawn(r)
        return r

    def spawn(self, coro):
        async def quiet():
            try:
                return await coro
            except BaseException:  # noqa: BLE001
                return None
        t = self.loop.create_task(quiet())
        self.spawned.append(t)
        return t

    # ---- unload
    def request_unload(self):
        if self.rec.phase != "loaded":
            return
        self.rec.phase = "unloading"
        self.rec.log("UnloadStart")
        self.unload_task = self.loop.create_task(self._unload())

    async def _unload(self):
        try:
            await self.t.unload()
        except Exception as e:  # noqa: BLE001
            self.unload_error = repr(e)
        # sub-steps of unload that were not seen where they happen are taken as done now that unload() has returned:
        # whatever they failed to achieve shows up in what the overlay does afterwards
        seen = {e["e"] for e in self.rec.events}
        for sub in ("U_Cache", "U_Listener", "U_Tasks"):
            if sub not in seen and not (sub == "U_Cache" and self.kind == "basic"):
                self.rec.log(sub, note="implied: unload() returned")
        self.rec.events.append({"e": "U_Boot", "a": 0, "ok": True, "o": "ov", "s": self.rec.open_boot_sockets()})
        self.rec.notes.append("open bootstrap sockets when unload() returned")
        if self.kind == "tunnel":
            self.rec.events.append({"e": "U_Tunnels", "a": 0, "ok": True, "o": "ov", "s": self.rec.open_sockets()})
            self.rec.notes.append("open outside sockets when unload() returned")
        self.rec.phase = "unloaded"
        self.rec.log("UnloadDone")


# ------------------------------------------------------------------------------------------------------
# scenarios
# ------------------------------------------------------------------------------------------------------
class Scenario:
    name = ""
    n_nodes = 4
    dense = ()           # unload is requested at event mark + d for each of these (in addition to the driver's choice)
    dense_times = ()     # ... and at virtual time of the mark + d

    def build(self, w):
        raise NotImplementedError

    async def script(self, w):
        raise NotImplementedError

    async def generic(self, w):
        w.introduce()
        await asyncio.sleep(1)
        for p in w.peers:
            w.on_t(w.t.walk_to, p.address)
            w.call(p.overlay.walk_to, w.T.address)
        await asyncio.sleep(1)
        w.on_t(w.t.get_new_introduction)
        for p in w.peers:
            w.call(p.overlay.get_new_introduction)
        await asyncio.sleep(1)


def _plain_community():
    from ipv8.community import Community

    class PlainCommunity(Community):
        community_id = unhexlify("c11c11c11c11c11c11c11c11c11c11c11c11c11c")
    return PlainCommunity


class PlainScenario(Scenario):
    name = "Community"

    def cls(self):
        return _plain_community()

    def build(self, w):
        c = self.cls()
        w.node(c, observed=True)
        for _ in range(2):
            w.node(c)

    async def script(self, w):
        await self.generic(w)
        await asyncio.sleep(11)
        await self.generic(w)


class BootScenario(Scenario):
    """An overlay with the shipped bootstrappers: bootstrap() while its broadcast socket is not open yet, datagrams on
    that socket, a second bootstrap() of the initialised bootstrappers. Unload is requested at every event after a
    bootstrap() call."""
    name = "Community+bootstrappers"
    dense = tuple(range(1, 20))          # unload at mark + d for every d: the loop iterations in which the socket opens
    dense_times = (0.0, 0.2, 0.7)

    def cls(self):
        return _plain_community()

    def build(self, w):
        from ipv8.bootstrapping.dispersy.bootstrapper import DispersyBootstrapper
        from ipv8.bootstrapping.udpbroadcast.bootstrapper import UDPBroadcastBootstrapper
        c = self.cls()
        w.node(c)
        w.node(c)
        n = Node(w.net, key=w.keys[2], wiring=w.wiring)
        ov = n.add(c)
        ov.bootstrappers.append(DispersyBootstrapper([w.nodes[0].address], []))
        ov.bootstrappers.append(UDPBroadcastBootstrapper())
        w.nodes.append(n)
        w.T, w.t = n, ov
        w.rec.watch(n, ov)

    async def script(self, w):
        from ipv8.bootstrapping.udpbroadcast.bootstrapper import HDR_ANNOUNCE
        p1, p2 = w.peers
        w.mark()
        w.on_t(w.t.bootstrap)
        await asyncio.sleep(0.5)
        w.boot_in(HDR_ANNOUNCE + w.t.get_prefix(), p1.address, "beacon of a peer")
        await asyncio.sleep(0.5)
        w.boot_in(p2.overlay.create_introduction_request(w.T.address), p2.address, "introduction request of a peer")
        await asyncio.sleep(1)
        await self.generic(w)
        await asyncio.sleep(31)
        w.on_t(w.t.bootstrap)              # initialised by now: asks for addresses (beacons) only
        await asyncio.sleep(1)
        w.boot_in(HDR_ANNOUNCE + w.t.get_prefix(), p2.address, "beacon of a peer")
        await asyncio.sleep(1)


class DiscoveryScenario(Scenario):
    name = "DiscoveryCommunity"

    def build(self, w):
        from ipv8.peerdiscovery.community import DiscoveryCommunity
        w.node(DiscoveryCommunity, observed=True)
        for _ in range(2):
            w.node(DiscoveryCommunity)

    async def script(self, w):
        from ipv8.keyvault.crypto import default_eccrypto
        from ipv8.peer import Peer
        await self.generic(w)
        for p in w.peers:
            w.on_t(w.t.send_ping, w.peer_obj(p))
            w.call(p.overlay.send_ping, w.peer_obj(w.T))
            w.on_t(w.t.send_similarity_request, p.address)
            w.call(p.overlay.send_similarity_request, w.T.address)
        await asyncio.sleep(1)
        ghost = Peer(default_eccrypto.generate_key("curve25519").pub(), ("80.9.9.9", 8090))
        w.on_t(w.t.send_ping, ghost)        # never answered: the cache times out
        await asyncio.sleep(12)
        await self.generic(w)


class DHTScenario(Scenario):
    name = "DHTCommunity"

    def cls(self):
        from ipv8.dht.community import DHTCommunity
        return DHTCommunity

    def build(self, w):
        c = self.cls()
        w.node(c, observed=True)
        for _ in range(3):
            w.node(c)

    def ghost(self, i):
        """A DHT node that never answers (deterministic key: distances decide the order of a crawl)."""
        from ipv8.dht.routing import Node as DhtNode
        from ipv8.keyvault.crypto import default_eccrypto
        from ipv8.messaging.interfaces.udp.endpoint import UDPv4Address
        key = default_eccrypto.key_from_private_bin(b"LibNaCLSK:" + random.Random(4242 + i).randbytes(64))
        return DhtNode(key.pub(), UDPv4Address("80.9.9.%d" % (i + 1), 8090))

    async def script(self, w):
        await self.generic(w)
        await asyncio.sleep(1)
        key = b"\x11" * 20
        w.on_t(w.t.store_value, key, b"value-from-T", True)
        w.call(w.peers[0].overlay.store_value, b"\x22" * 20, b"value-from-peer")
        await asyncio.sleep(1)
        w.on_t(w.t.find_values, b"\x22" * 20)
        w.call(w.peers[1].overlay.find_values, key)
        w.call(w.peers[2].overlay.find_nodes, w.t.my_peer.mid if w.t else key)
        await asyncio.sleep(1)
        await self.extra(w)
        await asyncio.sleep(3)
        # crawls that stay in flight for seconds: T knows nodes that never answer and one peer answers late, so that
        # part of the answers (and tokens) is there while the rest is still awaited
        if w.loaded:
            for i in range(3):
                g = self.ghost(i)
                w.on_t(lambda g=g: w.t.get_routing_table(g).add(g))
        w.rec.slow[w.peers[2].sim_endpoint] = 0.7
        w.on_t(w.t.store_value, b"\x44" * 20, b"second-value-from-T", False)
        await asyncio.sleep(1.5)
        w.on_t(w.t.find_values, key)
        await asyncio.sleep(6)
        w.rec.slow.clear()
        await asyncio.sleep(4)
        await self.generic(w)

    async def extra(self, w):
        w.on_t(w.t.ping, self.ghost(9))


class DHTDiscoveryScenario(DHTScenario):
    name = "DHTDiscoveryCommunity"

    def cls(self):
        from ipv8.dht.discovery import DHTDiscoveryCommunity
        return DHTDiscoveryCommunity

    async def extra(self, w):
        await DHTScenario.extra(self, w)
        w.on_t(w.t.store_peer)
        for p in w.peers:
            w.call(p.overlay.store_peer)
        await asyncio.sleep(1)
        w.on_t(w.t.connect_peer, w.peers[0].my_peer.mid)
        w.on_t(w.t.connect_peer, b"\x33" * 20)          # nobody stored this one: a DHT lookup, then connect requests
        w.call(w.peers[1].overlay.connect_peer, w.T.my_peer.mid)
        await asyncio.sleep(1)
        w.on_t(w.t.ping_all)


class TunnelScenario(Scenario):
    name = "TunnelCommunity"

    def cls(self):
        from ipv8.messaging.anonymization.community import TunnelCommunity
        return TunnelCommunity

    def build(self, w):
        from ipv8.messaging.anonymization.tunnel import (PEER_FLAG_EXIT_BT, PEER_FLAG_EXIT_IPV8, PEER_FLAG_RELAY,
                                                         PEER_FLAG_SPEED_TEST)
        c = self.cls()
        ex = {PEER_FLAG_RELAY, PEER_FLAG_SPEED_TEST, PEER_FLAG_EXIT_BT, PEER_FLAG_EXIT_IPV8}
        rl = {PEER_FLAG_RELAY, PEER_FLAG_SPEED_TEST}
        w.node(c, observed=True, peer_flags=set(ex))      # T: relay and exit
        w.node(c, peer_flags=set(rl))                     # P1: knows everybody
        w.node(c, peer_flags=set(rl))                     # P2: knows T and P3 only -> its 2 hop circuits relay through T
        w.node(c, peer_flags=set(ex))                     # P3: exit
        w.net.dns["tracker.example"] = "5.6.7.8"

    async def script(self, w):
        from ipv8.messaging.interfaces.udp.endpoint import DomainAddress
        t, (p1, p2, p3) = w.t, w.peers
        w.introduce(pairs={(0, 1), (0, 3), (1, 3), (2, 0), (2, 3)})
        await asyncio.sleep(1)
        w.introduce(pairs={(0, 1), (0, 3), (1, 3), (2, 0), (2, 3)})
        await asyncio.sleep(1)
        own = w.on_t(t.create_circuit, 2)                                             # T originates
        c1 = w.call(p1.overlay.create_circuit, 1, required_exit=w.peer_obj(w.T))      # T exits
        c2 = w.call(p2.overlay.create_circuit, 2, required_exit=w.peer_obj(p3))       # T relays
        await asyncio.sleep(2)
        if c1 is not None and c1.hop is not None:
            w.call(p1.overlay.send_data, c1.hop.address, c1.circuit_id, ("1.2.3.4", 5000), ("0.0.0.0", 0), BT_QUERY)
        if c2 is not None and c2.hop is not None:
            w.call(p2.overlay.send_data, c2.hop.address, c2.circuit_id, ("1.2.3.5", 5000), ("0.0.0.0", 0), BT_QUERY)
        if own is not None and own.hop is not None:
            w.on_t(t.send_data, own.hop.address, own.circuit_id, ("1.2.3.6", 5000), ("0.0.0.0", 0), BT_QUERY)
        await asyncio.sleep(1)
        for tr in list(w.rec.socks):
            if not tr.closed:
                w.rec.log("SockIn", w.rec.socks[tr])
                tr.inject(BT_REPLY, ("1.2.3.4", 5000))
        await asyncio.sleep(1)
        if c1 is not None and c1.hop is not None:
            w.call(p1.overlay.send_data, c1.hop.address, c1.circuit_id, DomainAddress("tracker.example", 6969),
                   ("0.0.0.0", 0), BT_QUERY)
        await self.extra(w)
        await asyncio.sleep(17)
        if c1 is not None and c1.hop is not None:
            w.call(p1.overlay.send_data, c1.hop.address, c1.circuit_id, ("1.2.3.4", 5000), ("0.0.0.0", 0), BT_QUERY)
        await asyncio.sleep(1)
        # the owners give up their circuits: T gets DESTROY for the circuit it exits and for the one it relays and
        # schedules their removal (remove_tunnel_delay); unload requested while those removals are pending
        w.mark()
        w.call(p1.overlay.remove_circuit, c1.circuit_id if c1 is not None else 0, "script", destroy=True)
        w.call(p2.overlay.remove_circuit, c2.circuit_id if c2 is not None else 0, "script", destroy=True)
        await asyncio.sleep(7)

    async def extra(self, w):
        return


class ExitScenario(TunnelScenario):
    """T only exits (no circuit of its own, nothing relayed): the removal of an exit socket is scheduled by the DESTROY
    of the circuit's owner, and unload is requested while that removal waits out remove_tunnel_delay - first with a
    second exit socket that has no removal pending, then with the exit socket whose removal is pending being the only
    thing unload has to wait for."""
    name = "TunnelCommunity/exit-only"
    dense_times = (0.05, 0.9, 2.5, 4.5)

    def build(self, w):
        from ipv8.messaging.anonymization.tunnel import (PEER_FLAG_EXIT_BT, PEER_FLAG_EXIT_IPV8, PEER_FLAG_RELAY,
                                                         PEER_FLAG_SPEED_TEST)
        c = self.cls()
        w.node(c, observed=True, peer_flags={PEER_FLAG_RELAY, PEER_FLAG_SPEED_TEST, PEER_FLAG_EXIT_BT, PEER_FLAG_EXIT_IPV8})
        w.node(c, peer_flags={PEER_FLAG_RELAY, PEER_FLAG_SPEED_TEST})
        w.node(c, peer_flags={PEER_FLAG_RELAY, PEER_FLAG_SPEED_TEST})

    async def script(self, w):
        p1, p2 = w.peers
        for _ in range(2):
            w.introduce(pairs={(0, 1), (0, 2)})
            await asyncio.sleep(1)
        c1 = w.call(p1.overlay.create_circuit, 1, required_exit=w.peer_obj(w.T))
        c2 = w.call(p2.overlay.create_circuit, 1, required_exit=w.peer_obj(w.T))
        await asyncio.sleep(2)
        for p, c, dst in ((p1, c1, "1.2.3.4"), (p2, c2, "1.2.3.5")):
            if c is not None and c.hop is not None:
                w.call(p.overlay.send_data, c.hop.address, c.circuit_id, (dst, 5000), ("0.0.0.0", 0), BT_QUERY)
        await asyncio.sleep(1)
        for tr in list(w.rec.socks):
            if not tr.closed:
                w.rec.log("SockIn", w.rec.socks[tr])
                tr.inject(BT_REPLY, ("1.2.3.4", 5000))
        await asyncio.sleep(1)
        # first one owner gives up its circuit (the other exit socket has no removal pending: unload removes it itself
        # and waits for that), then the other one (every exit socket left has a removal pending)
        for p, c in ((p2, c2), (p1, c1)):
            w.mark()
            w.call(p.overlay.remove_circuit, c.circuit_id if c is not None else 0, "script", destroy=True)
            await asyncio.sleep(7)


class ExitFaultScenario(ExitScenario):
    """T only exits, on a host where opening an outside socket takes a while and may be refused: the exit sockets of
    four circuits acquire their transports under these conditions -
      1: no IPv6 on the host (the IPv4 socket exists, the IPv6 one is refused);
      2: no descriptor left for the first (IPv4) socket;
      3: both sockets open, the IPv6 one slowly;
      4: enabled by a late data cell of a circuit whose owner has already sent DESTROY - the delayed removal of that
         exit socket closes it while its second socket is still being opened (the opening job is cancelled).
    Unload is requested at every event while the sockets of 1-3 are being opened, around the cancelled opening of 4, and
    after the owners gave up the circuits (removals pending for exit sockets with a partial set of transports)."""
    name = "TunnelCommunity/exit-faults"
    dense = ()
    dense_times = (0.07, 0.12, 2.5)
    PLAN = {(1, 4): ("ok", 0.05), (1, 6): ("fail", 0.05),
            (2, 4): ("fail", 0.05), (2, 6): ("ok", 0.15),
            (3, 4): ("ok", 0.05), (3, 6): ("ok", 0.15),
            (4, 4): ("ok", 0.05), (4, 6): ("ok", 0.2)}

    async def script(self, w):
        p1, p2 = w.peers
        w.rec.open_plan = dict(self.PLAN)
        for _ in range(2):
            w.introduce(pairs={(0, 1), (0, 2)})
            await asyncio.sleep(1)
        me = w.peer_obj(w.T)
        cs = [w.call(p.overlay.create_circuit, 1, required_exit=me) for p in (p1, p2, p1, p2)]
        await asyncio.sleep(2)
        owners = list(zip((p1, p2, p1, p2), cs, ("1.2.3.4", "1.2.3.5", "1.2.3.6", "1.2.3.7")))

        def send(p, c, dst):
            if c is not None and c.hop is not None:
                w.call(p.overlay.send_data, c.hop.address, c.circuit_id, (dst, 5000), ("0.0.0.0", 0), BT_QUERY)

        def outside_replies():
            for tr in list(w.rec.socks):
                if not tr.closed:
                    w.rec.log("SockIn", w.rec.socks[tr])
                    tr.inject(BT_REPLY, ("1.2.3.4", 5000))
        # exit sockets 1-3 are enabled and open their transports side by side
        w.mark()
        for p, c, dst in owners[:3]:
            send(p, c, dst)
        await asyncio.sleep(1)
        for p, c, dst in owners[:3]:
            send(p, c, dst)                  # what was queued / what goes out through a partial set of transports
        outside_replies()
        await asyncio.sleep(1)
        # the owner of circuit 4 gives it up; just before T removes the exit socket a last data cell enables it
        p, c, dst = owners[3]
        w.call(p.overlay.remove_circuit, c.circuit_id if c is not None else 0, "script", destroy=True)
        await asyncio.sleep(4.92)
        w.mark()
        send(p, c, dst)
        await asyncio.sleep(1)
        outside_replies()
        await asyncio.sleep(1)
        # the other owners give up as well: removals pending for exit sockets of which one has a single transport
        w.mark()
        for p, c, _dst in owners[:3]:
            w.call(p.overlay.remove_circuit, c.circuit_id if c is not None else 0, "script", destroy=True)
        await asyncio.sleep(7)


class HiddenTunnelScenario(TunnelScenario):
    name = "HiddenTunnelCommunity"

    def cls(self):
        from ipv8.messaging.anonymization.hidden_services import HiddenTunnelCommunity
        return HiddenTunnelCommunity

    async def extra(self, w):
        ih = b"\x07" * 20
        w.on_t(w.t.join_swarm, ih, 1, None, False)
        w.call(w.peers[0].overlay.join_swarm, ih, 1, None, True)
        w.on_t(w.t.create_introduction_point, ih)
        await asyncio.sleep(1)


class PexScenario(Scenario):
    name = "PexCommunity"

    def build(self, w):
        from ipv8.messaging.anonymization.pex import PexCommunity
        w.node(PexCommunity, observed=True, info_hash=b"\x05" * 20)
        for _ in range(2):
            w.node(PexCommunity, info_hash=b"\x05" * 20)

    async def script(self, w):
        w.on_t(w.t.start_announce, b"seeder-pk-1")
        w.call(w.peers[0].overlay.start_announce, b"seeder-pk-2")
        await self.generic(w)
        for p in w.peers:
            w.on_t(w.t.send_ping, w.peer_obj(p))
        await asyncio.sleep(11)
        await self.generic(w)


class IdentityScenario(Scenario):
    name = "IdentityCommunity"

    def build(self, w):
        from ipv8.attestation.identity.community import IdentityCommunity
        w.node(IdentityCommunity, observed=True, working_directory=":memory:")
        for _ in range(2):
            w.node(IdentityCommunity, working_directory=":memory:")

    async def script(self, w):
        await self.generic(w)
        h1, h2 = b"a" * 32, b"b" * 32
        p1, p2 = w.peers
        # T asks p1 to attest; p2 asks T to attest
        w.call(p1.overlay.add_known_hash, h1, "attribute", w.T.my_peer.public_key.key_to_bin())
        w.on_t(w.t.request_attestation_advertisement, w.peer_obj(p1), h1, "attribute")
        w.on_t(w.t.add_known_hash, h2, "attribute", p2.my_peer.public_key.key_to_bin())
        w.call(p2.overlay.request_attestation_advertisement, w.peer_obj(w.T), h2, "attribute")
        await asyncio.sleep(2)
        w.on_t(w.t.self_advertise, b"c" * 32, "selfsigned", None)
        await asyncio.sleep(11)
        await self.generic(w)


class AttestationScenario(Scenario):
    name = "AttestationCommunity"

    def build(self, w):
        from ipv8.attestation.wallet.community import AttestationCommunity
        w.node(AttestationCommunity, observed=True, working_directory=":memory:")
        for _ in range(2):
            w.node(AttestationCommunity, working_directory=":memory:")

    async def script(self, w):
        from ipv8.attestation.wallet.primitives.structs import BonehPrivateKey
        from ipv8.util import succeed
        sk = BonehPrivateKey.unserialize(unhexlify(BONEH_SK))
        await self.generic(w)
        p1, p2 = w.peers
        got = {}
        w.on_t(w.t.set_attestation_request_callback, lambda *_a: succeed(b"AttributeValue"))
        w.on_t(w.t.set_verify_request_callback, lambda *_a: succeed(True))
        w.call(p1.overlay.set_attestation_request_callback, lambda *_a: succeed(b"AttributeValue"))
        w.call(p1.overlay.set_attestation_request_complete_callback,
               lambda peer, name, ahash, *_a: got.setdefault("hash", ahash))
        w.call(p1.overlay.request_attestation, w.peer_obj(w.T), "MyAttribute", sk)   # T attests
        w.on_t(w.t.request_attestation, w.peer_obj(p1), "MyAttribute", sk)             # T is attested
        await asyncio.sleep(2)
        if w.t is not None and w.loaded:
            try:
                entries = w.t.database.get_all()
            except Exception:  # noqa: BLE001
                entries = []
            if entries:
                ahash = entries[0][0]
                w.call(p2.overlay.verify_attestation_values, w.T.address, ahash, [b"AttributeValue"],
                       lambda *_a: None, "id_metadata")
        await asyncio.sleep(3)
        w.on_t(w.t.request_attestation, w.peer_obj(p2), "Unanswered", sk)              # cache will time out
        await asyncio.sleep(12)
        await self.generic(w)


SCENARIOS = [PlainScenario(), BootScenario(), DiscoveryScenario(), DHTScenario(), DHTDiscoveryScenario(), TunnelScenario(),
             ExitScenario(), ExitFaultScenario(),
             HiddenTunnelScenario(), PexScenario(), IdentityScenario(), AttestationScenario()]


# ------------------------------------------------------------------------------------------------------
# one run
# ------------------------------------------------------------------------------------------------------
class ProbeLog:
    def __init__(self):
        self.calls = 0


def run_once(scen, wiring, k, seed, keys, late=True):
    """-> trace dict. k = index (1-based) of the event at which unload() is requested; None: after the script."""
    random.seed(zlib.crc32(("%s/%s/%d" % (scen.name, wiring, seed)).encode()))
    at_time = None
    if isinstance(k, float):
        at_time, k = k, None
    loop = obs.ObsLoop()
    vloop.install(loop)
    net = attach(loop, SimNet(loop))
    rec = obs.Recorder(net)
    obs.install(loop, net, rec)
    w = World(loop, net, rec, wiring, keys)
    info = {}

    async def main():
        scen.build(w)
        rec.trigger_at = k
        rec.on_trigger = w.request_unload
        if at_time is not None:
            loop.call_later(at_time, w.request_unload)
        await scen.script(w)
        info["script_events"] = len(rec.events)
        if rec.phase == "loaded":
            w.request_unload()
        await asyncio.wait_for(w.unload_task, 3600)
        info["done_index"] = len(rec.events)
        if late:
            await late_phase(w)

    try:
        loop.run_until_complete(main())
    finally:
        obs.ACTIVE = None
        try:
            pending = [t for t in asyncio.all_tasks(loop) if not t.done()]
            for t in pending:
                t.cancel()
            if pending:
                loop.run_until_complete(asyncio.gather(*pending, return_exceptions=True))
        except Exception:  # noqa: BLE001
            pass
        loop.close()
        asyncio.set_event_loop(None)
        vloop.uninstall()
    return {"cls": scen.name, "wiring": wiring, "kind": w.kind, "k": k if at_time is None else at_time, "seed": seed, "events": rec.events,
            "notes": rec.notes, "script_events": info.get("script_events", 0), "done_index": info.get("done_index", 0), "marks": w.marks, "mark_times": w.mark_times,
            "unload_error": w.unload_error}


def _deliver(w, src, data):
    """A late datagram reaches T's socket endpoint (exceptions of listeners end up in the endpoint's error log)."""
    try:
        w.net.deliver(w.net.inject(src, w.T.address, data))
    except Exception as e:  # noqa: BLE001
        w.listener_errors.append(repr(e))


async def late_phase(w):
    rec, net, t, T = w.rec, w.net, w.t, w.T
    prefix = t.get_prefix()
    src = w.peers[0].address
    seen = set()
    captured = []
    for dg in net.wire:
        if dg.dst == (T.address[0], T.address[1]) and dg.fate == "delivered" and dg.data not in seen:
            seen.add(dg.data)
            captured.append(dg)
    # the most recent datagrams of every (source, message id) first; bounded
    by_kind = {}
    for dg in captured:
        mid = dg.data[22] if len(dg.data) > 22 else -1
        by_kind.setdefault((dg.src, mid), []).append(dg)
    chosen = []
    for lst in by_kind.values():
        chosen.extend(lst[-2:])
    rec.context = "late"
    for dg in chosen[:120]:
        rec.context = "replayed capture msg %s from %s" % (dg.data[22] if len(dg.data) > 22 else "-", dg.src)
        _deliver(w, dg.src, dg.data)
    await asyncio.sleep(0.01)
    for mid in range(256):
        rec.context = "forged datagram msg %d" % mid
        _deliver(w, src, prefix + bytes([mid]) + bytes(range(40)))
    for i, foreign in enumerate((b"\x00\x02" + b"\xee" * 20, b"\x00\x01" + prefix[2:], b"\xff" * 22)):
        rec.context = "datagram of a foreign overlay %d" % i
        _deliver(w, src, foreign + bytes([246]) + bytes(range(40)))
    await asyncio.sleep(0.01)
    for tr in list(rec.socks):
        if not tr.closed:
            rec.log("SockIn", rec.socks[tr], note="late outside datagram")
            tr.inject(BT_REPLY, ("1.2.3.4", 5000))
    await asyncio.sleep(0.01)
    if rec.bsocks:
        from ipv8.bootstrapping.udpbroadcast.bootstrapper import HDR_ANNOUNCE
        rec.context = "late datagram on a bootstrap socket"
        w.boot_in(HDR_ANNOUNCE + prefix, src, "late beacon")
        w.boot_in(w.peers[0].overlay.create_introduction_request(T.address), src, "late introduction request")
        await asyncio.sleep(0.01)
    # the application tries to start new work on the unloaded overlay: must be refused
    probe = ProbeLog()

    def tick():
        probe.calls += 1
    try:
        t.register_task("c11-late-interval", tick, interval=30, delay=0)
        t.register_anonymous_task("c11-late-anon", tick, delay=5)
        t.replace_task("c11-late-interval", tick, interval=30)
    except Exception:  # noqa: BLE001
        pass
    rc = getattr(t, "request_cache", None)
    if rc is not None:
        from ipv8.requestcache import NumberCache

        class LateCache(NumberCache):
            def on_timeout(self):
                probe.calls += 1
        try:
            rc.add(LateCache(rc, "c11-late", 1))
        except Exception:  # noqa: BLE001
            pass
    await asyncio.sleep(LATE_PEERS_ALIVE)
    for p in w.peers:
        try:
            await p.overlay.unload()
        except Exception:  # noqa: BLE001
            pass
    await asyncio.sleep(LATE_TOTAL - LATE_PEERS_ALIVE)
    rec.probe_calls = probe.calls
