"""G01 - the observer O: a real DiscoveryCommunity with real RandomWalk / EdgeWalk / RandomChurn strategies, a real
Network and a real DispersyBootstrapper on the simulated network (manual delivery) under the step-mode virtual clock.

Remote parties are either *scripted* (binding R: real overlay objects used to build the signed datagrams the
specification's environment actions describe) or *live* (binding T: full DiscoveryCommunity nodes with their own
strategies). Randomness of the code under test (random.choice / randint / sample / random of the strategy and community
modules) is routed through a Chooser that either follows a script (R) or a seeded generator (T)."""
from __future__ import annotations

import hashlib

from .tlc import FrozenDict, MachineryError

NONE = "none"
MSG_IREQ, MSG_IRESP, MSG_SIMREQ, MSG_SIMRESP, MSG_PING, MSG_PONG = 246, 245, 1, 2, 3, 4
MSG_NEW_IREQ, MSG_NEW_IRESP = 234, 233      # NewIntroductionRequestPayload / NewIntroductionResponsePayload
_ENV = {}


def env():
    """One step-mode loop and the ipv8 imports (after the clock has been installed)."""
    if _ENV:
        return _ENV
    from .common import setup_repo_path
    setup_repo_path()
    from . import vloop
    loop = vloop.install(vloop.StepLoop(start=1_000_000.0))
    import ipv8.bootstrapping.dispersy.bootstrapper as boot_mod
    import ipv8.community as com_mod
    import ipv8.peerdiscovery.churn as churn_mod
    import ipv8.peerdiscovery.discovery as disc_mod
    from ipv8.keyvault.crypto import default_eccrypto
    from ipv8.messaging.interfaces.udp.endpoint import UDPv4Address
    from ipv8.messaging.payload_headers import GlobalTimeDistributionPayload
    from ipv8.peer import Peer
    from ipv8.peerdiscovery.community import DiscoveryCommunity, PingRequestCache
    from ipv8.peerdiscovery.payload import PingPayload

    from . import nodes, simnet
    _ENV.update(loop=loop, vloop=vloop, nodes=nodes, simnet=simnet, boot_mod=boot_mod, com_mod=com_mod,
                churn_mod=churn_mod, disc_mod=disc_mod, ecc=default_eccrypto, UDPv4Address=UDPv4Address,
                Peer=Peer, DiscoveryCommunity=DiscoveryCommunity, PingRequestCache=PingRequestCache,
                PingPayload=PingPayload, Dist=GlobalTimeDistributionPayload, keys={}, chooser=Chooser())
    ch = _ENV["chooser"]
    # the code under test draws from these module-level names; nothing in /repo is edited
    disc_mod.choice, disc_mod.randint = ch.disc_choice, ch.disc_randint
    churn_mod.sample = ch.churn_sample
    com_mod.choice, com_mod.random = ch.com_choice, ch.com_random
    boot_mod.choice = ch.boot_choice
    return _ENV


def key_of(name):
    e = env()
    if name not in e["keys"]:
        seed = hashlib.sha512(b"g01-key-" + name.encode()).digest()
        e["keys"][name] = e["ecc"].key_from_private_bin(b"LibNaCLSK:" + seed)
    return e["keys"][name]


class Chooser:
    """Stands in for random.* of the modules under test. mode 'script': the driver queues the picks the specification
    made (by name); mode 'rng': a seeded generator decides and the picks are logged."""

    def __init__(self):
        self.world = None
        self.mode = "rng"
        self.rng = None
        self.reset()

    def reset(self):
        self.walk = True          # RandomWalk: randint(0, 255) >= reset_chance ?
        self.keep = False         # get_new_introduction: random() < 0.05 ?
        self.picks = []           # names to be returned by the next choice() calls, in order
        self.window = None        # names of the churn window
        self.free = False         # draws the specification does not model (content of O's own answers) are not scripted
        self.problems = []
        self.log = []

    # -- helpers
    def _name(self, x):
        return self.world.name_of(x) if self.world is not None else None

    def _pick(self, site, seq):
        seq = list(seq)
        if self.mode == "rng" or self.free or self.world is None or not self.world.controls(seq):
            x = self.rng.choice(seq) if self.rng is not None else seq[0]
            self.log.append((site, self._name(x)))
            return x
        if not self.picks:
            self.problems.append("%s: the code draws from %s where the specification makes no choice"
                                 % (site, sorted(map(str, map(self._name, seq)))))
            return seq[0]
        want = self.picks.pop(0)
        for x in seq:
            if self._name(x) == want:
                return x
        self.problems.append("%s: the specification picks %s, the code offers only %s"
                             % (site, want, sorted(map(str, map(self._name, seq)))))
        return seq[0]

    # -- the patched names
    def disc_choice(self, seq):
        return self._pick("discovery.choice", seq)

    def disc_randint(self, a, b):
        if self.mode == "rng" and self.rng is not None:
            v = self.rng.randint(a, b)
            self.log.append(("randint", v))
            return v
        return b if self.walk else a

    def com_choice(self, seq):
        return self._pick("community.choice", seq)

    def com_random(self):
        if self.mode == "rng" and self.rng is not None:
            v = self.rng.random()
            self.log.append(("random", v))
            return v
        return 0.0 if self.keep else 1.0

    def boot_choice(self, seq):
        return self._pick("bootstrapper.choice", seq)

    def churn_sample(self, population, k):
        population = list(population)
        if self.mode == "rng" or self.world is None or not self.world.controls(population):
            out = self.rng.sample(population, k) if self.rng is not None else population[:k]
            self.log.append(("sample", sorted(map(str, map(self._name, out)))))
            return out
        want = sorted(self.window if self.window is not None else [])
        out = [x for x in sorted(population, key=lambda x: str(self._name(x))) if self._name(x) in want]
        if len(out) != k or len(want) != k:
            self.problems.append("churn.sample: the code samples %d of %s, the specification's window is %s"
                                 % (k, sorted(map(str, map(self._name, population))), want))
            out = (out + [x for x in population if x not in out])[:k]
        return out


class World:
    """O plus its remote parties. `names`: dict(peers=[...], ghosts=[...], trackers=[...]); `par`: the constants of the
    specification (times in units of `unit` seconds)."""

    def __init__(self, names, par, unit=5.0, live=False, gt0=0):
        e = env()
        self.e = e
        loop = e["loop"]
        # forget everything earlier worlds left on the loop; start at a multiple of the unit (exact floats)
        loop._scheduled.clear()
        loop._ready.clear()
        loop._vt = float((int(loop._vt // 1000) + 1) * 1000)
        self.loop = loop
        self.t0 = loop._vt
        self.unit = unit
        self.par = par
        self.live = live
        self.net = e["simnet"].SimNet(loop, auto=False)
        self.peers, self.ghosts, self.trackers = list(names["peers"]), list(names["ghosts"]), list(names["trackers"])
        self.addr_of, self.name_of_addr, self.name_of_key = {}, {}, {}
        self.node, self.ov = {}, {}
        Node = e["nodes"].Node
        DC = e["DiscoveryCommunity"]
        ip = 1
        for n in ["own"] + self.peers + self.trackers:
            node = Node(self.net, key=key_of(n), ip="80.0.%d.%d" % (ip // 200, ip % 200 + 1))
            ip += 1
            kw = {}
            if n == "own":
                kw["max_peers"] = par["MaxPeers"]
            ov = loop.call(node.add, DC, **kw)
            self.node[n], self.ov[n] = node, ov
            self._bind(n, node.address)
            self.name_of_key[node.my_peer.public_key.key_to_bin()] = n
        for i, g in enumerate(self.ghosts):
            self._bind(g, e["UDPv4Address"]("80.9.0.%d" % (i + 1), 8090))
        self.O = self.ov["own"]
        # what Overlay.claim_global_time counts up: gt0 > 0 = an overlay that has been running for a while
        self.O.my_peer._lamport_timestamp = gt0
        self.Oep = self.node["own"].sim_endpoint
        self.network = self.O.network
        self.boot = None
        if self.trackers:
            self.boot = e["boot_mod"].DispersyBootstrapper([self.addr_of[t] for t in self.trackers], [],
                                                           bootstrap_timeout=par["BootTimeout"] * unit)
            self.O.bootstrappers.append(self.boot)
        D, C = e["disc_mod"], e["churn_mod"]
        self.rw = D.RandomWalk(self.O, timeout=par["WalkTimeout"] * unit, window_size=par["Window"],
                               target_interval=par["TargetInterval"] * unit) if par["UseWalk"] else None
        self.ew = D.EdgeWalk(self.O, edge_length=par["EdgeLen"], neighborhood_size=par["NbSize"],
                             edge_timeout=par["EdgeTimeout"] * unit) if par["UseEdge"] else None
        self.ch = C.RandomChurn(self.O, sample_size=par["SampleSize"], ping_interval=par["PingInterval"] * unit,
                                inactive_time=par["InactiveTime"] * unit,
                                drop_time=par["DropTime"] * unit) if par["UseChurn"] else None
        self.maxpings = 5
        self.order_first = None        # (peer names first, address names first) for get_peers / get_walkable_addresses
        self._wrap_order()
        self.ping_ident = {}           # peer name -> identifier of the latest ping O sent to it
        self.sent = {"reqs": set(), "pings": set()}
        self.pkt_cache = {}
        self._seen_seq = self.net.seq
        e["chooser"].world = self
        e["chooser"].reset()
        self.net.inflight.clear()

    # ------------------------------------------------------------------ names
    def _bind(self, name, address):
        self.addr_of[name] = address
        self.name_of_addr[(address[0], address[1])] = name

    def name_of(self, x):
        """Peer -> name of its key; address -> name; anything else -> None"""
        if isinstance(x, self.e["Peer"]):
            return self.name_of_key.get(x.public_key.key_to_bin(), "?key")
        if isinstance(x, tuple) and len(x) == 2:
            return self.name_of_addr.get((x[0], x[1]), "?addr:%s:%s" % (x[0], x[1]))
        return None

    def controls(self, seq):
        """does this draw belong to O (and not to a live remote node)?"""
        if not self.live:
            return True
        return self._drawing_for_o

    _drawing_for_o = True

    def _wrap_order(self):
        """EdgeWalk slices get_peers() / get_walkable_addresses(): both lists come out of sets, their order is not part
        of any contract. The wrappers only permute the real result so that the subset the specification chose is first."""
        ov = self.O
        real_peers, real_walkable = ov.get_peers, ov.get_walkable_addresses

        def get_peers():
            out = real_peers()
            if self.order_first is not None:
                first = self.order_first[0]
                out = sorted(out, key=lambda p: (self.name_of(p) not in first, str(self.name_of(p))))
            return out

        def get_walkable_addresses():
            out = real_walkable()
            if self.order_first is not None:
                first = self.order_first[1]
                out = sorted(out, key=lambda a: (self.name_of(a) not in first, str(self.name_of(a))))
            return out
        ov.get_peers, ov.get_walkable_addresses = get_peers, get_walkable_addresses

    # ------------------------------------------------------------------ time
    def now(self):
        t = (self.loop.time() - self.t0) / self.unit
        if t != int(t):
            raise MachineryError("clock %r is not on the unit grid" % t)
        return int(t)

    def tm(self, t):
        """a time stamp of the code -> specification time (0 in the code = never)"""
        if t == 0:
            return -1
        v = (t - self.t0) / self.unit
        return int(v) if v == int(v) else v

    def tick(self, d=1):
        self.loop.advance_to(self.t0 + (self.now() + d) * self.unit)
        self._collect()

    # ------------------------------------------------------------------ wire
    def _collect(self):
        """what O put on the wire since the last call (introduction requests and pings, by destination)"""
        for dg in list(self.net.inflight):
            if dg.sender is self.Oep and len(dg.data) > 22 and dg.seq > self._seen_seq:
                mid = dg.data[22]
                dst = self.name_of_addr.get(dg.dst, "?addr:%s:%s" % dg.dst)
                if mid in (MSG_IREQ, MSG_NEW_IREQ):
                    self.sent["reqs"].add(dst)
                elif mid == MSG_PING:
                    self.sent["pings"].add(dst)
                    self.ping_ident[(dst, self.now())] = int.from_bytes(dg.data[-2:], "big")
        self._seen_seq = self.net.seq
        if not self.live:
            self.net.inflight.clear()

    def _run(self, fn, *a):
        self.sent = {"reqs": set(), "pings": set()}
        self.loop.call(fn, *a)
        self.loop.drain()
        self._collect()

    def deliver_to_o(self, src_name, data):
        dg = self.net.inject(self.addr_of[src_name], self.addr_of["own"], data)
        self._run(self.net.deliver, dg)

    # ------------------------------------------------------------------ scripted remote parties (binding R)
    def _cached(self, key, make):
        if key not in self.pkt_cache:
            self.pkt_cache[key] = make()
        return self.pkt_cache[key]

    def pkt_intro_req(self, p):
        return self.loop.call(self.ov[p].create_introduction_request, self.addr_of["own"])

    def pkt_intro_resp(self, p, a):
        intro = None
        if a != NONE:
            intro = self.e["Peer"](key_of(a if a in self.node else "intro-" + a).pub(), self.addr_of[a])
        own = self.addr_of["own"]
        pkt = self.loop.call(self.ov[p].create_introduction_response, own, own, 7, introduction=intro)
        return pkt

    def pkt_sim_resp(self, p):
        ov = self.ov[p]
        return self.loop.call(ov.create_similarity_response, 7, ov.my_peer)

    def pkt_pong(self, p, ident):
        return self.loop.call(self.ov[p].create_pong, ident)

    def pkt_ping(self, p):
        ov = self.ov[p]
        return ov._ez_pack(ov._prefix, 3, [self.e["Dist"](1), self.e["PingPayload"](1)], False)

    # ------------------------------------------------------------------ the specification's actions
    def act(self, name, args):
        ch = self.e["chooser"]
        ch.reset()
        ch.mode = "script"
        self.order_first = None
        ch.free = name.startswith("Recv")
        if name == "Tick":
            self.sent = {"reqs": set(), "pings": set()}
            self.tick(args[0])
        elif name == "RecvIntroReq":
            self.deliver_to_o(args[0], self.pkt_intro_req(args[0]))
        elif name == "RecvSimResp":
            self.deliver_to_o(args[0], self.pkt_sim_resp(args[0]))
        elif name == "RecvIntroResp":
            self.deliver_to_o(args[0], self.pkt_intro_resp(args[0], args[1]))
        elif name == "RecvPong":
            if tuple(args) not in self.ping_ident:
                raise MachineryError("RecvPong%s: O sent no ping to this peer at that time" % (tuple(args),))
            self.deliver_to_o(args[0], self.pkt_pong(args[0], self.ping_ident[tuple(args)]))
        elif name == "RecvOther":
            self.deliver_to_o(args[0], self.pkt_ping(args[0]))
        elif name == "WalkStep":
            a, q = args
            ch.walk = a != NONE
            if a != NONE:
                ch.picks = [a]
            elif q in self.trackers:
                ch.keep = True
                ch.picks = [q]
            elif q != NONE:
                ch.picks = [q]
            self._gated(self.rw)
        elif name == "ChurnStep":
            ch.window = set(args[0])
            self._run(self.ch.take_step)
        elif name == "EdgeNbh":
            self.order_first = (set(args[0]), set(args[1]))
            self._gated(self.ew)
        elif name == "EdgeStart":
            ch.picks = [args[0]]
            self._gated(self.ew)
        elif name == "EdgeGrow":
            choice = dict(args[0]) if isinstance(args[0], (dict, FrozenDict)) else {}
            ch.picks = [choice[self.name_of(r)] for r in self.ew.under_construction
                        if choice.get(self.name_of(r), NONE) != NONE]
            self._gated(self.ew)
        else:
            raise MachineryError("unknown action " + name)
        self.order_first = None
        if ch.picks:
            ch.problems.append("%s%s: the code did not draw the choice(s) %s" % (name, list(args), ch.picks))
        return list(ch.problems)

    def _gated(self, strategy):
        """IPv8.on_tick: `if (target_peers == -1) or (strategy.get_peer_count() < target_peers): strategy.take_step()`"""
        tp = self.par["TargetPeers"]
        self.sent = {"reqs": set(), "pings": set()}
        if tp == -1 or self.loop.call(strategy.get_peer_count) < tp:
            self._run(strategy.take_step)
        else:
            raise MachineryError("the specification takes a gated strategy step while the gate is closed")

    def gate_open(self, strategy):
        tp = self.par["TargetPeers"]
        return tp == -1 or self.loop.call(strategy.get_peer_count) < tp

    # ------------------------------------------------------------------ projection
    def project(self):
        nw = self.network
        names = ["own"] + self.peers + self.ghosts + self.trackers
        st = {"now": self.now()}
        st["known"] = frozenset(self.name_of(a) for a in nw._all_addresses)
        ib = {n: NONE for n in names}
        for a, w in nw._all_addresses.items():
            ib[self.name_of(a)] = NONE if w.introduced_by == b"" else self.name_of_key.get(w.introduced_by, "?key")
        st["introBy"] = FrozenDict(ib)
        ver = {}
        for p in nw.verified_peers:
            n = self.name_of(p)
            if nw.verified_by_public_key_bin.get(p.public_key.key_to_bin()) is not p:
                n = "?unindexed:" + n
            elif self.name_of(p.address) != n:
                n = "?%s@%s" % (n, self.name_of(p.address))
            ver[n] = p
        st["verified"] = frozenset(ver)
        if self.par["UseChurn"]:
            st["lastResp"] = FrozenDict({n: (self.tm(ver[n].last_response) if n in ver else -1) for n in self.peers})
            st["npings"] = FrozenDict({n: (min(len(ver[n].pings), self.par["MaxPings"]) if n in ver else 0)
                                       for n in self.peers})
            pg = {n: -1 for n in self.peers}
            for a, t in self.ch._pinged.items():
                pg[self.name_of(a)] = self.tm(t)
            st["pinged"] = FrozenDict(pg)
            pt = {n: set() for n in self.peers}
            for c in self.O.request_cache._identifiers.values():
                if isinstance(c, self.e["PingRequestCache"]):
                    n = self.name_of(c.peer)
                    if n in ver and ver[n] is c.peer:
                        pt[n].add(self.tm(c.start_time))
            st["pingT"] = FrozenDict({n: frozenset(v) for n, v in pt.items()})
        intros = {n: frozenset() for n in self.peers + self.trackers}
        for p, lst in nw.reverse_intro_lookup.items():
            n = self.name_of(p)
            if lst or n not in intros:
                intros[n] = frozenset(self.name_of(a) for a in lst)
        st["intros"] = FrozenDict(intros)
        st["inited"] = bool(self.trackers) and all(self.addr_of[t] in nw.blacklist for t in self.trackers)
        st["lastBoot"] = self.tm(self.boot.last_bootstrap) if self.boot else -1
        if self.rw is not None:
            wt = {n: -1 for n in names}
            for a, t in self.rw.intro_timeouts.items():
                wt[self.name_of(a)] = self.tm(t)
            st["walkT"] = FrozenDict(wt)
            st["lastStep"] = self.tm(self.rw.last_step)
        if self.ew is not None:
            ew = self.ew
            st["nbh"] = frozenset(self.name_of(p) for p in ew._neighborhood)
            und = {n: () for n in self.peers}
            for r, edge in ew.under_construction.items():
                und[self.name_of(r)] = tuple(self.name_of(p) for p in edge)
                if edge[0] != r:
                    und[self.name_of(r)] = ("?root",) + und[self.name_of(r)]
            st["under"] = FrozenDict(und)
            er = {n: -1 for n in self.peers}
            for r, t in ew.last_edge_responses.items():
                er[self.name_of(r)] = self.tm(t)
            st["edgeResp"] = FrozenDict(er)
            st["complete"] = frozenset(tuple(self.name_of(p) for p in edge) for edge in ew.complete_edges)
        st["out_reqs"] = frozenset(self.sent["reqs"])
        st["out_pings"] = frozenset(self.sent["pings"])
        return st


def spec_view(st):
    """the TLC state in the shape of World.project()"""
    out = dict(st)
    o = out.pop("out")
    out["out_reqs"], out["out_pings"] = o["reqs"], o["pings"]
    for k in ("introBy", "lastResp", "npings", "pinged", "pingT", "intros", "walkT", "under", "edgeResp"):
        v = out.get(k)
        if isinstance(v, tuple):          # a function whose domain is 1..n would be printed as a sequence: not used here
            raise MachineryError("unexpected sequence for " + k)
        if v is not None and not isinstance(v, dict):
            raise MachineryError("unexpected value for %s: %r" % (k, v))
    return out


# ----------------------------------------------------------------------------------------------------------------
# binding T: live remote nodes, seeded schedule, event log
# ----------------------------------------------------------------------------------------------------------------
class LiveWorld(World):
    """O among live DiscoveryCommunity nodes (each with its own RandomWalk + RandomChurn and bootstrapper); a tracker is
    a live node without strategies. One tick = `unit` seconds: timers fall due, every live node's strategies step, the
    datagrams in flight are delivered / lost / delayed by the seeded schedule. Everything O does is logged."""

    def __init__(self, names, par, rng, unit=0.5, loss=0.0, delay=0.0, down=0.0, up=0.1, gt0=0):
        super().__init__(names, par, unit=unit, live=True, gt0=gt0)
        e = self.e
        self.rng = rng
        self.loss, self.delay, self.down, self.up = loss, delay, down, up
        ch = e["chooser"]
        ch.mode = "rng"
        ch.rng = rng
        self.events = []
        self.delayed = []          # (due tick, datagram)
        self.alive = {n: True for n in self.peers + self.trackers}
        self.rstrat = {}
        D, C = e["disc_mod"], e["churn_mod"]
        for n in self.peers:
            ov = self.ov[n]
            if self.trackers:
                ov.bootstrappers.append(e["boot_mod"].DispersyBootstrapper([self.addr_of[t] for t in self.trackers], []))
            self.rstrat[n] = [D.RandomWalk(ov), C.RandomChurn(ov)]
        self._drawing_for_o = False
        self.errors = []

    # ---- logging
    def log(self, a, **kw):
        st = self.project()
        ev = {"a": a}
        ev.update(kw)
        for k, v in st.items():
            ev[k] = _json(v)
        self.events.append(ev)

    def _o_step(self, fn):
        ch = self.e["chooser"]
        ch.log = []
        self._drawing_for_o = True      # only for the log: rng mode never scripts
        try:
            self._run(fn)
        finally:
            self._drawing_for_o = False
        return list(ch.log)

    # ---- O's strategies (the gate of IPv8.on_tick in front of the walkers)
    def step_walk(self):
        if self.gate_open(self.rw):
            self._o_step(self.rw.take_step)
            self.log("WalkStep")

    def step_churn(self):
        picks = self._o_step(self.ch.take_step)
        w = [p[1] for p in picks if p[0] == "sample"]
        self.log("ChurnStep", w=w[0] if w else [])

    def step_edge(self):
        ew = self.ew
        if not self.gate_open(ew):
            return
        nbh_open = not ew._neighborhood or len(ew._neighborhood) < ew.neighborhood_size
        roots = list(ew.under_construction)
        has_cand = {}
        nw = self.network
        for r in roots:
            last = ew.under_construction[r][-1]
            lst = nw.reverse_intro_lookup.get(last)
            if lst is None:
                lst = [a for a, w in nw._all_addresses.items() if w.introduced_by == last.public_key.key_to_bin()]
            has_cand[r] = any(any(a in p.addresses.values() for p in nw.verified_peers) for a in lst)
        waiting = set(ew._neighborhood) - set(roots)
        picks = [p[1] for p in self._o_step(ew.take_step) if p[0] == "discovery.choice"]
        if nbh_open:
            self.log("EdgeNbh")
        elif waiting:
            self.log("EdgeStart")
        else:
            ch = {n: NONE for n in self.peers}
            it = iter(picks)
            for r in roots:
                if has_cand[r]:
                    ch[self.name_of(r)] = next(it, "?missing")
            self.log("EdgeGrow", ch=ch)

    # ---- datagrams
    def _classify(self, dg):
        """event for a datagram that is about to reach O"""
        src = self.name_of_addr.get(dg.src, "?")
        data = dg.data
        if len(data) < 23 or data[:22] != self.O._prefix:
            return "Noop", {}
        mid = data[22]
        verified = any(self.name_of(p) == src for p in self.network.verified_peers)
        if mid in (MSG_IREQ, MSG_NEW_IREQ):
            return "RecvIntroReq", {"p": src}
        if mid == MSG_SIMRESP:
            return "RecvSimResp", {"p": src}
        if mid in (MSG_IRESP, MSG_NEW_IRESP):
            return "RecvIntroResp", {"p": src, "x": self._introduced(data, mid)}
        if mid == MSG_PONG and verified:
            # a pong answers the ping of ours that carried the same identifier on the wire; it counts if that ping's
            # cache is still alive and belongs to the current Peer object (read from the projection, not looked up by
            # identifier: the matching itself is under test)
            ident = int.from_bytes(data[-2:], "big")
            sent_at = [t for (dst, t), i in self.ping_ident.items() if dst == src and i == ident]
            live = self.project()["pingT"].get(src, frozenset())
            hits = [t for t in sent_at if t in live]
            if hits:
                return "RecvPong", {"p": src, "t": max(hits)}
        return ("RecvOther", {"p": src}) if verified else ("Noop", {})

    def _introduced(self, data, mid):
        from ipv8.messaging.payload import IntroductionResponsePayload, NewIntroductionResponsePayload
        from ipv8.messaging.payload_headers import BinMemberAuthenticationPayload
        cls = IntroductionResponsePayload if mid == MSG_IRESP else NewIntroductionResponsePayload
        ser = self.O.serializer
        auth, _ = ser.unpack_serializable(BinMemberAuthenticationPayload, data, offset=23)
        siglen = self.e["ecc"].get_signature_length(self.e["ecc"].key_from_public_bin(auth.public_key_bin))
        pl = ser.unpack_serializable_list([BinMemberAuthenticationPayload, self.e["Dist"], cls], data[:-siglen],
                                          offset=23)[2]
        named = set()
        for a in (pl.lan_introduction_address, pl.wan_introduction_address):
            if (a[0], a[1]) != ("0.0.0.0", 0):
                named.add(self.name_of_addr.get((a[0], a[1]), "?addr:%s:%s" % (a[0], a[1])))
        if len(named) > 1:
            raise MachineryError("introduction of two different hosts in one response: %s" % sorted(named))
        return named.pop() if named else NONE

    def _deliver(self, dg):
        dst = self.name_of_addr.get(dg.dst)
        if dst == "own":
            a, kw = self._classify(dg)
            self.sent = {"reqs": set(), "pings": set()}
            self.loop.call(self.net.deliver, dg)
            self.loop.drain()
            self._collect()
            self.log(a, **kw)
        elif dst in self.alive and self.alive[dst]:
            self.loop.call(self.net.deliver, dg)
            self.loop.drain()
        else:
            dg.fate = "lost:down"

    def _flush(self, tick):
        rng = self.rng
        due = [d for t, d in self.delayed if t <= tick]
        self.delayed = [(t, d) for t, d in self.delayed if t > tick]
        queue = due
        rounds = 0
        while queue or self.net.inflight:
            while self.net.inflight:
                queue.append(self.net.inflight.popleft())
            if not queue:
                break
            rounds += 1
            if rounds > 10000:
                raise MachineryError("datagram storm")
            dg = queue.pop(rng.randrange(len(queue))) if len(queue) > 1 else queue.pop()
            if dg in due:
                due.remove(dg)
                self._deliver(dg)
                continue
            x = rng.random()
            if x < self.loss:
                dg.fate = "dropped"
            elif x < self.loss + self.delay:
                self.delayed.append((tick + rng.choice([1, 2, 4, 7]), dg))
            else:
                self._deliver(dg)

    # ---- one tick
    def run(self, ticks):
        rng = self.rng
        for k in range(1, ticks + 1):
            self.sent = {"reqs": set(), "pings": set()}
            self.tick(1)
            self.log("Tick", d=1)
            self._flush(k)                      # answers to what timers sent (nothing in practice)
            for n in self.peers:
                if self.alive[n] and rng.random() < self.down:
                    self.alive[n] = False
                    self.node[n].sim_endpoint.close()
                elif not self.alive[n] and rng.random() < self.up:
                    self.alive[n] = True
                    self.node[n].sim_endpoint._open = True
            order = ["own"] + [n for n in self.peers if self.alive[n]]
            rng.shuffle(order)
            for n in order:
                if n == "own":
                    for which in rng.sample(["walk", "edge", "churn"], 3):
                        if which == "walk" and self.rw is not None:
                            self.step_walk()
                        elif which == "edge" and self.ew is not None:
                            self.step_edge()
                        elif which == "churn" and self.ch is not None:
                            self.step_churn()
                        if rng.random() < 0.3:
                            self._flush(k)
                else:
                    for s in self.rstrat[n]:
                        self.loop.call(s.take_step)
                        self.loop.drain()
            self._flush(k)
        return self.events


def _json(v):
    if isinstance(v, (set, frozenset)):
        return sorted((_json(x) for x in v), key=repr)
    if isinstance(v, dict):
        return {k: _json(x) for k, x in v.items()}
    if isinstance(v, tuple):
        return [_json(x) for x in v]
    return v
