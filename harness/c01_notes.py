"""C01 helper: what a real overlay keeps ABOUT EACH KEY, read from the live objects without source hooks.

Auth.tla (variable `noted`) says: a delivery that runs no handler leaves everything the node has recorded about any key
alone.  The verified-peer table (Network: key -> addresses) is read by the driver itself; this module reads the rest -
the per-key records an overlay keeps anywhere in its object graph: Peer / Node instances (addresses, last_response,
last_queries, failed, pings ...) wherever they are stored (routing-table buckets, `store`, `store_for_me`, request
caches, Network), and container entries filed under a key's serialized form, its mid (sha1) or the node id of one of
its Node objects.

key_records(overlay, names) -> {key name: digest of every leaf value reachable under an object / entry owned by that
key, with the path that leads to it}.  Two snapshots differ for a key exactly when some record about that key was
created, removed or changed in between.
"""
from __future__ import annotations

import hashlib
from collections import deque

_SKIP_MODULE_PREFIXES = ("asyncio", "_asyncio", "logging", "threading", "_thread", "concurrent", "harness.",
                         "socket", "selectors", "weakref")
_SKIP_ATTRS = {"endpoint", "_endpoint", "logger", "_logger", "serializer", "crypto", "loop", "_loop", "decode_map",
               "decode_map_private", "overlay", "community", "settings"}
_PRIMS = (int, float, str, bytes, bool, type(None))
MAX_OBJECTS = 200000


_BIN = {}      # id(key object) -> (key object, its serialized public form): key objects are immutable, serializing is slow


def keybin(key):
    """Serialized public form of a key object of the key vault (cached per object)."""
    hit = _BIN.get(id(key))
    if hit is None or hit[0] is not key:
        if len(_BIN) > 50000:
            _BIN.clear()
        hit = _BIN[id(key)] = (key, key.pub().key_to_bin())
    return hit[1]


def _is_key(o):
    return hasattr(o, "key_to_bin") and hasattr(o, "pub")


def _is_peer(o):
    return hasattr(o, "public_key") and hasattr(o, "mid") and hasattr(o, "_addresses")


def _skip(o):
    t = type(o)
    if isinstance(o, type) or callable(o) and not hasattr(o, "__dict__"):
        return True
    mod = getattr(t, "__module__", "") or ""
    if mod.startswith(_SKIP_MODULE_PREFIXES) or mod in ("builtins",) and t.__name__ in (
            "module", "function", "method", "builtin_function_or_method", "generator", "coroutine", "cell", "code"):
        return True
    return t.__name__ in ("function", "method", "module", "coroutine", "generator", "Task", "Future", "TimerHandle",
                          "Handle")


def _fields(o):
    out = []
    d = getattr(o, "__dict__", None)
    if isinstance(d, dict):
        out += list(d.items())
    for cls in type(o).__mro__:
        for s in getattr(cls, "__slots__", ()) or ():
            if isinstance(s, str) and hasattr(o, s) and s not in ("__dict__", "__weakref__"):
                out.append((s, getattr(o, s)))
    return out


def _ids_of(root, names):
    """First pass: every byte string that stands for a key - serialized key, mid, node id of its Peer/Node objects."""
    ids = {}
    for kb, nm in names.items():
        ids[kb] = nm
        ids[hashlib.sha1(kb).digest()] = nm
    seen, stack, n = set(), [root], 0
    while stack and n < MAX_OBJECTS:
        o = stack.pop()
        if isinstance(o, _PRIMS) or id(o) in seen or _skip(o):
            continue
        seen.add(id(o))
        n += 1
        if _is_key(o):
            continue
        if _is_peer(o):
            try:
                kb = keybin(o.public_key)
                nm = names.get(kb, "ky")
                ids.setdefault(kb, nm)
                ids.setdefault(o.mid, nm)
                nid = getattr(o, "id", None)
                if isinstance(nid, bytes):
                    ids.setdefault(nid, nm)
            except Exception:  # noqa: BLE001
                pass
        if isinstance(o, dict):
            stack += list(o.keys()) + list(o.values())
        elif isinstance(o, (list, tuple, set, frozenset, deque)):
            stack += list(o)
        else:
            stack += [v for k, v in _fields(o) if k not in _SKIP_ATTRS]
    return ids


def key_records(root, names, detail=False):
    """names: {serialized public key: key name}.  -> {key name: hex digest}  (detail=True: {key name: [leaf, ...]})"""
    ids = _ids_of(root, names)
    leaves = {}
    seen = set()
    n = 0
    # iterative depth-first walk in a deterministic order; (object, path, owner)
    stack = [(root, "", None)]
    while stack and n < MAX_OBJECTS:
        o, path, owner = stack.pop()
        if isinstance(o, _PRIMS):
            if owner is not None:
                leaves.setdefault(owner, []).append("%s=%r" % (path, o))
            continue
        if _is_key(o):
            if owner is not None:
                try:
                    leaves.setdefault(owner, []).append("%s=key:%s" % (path, keybin(o).hex()))
                except Exception:  # noqa: BLE001
                    leaves.setdefault(owner, []).append("%s=key:?" % path)
            continue
        if id(o) in seen or _skip(o):
            continue
        seen.add(id(o))
        n += 1
        if _is_peer(o):
            try:
                o.address      # the preferred address is a cache over _addresses: bring it up to date first
                owner = ids.get(keybin(o.public_key), "ky")
            except Exception:  # noqa: BLE001
                pass
            leaves.setdefault(owner, []).append("%s<%s>" % (path, type(o).__name__))
        nxt = []
        if isinstance(o, dict):
            for k, v in o.items():
                kn = ids.get(k) if isinstance(k, bytes) else None
                if kn is None and isinstance(k, tuple) and k and isinstance(k[0], bytes):
                    kn = ids.get(k[0])
                label = "{%s}" % kn if kn is not None else (k.hex() if isinstance(k, bytes) else repr(k)[:60])
                child_owner = owner if owner is not None else kn
                if not isinstance(k, _PRIMS) and not isinstance(k, tuple):
                    nxt.append((k, "%s[key %s]" % (path, type(k).__name__), child_owner))
                nxt.append((v, "%s[%s]" % (path, label), child_owner))
        elif isinstance(o, (list, tuple, deque)):
            for i, v in enumerate(o):
                nxt.append((v, "%s[%d]" % (path, i), owner))
        elif isinstance(o, (set, frozenset)):
            try:
                items = sorted(o, key=repr)
            except Exception:  # noqa: BLE001
                items = list(o)
            for v in items:
                if isinstance(v, bytes) and owner is None and v in ids:
                    leaves.setdefault(ids[v], []).append("%s{member}" % path)
                nxt.append((v, "%s{}" % path, owner))
        else:
            for k, v in _fields(o):
                if k in _SKIP_ATTRS:
                    continue
                nxt.append((v, "%s.%s" % (path, k), owner))
        stack += reversed(nxt)
    if detail:
        return leaves
    return {k: hashlib.sha1("\n".join(v).encode()).hexdigest() for k, v in leaves.items()}


def touched(before, after):
    """Key names whose records differ between two snapshots."""
    return sorted(k for k in set(before) | set(after) if before.get(k) != after.get(k))
