"""C03 - the registrations as history: TLC's graph of table operations replayed into a real endpoint.

specs/ReceiveMC.tla, Mode = "reg" (Receive_reg_graph*.cfg): every sequence of <= MaxOps add_listener /
add_prefix_listener / remove_listener / open-close over two overlays that SHARE a prefix, a third overlay and a sink.
binding R   every edge of that graph is executed on a fresh real UDPEndpoint (recording transport) with real Community
            objects; after every operation Endpoint._listeners / _prefix_map / is_open() are compared with the state
            TLC computed; the abstract registry of that state (tab.reg / tab.gl) must be served by the real table.
binding T   in every table state (first visit) every small datagram of the model's alphabet - mapped to real 22-byte
            prefixes - enters through UDPEndpoint.datagram_received; operations and deliveries are logged in the
            format of harness/c03_world.py and validated by ReceiveTrace.tla like every other recorded trace.
Nothing in /repo is patched: on_packet and the decode_map entries are wrapped on the instances.
"""
from __future__ import annotations

import os

from .c03_world import SRC, FakeTransport, Obs, in_loop, site_of
from .replay import edge_cover
from .tlc import MachineryError, parse_dot, run_tlc, scratch_dir

ID_A = bytes(range(101, 121))
ID_B = bytes(range(131, 151))
MODEL_LIDS = (1, 2, 3, 6)                 # ReceiveMC.MCLids in reg mode; trace listener ids are 1..4 in this order
PA, PB, PF = (0, 1), (0, 2), (0, 0)       # model prefixes: overlays 1 and 2, overlay 3, nobody's
HANDLERS = {1: (1, 2), 2: (2, 3), 3: (0, 1)}


def evicting(endpoint_cls):
    """negative control of the binding: an endpoint whose add_prefix_listener rebuilds the entry of a prefix"""
    class Evicting(endpoint_cls):
        def add_prefix_listener(self, listener, prefix):
            with self.listener_update_lock:
                self._prefix_map[prefix] = [listener, *self._listeners]
    return Evicting


def pruning(endpoint_cls):
    """negative control of the binding: remove_listener drops every entry the listener was part of"""
    class Pruning(endpoint_cls):
        def remove_listener(self, listener):
            with self.listener_update_lock:
                self._listeners = [x for x in self._listeners if x != listener]
                self._prefix_map = {p: ls for p, ls in self._prefix_map.items() if listener not in ls}
    return Pruning


class _Carrier:
    """what FakeTransport wants from a world"""

    def __init__(self, obs):
        self.obs = obs


class Reg:
    def __init__(self, loop):
        from ipv8.community import Community, CommunitySettings
        from ipv8.keyvault.crypto import default_eccrypto
        from ipv8.messaging.interfaces.endpoint import EndpointListener
        from ipv8.messaging.interfaces.udp.endpoint import UDPEndpoint
        from ipv8.peer import Peer
        from ipv8.peerdiscovery.network import Network
        self.loop, self.endpoint_cls = loop, UDPEndpoint
        self.obs = Obs()
        self.carrier = _Carrier(self.obs)

        def mk(name, cid, ids):
            def init(self, settings):
                Community.__init__(self, settings)
                for i in ids:
                    self.add_message_handler(i, self.on_any)

            def on_any(self, addr, data):
                self.seen = getattr(self, "seen", 0) + 1
            return type(name, (Community,), {"community_id": cid, "__init__": init, "on_any": on_any})

        class Sink(EndpointListener):
            def on_packet(self, packet):
                pass

        home = self.fresh()
        key = default_eccrypto.generate_key("curve25519")
        network = Network()

        async def build():
            out = {}
            for lid, (name, cid) in {1: ("RegA", ID_A), 2: ("RegTwin", ID_A), 3: ("RegB", ID_B)}.items():
                out[lid] = mk(name, cid, HANDLERS[lid])(CommunitySettings(my_peer=Peer(key, ("127.0.0.1", 8190)),
                                                                        endpoint=home, network=network))
            return out
        self.objs = loop.run_until_complete(build())
        self.objs[6] = Sink(home)
        self.tl = {m: i + 1 for i, m in enumerate(MODEL_LIDS)}        # model listener id -> trace listener id
        self.by_obj = {id(o): m for m, o in self.objs.items()}
        self.prefix = {PA: self.objs[1].get_prefix(), PB: self.objs[3].get_prefix()}
        if self.objs[2].get_prefix() != self.prefix[PA] or self.prefix[PA] == self.prefix[PB]:
            raise MachineryError("the harness overlays do not have the prefixes the model gives them")
        self.prefix[PF] = self.prefix[PA][:21] + bytes([self.prefix[PA][21] ^ 1])
        self.model_of = {v: k for k, v in self.prefix.items()}
        for m, o in self.objs.items():
            self._wrap(m, o)
        loop.settle()

    # ------------------------------------------------------------------ real objects
    def fresh(self, cls=None):
        ep = (cls or self.endpoint_cls)()
        ep._transport = FakeTransport(self.carrier, 8190)
        ep._running = True
        return ep

    def _wrap(self, m, obj):
        obs, lid, orig = self.obs, self.tl[m], obj.on_packet

        def on_packet(packet, *a, **k):
            obs.enter(lid)
            exc = None
            try:
                return orig(packet, *a, **k)
            except BaseException as e:  # noqa: BLE001
                exc = e
                raise
            finally:
                obs.leave(exc)
        obj.on_packet = on_packet
        for i, h in enumerate(getattr(obj, "decode_map", ())):
            if h is not None:
                obj.decode_map[i] = self._wrap_handler(i, h)

    def _wrap_handler(self, mid, orig):
        obs = self.obs

        def handler(*a, **k):
            obs.handler("h", mid)
            return orig(*a, **k)
        return handler

    def describe(self):
        out = []
        for m in MODEL_LIDS:
            o = self.objs[m]
            d = {"kind": "sink", "prefix": [], "handlers": [], "priv": [], "comm": 0, "anon": False, "tracked": [],
                 "xbt": False, "xipv8": False}
            if hasattr(o, "decode_map"):
                d.update(kind="community", prefix=list(o.get_prefix()),
                         handlers=[i for i, h in enumerate(o.decode_map) if h is not None])
            out.append(d)
        return out

    def check_model(self, g):
        """the model's description of the listeners is the one the real objects have (on the model's alphabet)"""
        desc = g.states[g.init[0]]["desc"]
        for m in MODEL_LIDS:
            d, o = desc[m], self.objs[m]
            real = {i for i, h in enumerate(getattr(o, "decode_map", ())) if h is not None and i <= 3}
            if set(d["handlers"]) != real or (d["kind"] == "community") != hasattr(o, "decode_map"):
                raise MachineryError("listener %d of ReceiveMC (reg) is not what the harness built: %s / %s" % (m, d, real))
            if d["kind"] == "community" and self.model_of[o.get_prefix()] != tuple(d["prefix"]):
                raise MachineryError("listener %d has another prefix in ReceiveMC (reg)" % m)

    def data_of(self, head):
        """a datagram of the model (2-byte prefix) as real bytes"""
        head = tuple(head)
        if len(head) < 2:
            return self.prefix[PA][:11 * len(head)]
        return self.prefix[head[:2]] + bytes(head[2:])

    # ------------------------------------------------------------------ projection
    def table(self, ep):
        glob = tuple(self.by_obj[id(x)] for x in ep._listeners)
        pmap = {self.model_of[p]: tuple(self.by_obj[id(x)] for x in ls) for p, ls in ep._prefix_map.items()}
        return glob, pmap, bool(ep.is_open())

    @staticmethod
    def spec_table(st):
        pm = st["tab"]["pmap"]
        return tuple(st["tab"]["glob"]), ({tuple(k): tuple(v) for k, v in pm.items()} if pm else {}), st["open"]

    @staticmethod
    def evicted(st, real):
        """members of the abstract registry of the spec state that the real table does not serve"""
        glob, pmap, _open = real
        out = [list(r) for r in st["tab"]["reg"] if r[0] not in pmap.get(tuple(r[1]), glob)]
        out += [[g_, "*"] for g_ in st["tab"]["gl"] if g_ not in glob or any(g_ not in ls for ls in pmap.values())]
        return sorted(out, key=str)

    def table_event(self, op, ep, m=None, prefix=None, b=None):
        if op == "open":
            return {"op": "open", "b": b}
        ev = {"op": op, "l": self.tl[m], "glob": [self.tl[self.by_obj[id(x)]] for x in ep._listeners],
              "pmap": [{"p": list(p), "ls": [self.tl[self.by_obj[id(x)]] for x in ls]}
                       for p, ls in ep._prefix_map.items()]}
        if prefix is not None:
            ev["p"] = list(prefix)
        return ev

    def apply(self, ep, name, args):
        """one labelled action of MCNextR on the real endpoint -> the trace event"""
        if name == "RAdd":
            ep.add_listener(self.objs[args[0]])
            return self.table_event("add", ep, args[0])
        if name == "RAddPrefix":
            p = self.prefix[tuple(args[1])]
            ep.add_prefix_listener(self.objs[args[0]], p)
            return self.table_event("addp", ep, args[0], p)
        if name == "RRemove":
            ep.remove_listener(self.objs[args[0]])
            return self.table_event("rem", ep, args[0])
        if name == "RSetOpen":
            ep._running = bool(args[0])       # what UDPEndpoint.open() / close() leave behind (no sockets here)
            return self.table_event("open", ep, b=bool(args[0]))
        raise MachineryError("unknown action %s in the graph of ReceiveMC (reg)" % name)

    def recv(self, ep, data):
        self.obs.begin()
        exc = None
        try:
            in_loop(self.loop, ep.datagram_received, data, SRC)
        except Exception as e:  # noqa: BLE001
            exc = e
        log = self.obs.log
        self.obs.begin()
        sites = [r.pop("x") for r in log if "x" in r]
        ev = {"op": "recv", "via": "udp", "ft": False, "len": len(data), "head": list(data[:64]), "enc": "none",
              "inner": [], "log": log, "raised": exc is not None}
        if exc is not None or sites:
            ev["x"] = sites[0] if sites else site_of(exc)
            ev["hex"] = data.hex()
        return ev

    # ------------------------------------------------------------------ the replay
    def replay(self, g, heads, seed=0, endpoint_cls=None, deliver=True, max_walks=None):
        """-> (segments for ReceiveTrace, findings [(kind, op, detail)], counters)"""
        desc = self.describe()
        segs, finds, seen_states = [], [], set()
        n = {"walks": 0, "ops": 0, "edges": 0, "deliveries": 0, "table_states": 0, "shared_prefix_states": 0}
        done_edges = set()
        for init, walk in edge_cover(g, seed=seed):
            if max_walks is not None and n["walks"] >= max_walks:
                break
            ep = self.fresh(endpoint_cls)
            events, history, has_recv = [], [], False
            cur = init
            for k in range(len(walk) + 1):
                st = g.states[cur]
                if cur not in seen_states:
                    seen_states.add(cur)
                    n["table_states"] += 1
                    n["shared_prefix_states"] += any(
                        len({r[0] for r in st["tab"]["reg"] if r[1] == pf}) > 1 for pf in {r[1] for r in st["tab"]["reg"]})
                    if deliver:
                        for h in heads:
                            events.append(self.recv(ep, self.data_of(h)))
                            n["deliveries"] += 1
                        has_recv = True
                if k == len(walk):
                    break
                _s, name, args, dst = g.edges[walk[k]]
                try:
                    events.append(dict(self.apply(ep, name, args), m=[name, _plain(args)]))
                except Exception as e:  # noqa: BLE001
                    finds.append(("raised", name, {"history": list(history), "op": [name, _plain(args)],
                                                   "x": site_of(e)}))
                    break
                history.append([name, _plain(args)])
                n["ops"] += 1
                if walk[k] not in done_edges:
                    done_edges.add(walk[k])
                    n["edges"] += 1
                real, want = self.table(ep), self.spec_table(g.states[dst])
                if real != want:
                    gone = self.evicted(g.states[dst], real)
                    finds.append(("evicted" if gone else "table", name,
                                  {"history": list(history), "not_served": gone,
                                   "impl": _show(real), "spec": _show(want)}))
                    break      # (from here on the real endpoint is in no state of the graph)
                cur = dst
            n["walks"] += 1
            if has_recv:
                segs.append({"chain": "reg", "overlays": ["RegA", "RegTwin", "RegB", "Sink"], "desc": desc,
                             "reg": True, "events": events})
        return segs, finds, n


def _plain(v):
    if isinstance(v, (tuple, list, frozenset)):
        return [_plain(x) for x in v]
    return v


def _show(t):
    glob, pmap, is_open = t
    return {"listeners": list(glob), "prefix_map": {str(list(k)): list(v) for k, v in sorted(pmap.items())}, "open": is_open}


def graph(tier):
    """the table-operation graph of ReceiveMC (reg), model checked and dumped by TLC -> (TlcResult, Graph)"""
    tmp = scratch_dir("c03g-")
    try:
        dot = os.path.join(tmp, "reg.dot")
        r = run_tlc("ReceiveMC.tla", "Receive_reg_graph.cfg" if tier == "quick" else "Receive_reg_graph_deep.cfg",
                    dump=dot, workers=2)
        if not r.ok:
            raise MachineryError("Receive_reg_graph: TLC reports %s on the specification itself" % r.violated)
        return r, parse_dot(dot, keep_vars={"tab", "open", "nops", "desc"})
    finally:
        import shutil
        shutil.rmtree(tmp, ignore_errors=True)


# the datagrams of ReceiveMC.RegHeads
REG_HEADS = [(), (0,), PA, PB, PF, PA + (1,), PA + (2,), PA + (3,), PB + (0,), PB + (1,), PF + (1,)]
