"""Check context: evidence, violations, known findings, replay files."""
from __future__ import annotations

import hashlib
import json
import os
import sys
import time

ROOT = os.path.dirname(os.path.dirname(os.path.abspath(__file__)))
REPO = os.environ.get("VERIF_REPO", "/repo")
EVIDENCE_DIR = os.environ.get("VERIF_EVIDENCE_DIR") or os.path.join(ROOT, "evidence")
REPLAY_DIR = os.environ.get("VERIF_REPLAY_DIR") or os.path.join(ROOT, "replays")
KNOWN = os.path.join(ROOT, "known_findings.json")


def setup_repo_path():
    """Import ipv8 from /repo's current working tree."""
    if REPO not in sys.path:
        sys.path.insert(0, REPO)
    import logging
    logging.disable(logging.CRITICAL)


def jsonable(v):
    if isinstance(v, (bytes, bytearray)):
        return v.hex()
    if isinstance(v, (set, frozenset)):
        return sorted((jsonable(x) for x in v), key=lambda x: json.dumps(x, sort_keys=True, default=str))
    if isinstance(v, (tuple, list)):
        return [jsonable(x) for x in v]
    if isinstance(v, dict):
        return {str(k): jsonable(x) for k, x in v.items()}
    if isinstance(v, (int, float, str, bool)) or v is None:
        return v
    return repr(v)


class Ctx:
    """One run of one check."""

    def __init__(self, pid, tier, seed, level):
        self.pid = pid
        self.tier = tier
        self.seed = seed
        self.level = level
        self.t0 = time.time()
        self.cov = {"evaluations": 0, "distinct_nontrivial": 0, "rule": "", "samples": [], "states": 0,
                    "transitions": 0, "traces_validated_against_impl": 0, "exhaustive": False}
        self.assumptions = []
        self.violations = []  # (signature, description, replay path)
        self.known_hits = []
        self._distinct = set()
        self.parts = {}
        self.controls = []
        with open(KNOWN, encoding="utf-8") as f:
            self.known = [k for k in json.load(f)["findings"] if k["property"] == pid and k["status"] == "known"]

    # -------- coverage bookkeeping
    def add_tlc(self, name, r):
        self.cov["states"] += r.distinct
        self.cov["transitions"] += r.generated
        self.parts.setdefault("tlc", {})[name] = {
            "distinct_states": r.distinct, "states_generated": r.generated, "depth": r.depth,
            "wall_s": round(r.wall, 2),
            "actions": {k: v[1] for k, v in sorted(r.coverage.items())}}

    def evaluated(self, n=1):
        self.cov["evaluations"] += n

    def nontrivial(self, key):
        h = hashlib.blake2b(repr(key).encode(), digest_size=8).digest()
        self._distinct.add(h)

    def sample(self, s, cap=6):
        if len(self.cov["samples"]) < cap:
            self.cov["samples"].append(jsonable(s))

    def traces(self, n=1):
        self.cov["traces_validated_against_impl"] += n

    def note(self, key, value):
        self.parts[key] = jsonable(value)

    def control(self, name, fired):
        """A negative control: a deliberately wrong trace/behaviour that the binding must reject."""
        self.controls.append({"control": name, "rejected": bool(fired)})
        if not fired:
            # judged at the end: on a tree that breaks the property the sabotage a control applies may coincide with what
            # the tree already does - then the violations found are the verdict; with no violation it is a machinery failure
            self.failed_controls = getattr(self, "failed_controls", []) + [name]

    # -------- violations
    def violation(self, signature, description, replay=None):
        """signature: stable identifier of the failing input/site (matched against known_findings.json)."""
        for k in self.known:
            if k["signature"] == signature or (k.get("signature_prefix") and
                                                signature.startswith(k["signature_prefix"])):
                if signature not in [s for s, _ in self.known_hits]:
                    self.known_hits.append((signature, k["what"]))
                return
        if any(v[0] == signature for v in self.violations):
            return
        os.makedirs(REPLAY_DIR, exist_ok=True)
        path = os.path.join(REPLAY_DIR, "%s-%s.json" % (self.pid, hashlib.sha1(signature.encode()).hexdigest()[:10]))
        with open(path, "w", encoding="utf-8") as f:
            json.dump({"property": self.pid, "signature": signature, "description": description,
                       "seed": self.seed, "tier": self.tier, "replay": jsonable(replay)}, f, indent=1)
        self.violations.append((signature, description, path))

    # -------- finish
    def finish(self):
        if getattr(self, "failed_controls", None) and not self.violations:
            from .tlc import MachineryError
            raise MachineryError("negative control %r was NOT rejected: the binding is vacuous" % self.failed_controls[0])
        self.cov["distinct_nontrivial"] = len(self._distinct)
        cov = dict(self.cov)
        cov["parts"] = self.parts
        cov["negative_controls"] = self.controls
        ev = {"property_id": self.pid, "tier": self.tier, "seed": self.seed, "level": self.level,
              "coverage": cov, "assumptions": self.assumptions, "wall_s": round(time.time() - self.t0, 2),
              "violations": len(self.violations),
              "known_findings_hit": [s for s, _ in self.known_hits]}
        # checks of the specification's growth beyond the listed properties (G..) keep their evidence apart
        evdir = EVIDENCE_DIR if self.pid.startswith("C") else os.path.join(EVIDENCE_DIR, "growth")
        os.makedirs(evdir, exist_ok=True)
        tmp = os.path.join(evdir, self.pid + ".json.tmp")
        with open(tmp, "w", encoding="utf-8") as f:
            json.dump(ev, f, indent=1, sort_keys=True)
        os.replace(tmp, os.path.join(evdir, self.pid + ".json"))
        for sig, what in self.known_hits:
            print("KNOWN-FINDING: property=%s %s [%s]" % (self.pid, what, sig))
        for sig, desc, path in self.violations:
            print("VIOLATION property=%s replay=%s" % (self.pid, path))
            print("  what: %s" % desc)
        print("%s %s: %s; evaluations=%d distinct_nontrivial=%d states=%d traces=%d wall=%.1fs" % (
            self.pid, self.tier, "FAIL" if self.violations else "ok", cov["evaluations"],
            cov["distinct_nontrivial"], cov["states"], cov["traces_validated_against_impl"],
            time.time() - self.t0))
        return 1 if self.violations else 0
