"""C11: observation of one overlay ('T') without source hooks, and the event log that TLC validates.

What is seen, and where:
  Send         simulated wire (SimNet.policy) for datagrams leaving T's socket endpoint; outside transports (on_outside)
  Handler      wrappers placed from here in T.decode_map / T.decode_map_private (instance state, not source)
  Register     TaskManager.register_task (class attribute re-bound from here while a recording is active); ok = the task
               really sits in the registry afterwards
  TaskStep     every step of an asyncio task that was registered with T, T.request_cache or one of T's exit sockets
               (ObsLoop.call_soon sees the step / wake-up callbacks of tasks)
  TaskEnd      done-callback added from here
  CacheAdd / CachePop / CacheTimeout / U_Cache     RequestCache.add / pop / _on_timeout / shutdown
  U_Tasks      TaskManager.shutdown_task_manager entered for T itself
  U_Listener   remove_listener called with T on the endpoint object T holds
  SockTry / SockOpen / SockFail / SockClose   loop.create_datagram_endpoint (simulated) called for a protocol of one of
               T's exit sockets / it hands out the transport / it raises (the environment refuses the socket - the
               scenario's open plan says which address family of which exit socket, and how long an attempt takes - or
               the caller was cancelled while the attempt was in flight: no socket then) / transport.close.
               a (SockTry, SockFail) resp. t (SockOpen) = the task of T in whose step - or in a step of a coroutine
               started from it: ObsLoop's task factory keeps the parent of every task - the loop was asked
  RmSched      T.remove_exit_socket called (instance attribute placed from here) for a circuit whose exit socket has open
               transports: a removal of those sockets is scheduled
  BootInit / BootEnd     initialize() of a bootstrapper of T called (instance attribute of the bootstrapper object) / the
               coroutine it returned has ended; t = the task of T in whose step it was called
  BootOpen / BootClose   loop.create_datagram_endpoint for a protocol whose .overlay is T (the broadcast socket of a
               UDPBroadcastBootstrapper; its OS socket is a FakeSocket, the simulated loop takes two iterations to open
               it as the real one does) / transport.close; datagrams sent through the socket are Send events
"""
from __future__ import annotations

import asyncio
import contextvars
import errno
import functools
import warnings

from . import vloop

_TASK_TYPES = tuple({asyncio.Task, getattr(asyncio.tasks, "_PyTask", asyncio.Task),
                     getattr(asyncio.tasks, "_CTask", asyncio.Task)})

ACTIVE = None      # the Recorder that currently receives class-level observations
_JOB = contextvars.ContextVar("c11_boot_job", default=0)     # the bootstrapper initialisation this code runs in


class FakeSocket:
    """Stands in for the OS socket a UDPBroadcastBootstrapper creates itself (socket(); bind(("", 0))); what is sent
    through it is reported to the recorder, nothing reaches the machine's network."""

    def __init__(self, *_a, **_k):
        self.transport = None
        self.shut = False
        self.sent = 0
        self.burst, self.burst_len = None, -1

    def setsockopt(self, *_a):
        pass

    def bind(self, _addr):
        pass

    def fileno(self):
        return -1

    def getsockname(self):
        return ("0.0.0.0", 0)

    def close(self):
        self.shut = True

    def sendto(self, data, addr):
        if self.shut or (self.transport is not None and self.transport.closed):
            raise OSError("simulated: socket is closed")
        self.sent += 1
        r = ACTIVE
        if r is not None and (self.burst is not r.events or self.burst_len != len(r.events)):
            # (a beacon is one datagram per port: logged once per burst, i.e. while nothing else happens in between)
            if self.transport in r.bsocks:
                r.boot_send(self.transport, data, addr)
                self.burst, self.burst_len = r.events, len(r.events)
        return len(data)


class ObsLoop(vloop.VLoop):
    """VLoop that reports the steps of asyncio tasks (their step / wake-up callbacks pass through call_soon) and
    remembers in which task's step every task was created."""

    def __init__(self, *a, **k):
        super().__init__(*a, **k)
        self.set_task_factory(self._task_factory_with_parent)

    @staticmethod
    def _task_factory_with_parent(loop, coro, **kw):
        t = asyncio.Task(coro, loop=loop, **kw)
        r = ACTIVE
        if r is not None:
            cur = asyncio.current_task(loop)
            if cur is not None:
                r.parent[t] = cur
        return t

    def call_soon(self, callback, *args, context=None):
        rec = ACTIVE
        if rec is not None:
            t = getattr(callback, "__self__", None)
            if t is not None and isinstance(t, _TASK_TYPES):
                inner = callback

                def callback(*a, _t=t, _inner=inner):    # noqa: E306
                    r = ACTIVE
                    info = r.owned.get(_t) if r is not None else None
                    if info is not None:
                        r.log("TaskStep", info[0], note=info[1])
                    try:
                        return _inner(*a)
                    finally:
                        if info is not None and _t.done():
                            r.task_ended(info)
        return super().call_soon(callback, *args, context=context)


class Recorder:
    def __init__(self, net):
        self.net = net
        self.events = []
        self.notes = []
        self.t = None
        self.node = None
        self.owned = {}          # task -> (id, description)
        self.ntask = 0
        self.ended = set()
        self.caches = {}         # id(cache) -> (id, cache)   (strong reference keeps id() unique)
        self.ncache = 0
        self.socks = {}          # transport -> id
        self.phase = "loaded"
        self.trigger_at = None
        self.on_trigger = None
        self.exit_sockets = {}   # id(exit socket) -> exit socket (everything T ever owned)
        self.context = ""        # what the driver is doing (diagnostics only)
        self.slow = {}           # sim endpoint -> seconds: datagrams of that peer towards T arrive that much later
        self.probe_calls = 0
        self.sock_circuit = {}   # transport of an exit socket -> circuit id
        self.bsocks = {}         # transport of a bootstrap socket -> id
        self.njob = 0
        self.parent = {}         # task -> the task in whose step it was created
        self.xids = {}           # id(exit socket) -> ordinal (order of the first open attempt)
        self.open_plan = {}      # (exit socket ordinal, 4 | 6) -> ("ok" | "fail", virtual seconds the attempt takes)

    # ---- log
    def log(self, e, a=0, ok=True, note="", o="ov", **extra):
        self.events.append(dict({"e": e, "a": int(a), "ok": bool(ok), "o": o}, **extra))
        self.notes.append(note + (" [%s]" % self.context if self.context else ""))
        if self.trigger_at is not None and len(self.events) >= self.trigger_at and self.phase == "loaded":
            self.trigger_at = None
            self.on_trigger()

    # ---- in which task of T does this code run
    def holder(self):
        """id of the registered task of T that is running now, or from which the running task descends; 0: none"""
        cur = asyncio.current_task()
        for _ in range(64):
            if cur is None:
                return 0
            info = self.owned.get(cur)
            if info is not None:
                return info[0]
            cur = self.parent.get(cur)
        return 0

    # ---- who owns a task manager
    def owner_of(self, tm):
        t = self.t
        if t is None:
            return None
        if tm is t:
            return "ov"
        if tm is getattr(t, "request_cache", None):
            return "cache"
        if getattr(tm, "overlay", None) is t and hasattr(tm, "transport_ipv4"):
            self.exit_sockets[id(tm)] = tm
            return "sock"
        return None

    # ---- instance level observation of T
    def watch(self, node, ov):
        self.t, self.node = ov, node
        rec = self

        def spy(kind, mid, fn):
            @functools.wraps(fn)
            def handler(*a, **k):
                rec.log("Handler", mid, note="%s %d %s" % (kind, mid, getattr(fn, "__name__", "?")))
                return fn(*a, **k)
            return handler
        for i, h in enumerate(ov.decode_map):
            if h is not None:
                ov.decode_map[i] = spy("msg", i, h)
        if hasattr(ov, "decode_map_private"):
            for i, h in list(ov.decode_map_private.items()):
                ov.decode_map_private[i] = spy("cell", i, h)
        ep = ov.endpoint
        orig_remove = ep.remove_listener

        def remove_listener(listener):
            r = orig_remove(listener)
            if listener is ov and rec.phase == "unloading":
                rec.log("U_Listener")
            return r
        ep.remove_listener = remove_listener
        if hasattr(ov, "remove_exit_socket"):
            orig_rm = ov.remove_exit_socket

            @functools.wraps(orig_rm)
            def remove_exit_socket(circuit_id, *a, **k):
                for tr, sid in list(rec.socks.items()):
                    if not tr.closed and rec.sock_circuit.get(tr) == circuit_id:
                        rec.log("RmSched", sid, note="remove_exit_socket(%s) %s" % (circuit_id, (a[:1] or ("",))[0]))
                return orig_rm(circuit_id, *a, **k)
            ov.remove_exit_socket = remove_exit_socket
        for bs in list(getattr(ov, "bootstrappers", [])):
            self.watch_bootstrapper(bs)
        # tasks registered while T was constructed (before any spy could see them)
        for name, fut in list(ov._pending_tasks.items()):                  # noqa: SLF001
            self.adopt(fut, "ov", name)
        rc = getattr(ov, "request_cache", None)
        if rc is not None:
            for name, fut in list(rc._pending_tasks.items()):              # noqa: SLF001
                self.adopt(fut, "cache", name)

    def watch_bootstrapper(self, bs):
        """initialize() of a bootstrapper object of T: the call and the end of the coroutine it returns"""
        rec = self
        orig = bs.initialize

        @functools.wraps(orig)
        def initialize(overlay):
            fresh = not bs.initialized
            res = orig(overlay)
            if not fresh or overlay is not rec.t or not asyncio.iscoroutine(res):
                return res
            rec.njob += 1
            b = rec.njob
            cur = asyncio.current_task()
            holder = rec.owned.get(cur, (0, ""))[0] if cur is not None else 0
            rec.log("BootInit", b, note="%s.initialize called in task %s" % (type(bs).__name__, holder), t=holder)

            async def job():
                _JOB.set(b)
                try:
                    return await res
                finally:
                    rec.log("BootEnd", b, note="%s.initialize ended" % type(bs).__name__)
            return job()
        bs.initialize = initialize

    def boot_send(self, tr, data, addr):
        """a datagram leaves through a bootstrap socket"""
        self.log("Send", 2, note="bootstrap socket %d: %d bytes to %s:*" % (self.bsocks[tr], len(data), addr[0]))

    def open_boot_sockets(self):
        return sorted(sid for tr, sid in self.bsocks.items() if not tr.closed)

    def adopt(self, fut, owner, name, log=True):
        self.ntask += 1
        tid = self.ntask
        desc = "%s:%s" % (owner, str(name)[:60])
        self.owned[fut] = (tid, desc)
        if log:
            self.log("Register", tid, True, note=desc, o=owner)
        info = self.owned[fut]
        fut.add_done_callback(lambda _f: self.task_ended(info))     # for plain futures (they have no steps)
        return tid

    def task_ended(self, info):
        """The task took its last step (seen right after that step) / the future completed."""
        if info[0] not in self.ended:
            self.ended.add(info[0])
            self.log("TaskEnd", info[0], note=info[1])

    # ---- wire
    def on_transmit(self, dg):
        if self.node is not None and dg.sender is self.node.sim_endpoint:
            self.log("Send", 0, note="msg %s to %s" % (dg.data[22] if len(dg.data) > 22 else "-", dg.dst))
            return None
        delay = self.slow.get(dg.sender)
        if delay and self.node is not None and dg.dst == tuple(self.node.address[:2]):
            self.net.loop.call_later(delay, self.net.deliver, dg)      # a slow responder: delivered later
            return []
        return None

    def on_outside(self, transport, data, addr):
        if transport in self.socks:
            self.log("Send", 1, note="outside %s" % (addr,))

    def open_sockets(self):
        return sorted(sid for tr, sid in self.socks.items() if not tr.closed)


# ------------------------------------------------------------------------------------------------------
# class level observation (installed while a recording runs, removed afterwards)
# ------------------------------------------------------------------------------------------------------
_saved = {}


def install(loop, net, rec):
    global ACTIVE
    ACTIVE = rec
    # an initialisation that is cancelled before its first step leaves the coroutine it wraps un-awaited
    warnings.filterwarnings("ignore", message="coroutine '.*initialize' was never awaited", category=RuntimeWarning)
    net.policy = rec.on_transmit
    net.on_outside = rec.on_outside
    _install_class_spies()
    _install_socket_spy(loop, net)


def _install_class_spies():
    from ipv8.requestcache import RequestCache
    from ipv8.taskmanager import TaskManager
    if _saved:
        return
    # environment: the OS socket of the broadcast bootstrapper
    from ipv8.bootstrapping.udpbroadcast import bootstrapper as _ub
    _saved["ub_socket"] = _ub.socket
    _ub.socket = FakeSocket
    o_register = _saved["register_task"] = TaskManager.register_task
    o_shutdown = _saved["shutdown_task_manager"] = TaskManager.shutdown_task_manager
    o_add = _saved["add"] = RequestCache.add
    o_pop = _saved["pop"] = RequestCache.pop
    o_timeout = _saved["_on_timeout"] = RequestCache._on_timeout       # noqa: SLF001
    o_rcshut = _saved["shutdown"] = RequestCache.shutdown

    def register_task(self, name, *a, **k):
        r = ACTIVE
        owner = r.owner_of(self) if r is not None else None
        if owner is None:
            return o_register(self, name, *a, **k)
        try:
            fut = o_register(self, name, *a, **k)
        except RuntimeError:
            r.ntask += 1
            r.log("Register", r.ntask, False, note="%s:%s refused (name in use)" % (owner, str(name)[:60]), o=owner)
            raise
        if self._pending_tasks.get(name) is fut and fut not in r.owned:    # noqa: SLF001
            r.adopt(fut, owner, name)
        elif fut not in r.owned:
            r.ntask += 1
            r.log("Register", r.ntask, False, note="%s:%s refused" % (owner, str(name)[:60]), o=owner)
        return fut

    async def shutdown_task_manager(self):
        r = ACTIVE
        if r is not None and self is r.t and not self._shutdown:          # noqa: SLF001
            r.log("U_Tasks")
        return await o_shutdown(self)

    def add(self, cache):
        r = ACTIVE
        if r is None or r.owner_of(self) != "cache":
            return o_add(self, cache)
        res = o_add(self, cache)
        r.ncache += 1
        if res is not None:
            r.caches[id(cache)] = (r.ncache, cache)
        r.log("CacheAdd", r.ncache, res is not None, note=type(cache).__name__)
        return res

    def pop(self, prefix, number):
        r = ACTIVE
        cache = o_pop(self, prefix, number)
        if r is not None and isinstance(prefix, str) and r.owner_of(self) == "cache":
            ent = r.caches.pop(id(cache), None)
            if ent is not None:
                r.log("CachePop", ent[0], note=type(cache).__name__)
        return cache

    def _on_timeout(self, cache):
        r = ACTIVE
        if r is not None and r.owner_of(self) == "cache":
            ent = r.caches.pop(id(cache), None)
            if ent is not None:
                r.log("CacheTimeout", ent[0], note=type(cache).__name__)
            else:
                r.ncache += 1
                r.log("CacheTimeout", r.ncache, note=type(cache).__name__ + " (unknown cache)")
        return o_timeout(self, cache)

    async def shutdown(self):
        r = ACTIVE
        if r is not None and r.owner_of(self) == "cache":
            r.log("U_Cache")
            r.caches.clear()
        return await o_rcshut(self)

    TaskManager.register_task = register_task
    TaskManager.shutdown_task_manager = shutdown_task_manager
    RequestCache.add = add
    RequestCache.pop = pop
    RequestCache._on_timeout = _on_timeout                                # noqa: SLF001
    RequestCache.shutdown = shutdown


def _install_socket_spy(loop, net):
    o_create = net.create_datagram_endpoint

    async def create_datagram_endpoint(protocol_factory, local_addr=None, **kw):
        fake = kw.pop("sock", None)
        r0 = ACTIVE
        if fake is None and r0 is not None:
            proto0 = protocol_factory()
            owner = getattr(getattr(proto0, "received_cb", None), "__self__", None)
            if owner is not None and r0.owner_of(owner) == "sock":
                return await open_for_exit_socket(r0, owner, proto0, local_addr, kw)
            protocol_factory = lambda: proto0      # noqa: E731
        if fake is not None:
            # the real loop hands the transport over only after connection_made ran: two more iterations, during which
            # the caller can be cancelled (then no transport exists and the socket is closed)
            try:
                await asyncio.sleep(0)
                await asyncio.sleep(0)
            except BaseException:
                fake.close()
                raise
        tr, proto = await o_create(protocol_factory, local_addr=local_addr, **kw)
        r = ACTIVE
        if fake is not None:
            fake.transport = tr
        if r is not None and fake is not None and getattr(proto, "overlay", None) is r.t:
            sid = len(r.bsocks) + 1
            r.bsocks[tr] = sid
            r.log("BootOpen", sid, note="socket of %s" % type(proto).__name__, t=_JOB.get())
            o_bclose = tr.close

            def bclose():
                if not tr.closed:
                    r.log("BootClose", sid)
                return o_bclose()
            tr.close = bclose
        return tr, proto

    async def open_for_exit_socket(r, owner, proto, local_addr, kw):
        """the environment's answer to an exit socket that asks for a datagram endpoint: some time later a transport,
        or OSError; a caller that is cancelled in between gets nothing (asyncio closes what it had half opened)"""
        x = r.xids.setdefault(id(owner), len(r.xids) + 1)
        fam = 6 if local_addr and ":" in local_addr[0] else 4
        t = r.holder()
        what = "IPv%d socket of exit socket %d (circuit %s)" % (fam, x, getattr(owner, "circuit_id", "?"))
        verdict, takes = r.open_plan.get((x, fam), ("ok", 0))
        r.log("SockTry", t, note="%s asked for in task %d" % (what, t))
        if takes:
            try:
                await asyncio.sleep(takes)
            except BaseException:
                r.log("SockFail", t, note="%s: caller cancelled while the attempt was in flight" % what)
                raise
        if verdict != "ok":
            r.log("SockFail", t, note="%s refused by the environment (OSError)" % what)
            if fam == 6:
                raise OSError(errno.EADDRNOTAVAIL, "simulated: cannot assign requested address (no IPv6 on this host)")
            raise OSError(errno.EMFILE, "simulated: too many open files")
        tr, proto = await o_create(lambda: proto, local_addr=local_addr, **kw)
        sid = len(r.socks) + 1
        r.socks[tr] = sid
        r.sock_circuit[tr] = getattr(owner, "circuit_id", None)
        o_close = tr.close

        def close():
            if not tr.closed:
                r.log("SockClose", sid)
            return o_close()
        tr.close = close
        r.log("SockOpen", sid, note="%s opened" % what, t=t)
        return tr, proto
    loop.create_datagram_endpoint = create_datagram_endpoint


def uninstall():
    global ACTIVE
    ACTIVE = None
    if not _saved:
        return
    from ipv8.requestcache import RequestCache
    from ipv8.taskmanager import TaskManager
    TaskManager.register_task = _saved["register_task"]
    TaskManager.shutdown_task_manager = _saved["shutdown_task_manager"]
    RequestCache.add = _saved["add"]
    RequestCache.pop = _saved["pop"]
    RequestCache._on_timeout = _saved["_on_timeout"]                      # noqa: SLF001
    RequestCache.shutdown = _saved["shutdown"]
    from ipv8.bootstrapping.udpbroadcast import bootstrapper as _ub
    _ub.socket = _saved["ub_socket"]
    _saved.clear()
