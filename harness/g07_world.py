"""G07 - worlds for the DHT peer-discovery checks: real DHTDiscoveryCommunity overlays (default settings) on the simulated
network under the step-mode loop.  Every node of specs/DhtDiscovery.tla is one real overlay; a node in Adv is a real
overlay too, and in addition the harness signs arbitrary messages with its key (forged requests / responses).

One spec action = one call / one delivered datagram / one fired timer on the real objects, followed by draining the
ready queue; the projection of the real state (store, store_for_me, request cache, connect_peer call, datagrams put on
the wire) is compared with the TLC state by the driver.  Nothing in /repo is touched: identifiers are made deterministic by
re-binding `random` in ipv8.requestcache, find_nodes is replaced on the instance (the crawl is DhtCrawl.tla's subject).
"""
from __future__ import annotations

import asyncio
import hashlib
import random as _random

from . import nodes, vloop
from .simnet import SimNet
from .tlc import FrozenDict, MachineryError

EPOCH = 1_000_000.0
FORGED0 = 65535          # the identifier the adversary uses where the spec says 0 (fits the 16 bit field of a puncture request)
MSG = {1: "ping", 2: "pong", 7: "spreq", 8: "spresp", 9: "cpreq", 10: "cpresp", 250: "punct"}
PREFIX = {"sp": "store-peer", "cp": "connect-peer", "ping": "ping"}
NOTOK = FrozenDict({"iss": 0, "k": 0, "a": 0, "ep": 0})
JUNK = FrozenDict({"iss": 0, "k": 0, "a": 0, "ep": 1})
UNKNOWN_TOKEN = FrozenDict({"iss": -1, "k": -1, "a": -1, "ep": -1})

_LOOP = None
_KEYS = {}
_IDS = {"next": 1, "log": None}


def get_loop():
    global _LOOP
    if _LOOP is None:
        _LOOP = vloop.StepLoop(start=EPOCH)
    vloop.install(_LOOP)
    return _LOOP


def key_for(label):
    if label not in _KEYS:
        from ipv8.keyvault.crypto import default_eccrypto
        rng = _random.Random("g07-key-%s" % (label,))
        _KEYS[label] = default_eccrypto.key_from_private_bin(b"LibNaCLSK:" + rng.randbytes(64))
    return _KEYS[label]


def _patch_identifiers():
    """Identifiers 1, 2, 3, ... instead of random 16 bit numbers (unique within a run; allocation is logged)."""
    import ipv8.requestcache as rc
    if getattr(rc, "_g07_patched", False):
        return

    def fake_random():
        k = _IDS["next"]
        _IDS["next"] += 1
        if k >= 65000:
            raise MachineryError("identifier space of the run exhausted")
        return (k + 0.5) / 65536.0
    rc.random = fake_random
    orig = rc.RandomNumberCache.find_unclaimed_identifier.__func__

    def find(cls, request_cache, prefix):
        n = orig(cls, request_cache, prefix)
        if _IDS["log"] is not None:
            _IDS["log"](request_cache, prefix, n)
        return n
    rc.RandomNumberCache.find_unclaimed_identifier = classmethod(find)
    rc._g07_patched = True


def mk(t, frm, fa, to, ident, key=0, tok=NOTOK, nds=frozenset(), lan=0, wan=0):
    return FrozenDict({"t": t, "from": frm, "fa": fa, "to": to, "id": ident, "key": key, "tok": tok, "nodes": nds,
                       "lan": lan, "wan": wan})


class Escape(Exception):
    pass


class World:
    """The real counterpart of one behaviour of DhtDiscovery.tla."""

    def __init__(self, node_ids, adv=(), alt=(), unit=5.0, t0=5, enough=2, timeout_units=1, sabotage=None,
                 via_provider=False):
        _patch_identifiers()
        self.loop = get_loop()
        self.loop._vt = EPOCH
        from ipv8.dht import discovery
        from ipv8.dht.discovery import DHTDiscoveryCommunity
        from ipv8.dht.routing import Node as DhtNode
        from ipv8.peer import Peer
        self.DhtNode, self.Peer, self.discovery = DhtNode, Peer, discovery
        self.unit, self.t0, self.timeout_units = unit, t0, timeout_units
        discovery.TARGET_NODES = 2 * enough
        self.net = SimNet(self.loop, auto=False)
        self.ids = list(node_ids)
        self.adv, self.alt = set(adv), list(alt)
        self.node, self.ov = {}, {}
        self.escapes = []
        _IDS["log"] = self._on_identifier
        _IDS["next"] = 1                           # identifiers are unique within one world
        self.counting = False
        self.nalloc = {i: 0 for i in self.ids}      # identifiers handed out to node i in modelled actions
        self.spec_id = {FORGED0: 0}                # real identifier -> identifier of the specification
        self.real_id = {}                          # (node, spec id) -> real identifier
        self.cache_owner = {}
        for i in self.ids:
            nd = nodes.Node(self.net, key=key_for(i), ip="80.0.0.%d" % i, port=8090)
            ov = self.loop.call(nd.add, DHTDiscoveryCommunity)
            self.loop.call(ov.cancel_all_pending_tasks)          # periodic tasks are explicit actions
            self.node[i], self.ov[i] = nd, ov
            self.cache_owner[id(ov.request_cache)] = i
            self._spy_handlers(i, ov)
        self.loop.drain()
        self.addr = {i: ("80.0.0.%d" % i, 8090) for i in list(self.ids) + self.alt}
        self.addr_no = {v: k for k, v in self.addr.items()}
        self.pk = {i: self.node[i].my_peer.public_key.key_to_bin() for i in self.ids}
        self.mid = {i: self.node[i].my_peer.mid for i in self.ids}
        self.no_of_pk = {v: k for k, v in self.pk.items()}
        self.no_of_mid = {v: k for k, v in self.mid.items()}
        self.secrets = {i: {1: bytes(self.ov[i].token_secrets[-1])} for i in self.ids}     # epoch -> secret
        self.epoch = {i: 1 for i in self.ids}
        self.advtok = {}                           # (adversary, issuer) -> token bytes it last received
        self.dgram = {}                            # spec message -> real datagram (the first one that carried it)
        self.sent = set()
        self.calls = {}                            # node -> {"fut", "find", "key", "kind"}
        self.res = {}
        self.tasks = []
        self.net.inflight.clear()
        self.via_provider = via_provider
        self.find_store, self.find_conn = {}, {}
        self.provider_problems = []
        if sabotage:
            for ov in self.ov.values():
                self._sabotage(ov, sabotage)

    def _sabotage(self, ov, how):
        """negative controls of the binding: a deliberately broken overlay (patched on the instance, never in /repo)"""
        if how == "notoken":
            ov.check_token = lambda node, token: True
        elif how == "nosweep":
            orig = ov.ping_all

            def ping_all():
                saved = {k: list(v) for k, v in ov.store.items()}
                orig()
                for k, v in saved.items():
                    ov.store[k][:] = v
            ov.ping_all = ping_all
        else:
            raise MachineryError("unknown sabotage %r" % (how,))

    # ------------------------------------------------------------------ observation
    def _on_identifier(self, request_cache, prefix, number):
        n = self.cache_owner.get(id(request_cache))
        if n is None or not self.counting:
            return
        self.nalloc[n] += 1
        self.spec_id[number] = self.nalloc[n]
        self.real_id[(n, self.nalloc[n])] = number

    def _spy_handlers(self, i, ov):
        for mid_, h in enumerate(ov.decode_map):
            if h is None:
                continue

            def spy(source_address, data, h=h, mid_=mid_, i=i):
                try:
                    return h(source_address, data)
                except Exception as e:  # noqa: BLE001
                    self.escapes.append((i, mid_, repr(e)))
                    raise
            ov.decode_map[mid_] = spy

    def now_units(self, t):
        if t == 0:
            return 0
        u = (t - EPOCH) / self.unit + self.t0
        if abs(u - round(u)) > 1e-6:
            raise MachineryError("time %r is not on the grid of the specification" % (t,))
        return int(round(u))

    def set_clock(self, clock):
        self.loop._vt = EPOCH + (clock - self.t0) * self.unit

    def token_bytes(self, iss, k, a, ep):
        node = self.DhtNode(self.pk[k], self.addr[a])
        return hashlib.sha1(str(node).encode() + self.secrets[iss][ep]).digest()

    def decode_token(self, tok):
        for iss in self.ids:
            for ep, _s in self.secrets[iss].items():
                for k in self.ids:
                    for a in self.addr:
                        if self.token_bytes(iss, k, a, ep) == tok:
                            return FrozenDict({"iss": iss, "k": k, "a": a, "ep": ep})
        return UNKNOWN_TOKEN

    def _unpack(self, cls, data, signed=True):
        from ipv8.messaging.payload_headers import BinMemberAuthenticationPayload, GlobalTimeDistributionPayload
        ov = self.ov[self.ids[0]]
        if signed:
            auth, _ = ov.serializer.unpack_serializable(BinMemberAuthenticationPayload, data, offset=23)
            ok, rem = ov._verify_signature(auth, data)
            if not ok:
                raise MachineryError("datagram with a bad signature on the simulated wire")
            return auth.public_key_bin, ov.serializer.unpack_serializable_list([cls], rem, offset=23)[0]
        return None, ov.serializer.unpack_serializable_list([GlobalTimeDistributionPayload, cls], data, offset=23)[1]

    def decode(self, dg, ctx_key=0, ctx_lan=0):
        """real datagram -> message of the specification (None for traffic outside the model: find, introductions)"""
        from ipv8.dht import payload as P
        from ipv8.messaging.payload import PunctureRequestPayload
        t = MSG.get(dg.data[22])
        if t is None:
            return None
        fa, to = self.addr_no.get(tuple(dg.src), -1), self.addr_no.get(tuple(dg.dst), -1)
        sid = lambda real: self.spec_id.get(real, -real - 1)   # noqa: E731
        if t == "punct":
            _, p = self._unpack(PunctureRequestPayload, dg.data, signed=False)
            return mk("punct", fa, fa, to, sid(p.identifier), lan=self.addr_no.get(tuple(p.lan_walker_address), -1),
                      wan=self.addr_no.get(tuple(p.wan_walker_address), -1))
        cls = {"ping": P.PingRequestPayload, "pong": P.PingResponsePayload, "spreq": P.StorePeerRequestPayload,
               "spresp": P.StorePeerResponsePayload, "cpreq": P.ConnectPeerRequestPayload,
               "cpresp": P.ConnectPeerResponsePayload}[t]
        pk, p = self._unpack(cls, dg.data)
        frm = self.no_of_pk.get(pk, -1)
        if t == "spreq":
            return mk(t, frm, fa, to, sid(p.identifier), key=self.no_of_mid.get(p.target, -1), tok=self.decode_token(p.token))
        if t == "cpreq":
            return mk(t, frm, fa, to, sid(p.identifier), key=self.no_of_mid.get(p.target, -1),
                      lan=self.addr_no.get(tuple(p.lan_address), -1))
        if t == "cpresp":
            nds = frozenset(FrozenDict({"k": self.no_of_pk.get(n.public_key.key_to_bin(), -1),
                                        "a": self.addr_no.get(tuple(n.address), -1)}) for n in p.nodes)
            if len(nds) != len(p.nodes):
                nds = nds | {FrozenDict({"k": -2, "a": len(p.nodes)})}      # duplicates in the listing
            return mk(t, frm, fa, to, sid(p.identifier), key=ctx_key, nds=nds, lan=ctx_lan)
        return mk(t, frm, fa, to, sid(p.identifier))

    def collect(self, ctx_key=0, ctx_lan=0):
        """datagrams the code sent since the last call -> spec messages (the wire is emptied)"""
        out = []
        for dg in list(self.net.inflight):
            m = self.decode(dg, ctx_key, ctx_lan)
            if m is not None:
                out.append(m)
                self.dgram.setdefault(m, dg)
                self.sent.add(m)
        self.net.inflight.clear()
        return out

    def drain(self):
        self.loop.drain()

    def _deliver(self, dg, to):
        ov = self.ov[to]
        for rt in ov.routing_tables.values():        # the per-node rate limiter is DhtNode.tla's subject, not this one's
            for bucket in rt.trie.values():
                for n in bucket.nodes.values():
                    n.last_queries.clear()
        n0 = len(self.escapes)
        self.loop.call(self.net.deliver, dg)
        self.loop.drain()
        if len(self.escapes) > n0:
            raise Escape("exception escapes the handler of message %d at node %d: %s" % (
                self.escapes[-1][1], self.escapes[-1][0], self.escapes[-1][2]))

    # ------------------------------------------------------------------ actions
    def get_token(self, n, m, a):
        """one real find-request / find-response round trip (n asks m from address a)"""
        from ipv8.dht.payload import FindRequestPayload, FindResponsePayload
        self.counting = False
        target = self.DhtNode(self.pk[m], self.addr[m])
        if n in self.adv:
            data = self.ov[n].ezr_pack(FindRequestPayload.msg_id,
                                       FindRequestPayload(FORGED0 - 1, self.addr[a], self.mid[n], 0, True))
            dg = self.net.inject(self.addr[a], self.addr[m], data)
        else:
            self.loop.call(self.ov[n]._send_find_request, target, self.mid[n], True)
            dg = [d for d in self.net.inflight if d.data[22] == 5][-1]
        self.net.inflight.clear()
        self._deliver(dg, m)
        resp = [d for d in self.net.inflight if d.data[22] == 6]
        if len(resp) != 1:
            raise MachineryError("find request not answered")
        self.net.inflight.clear()
        if n in self.adv:
            _, p = self._unpack(FindResponsePayload, resp[0].data)
            self.advtok[(n, m)] = bytes(p.token)
        if a == n:
            self._deliver(resp[0], n)
        self.net.inflight.clear()
        self.counting = True

    def rotate(self, n):
        self.loop.call(self.ov[n].token_maintenance)
        self.epoch[n] += 1
        self.secrets[n][self.epoch[n]] = bytes(self.ov[n].token_secrets[-1])

    def _stub_find(self, n, result):
        """find_nodes of node n: store_peer looks for its own mid (answered at once with the given nodes), connect_peer
        for somebody else's (answered when the specification takes ConnectFound)"""
        ov = self.ov[n]
        if isinstance(result, asyncio.Future):
            self.find_conn[n] = result
        else:
            self.find_store[n] = result
        if getattr(ov, "_g07_find", False):
            return

        async def find_nodes(key, debug=False):
            if key == self.mid[n]:
                return self.find_store[n]
            return await self.find_conn[n]
        ov.find_nodes = find_nodes
        ov._g07_find = True

    def nodes_of(self, S):
        return [self.DhtNode(self.pk[m], self.addr[m]) for m in sorted(S)]

    def store_peer(self, n, S):
        self.counting = True
        self._stub_find(n, self.nodes_of(S))
        self.tasks.append(self.loop.call(asyncio.ensure_future, self.ov[n].store_peer()))
        self.drain()
        return self.collect()

    def connect_peer(self, n, k, p):
        from ipv8.dht import DHTError
        self.counting = True
        ff = self.loop.create_future()
        self._stub_find(n, ff)
        peer = self.Peer(self.pk[p], self.addr[p]) if p else None
        ov = self.ov[n]
        if self.via_provider:
            # the way the tunnel community gets here: DHTCommunityProvider.peer_lookup (returns None, never raises DHTError)
            from ipv8.dht.provider import DHTCommunityProvider
            inner = self.loop.create_future()
            orig = type(ov).connect_peer

            async def spy(mid, peer=None):
                try:
                    r = await orig(ov, mid, peer)
                except asyncio.CancelledError:
                    inner.cancel()
                    raise
                except BaseException as e:  # noqa: BLE001
                    if not inner.done():
                        inner.set_exception(e)
                        inner.exception()
                    raise
                if not inner.done():
                    inner.set_result(r)
                return r
            ov.connect_peer = spy
            outer = self.loop.call(asyncio.ensure_future, DHTCommunityProvider(ov, 0).peer_lookup(self.mid[k], peer))

            def check(f, n=n):
                if f.cancelled():
                    return
                if f.exception() is not None or f.result() is not None:
                    self.provider_problems.append((n, repr(f.exception() or f.result())))
            outer.add_done_callback(check)
            self.tasks.append(outer)
            fut = inner
        else:
            fut = self.loop.call(asyncio.ensure_future, ov.connect_peer(self.mid[k], peer))
        self.calls[n] = {"fut": fut, "find": ff, "key": k, "p": p, "DHTError": DHTError}
        self.drain()
        out = self.collect()
        self._settle_call(n, "local", False)
        return out

    def connect_found(self, n, S, variant=0):
        c = self.calls[n]
        if not S and variant % 2:
            c["find"].set_exception(c["DHTError"]("No nodes found in the routing table"))
        else:
            self.loop.call(c["find"].set_result, self.nodes_of(S))
        self.drain()
        out = self.collect()
        self._settle_call(n, "lookup", False)
        return out

    def _settle_call(self, n, how, answered):
        """record the result of a connect_peer call that has returned (how: what the step that completed it was)"""
        c = self.calls.get(n)
        if c is None or not c["fut"].done():
            return
        fut = c["fut"]
        del self.calls[n]
        if fut.cancelled():
            self.res[n] = FrozenDict({"key": c["key"], "kind": "cancelled", "nodes": frozenset(), "answered": False})
            return
        exc = fut.exception()
        if exc is not None:
            if not isinstance(exc, c["DHTError"]):
                raise Escape("connect_peer raised %r" % (exc,))
            self.res[n] = FrozenDict({"key": c["key"], "kind": "fail", "nodes": frozenset(), "answered": False})
            return
        lst = fut.result()
        nds = frozenset(FrozenDict({"k": self.no_of_pk.get(x.public_key.key_to_bin(), -1),
                                    "a": self.addr_no.get(tuple(x.address), -1)}) for x in lst)
        kind = {"local": "local", "ping": "pinged", "lookup": "ok"}[how]
        self.res[n] = FrozenDict({"key": c["key"], "kind": kind, "nodes": nds, "answered": answered})

    def call_phase(self, n):
        """where the connect_peer call of node n is: waiting for its ping, for find_nodes, or for the connect-peer answers"""
        c = self.calls.get(n)
        if c is None:
            return "idle"
        if c["find"].done():
            return "wait"
        if c["find"]._callbacks:          # the stub awaits the harness future only when connect_peer reached find_nodes
            return "find"
        return "ping"

    def recv(self, n, msg):
        dg = self.dgram.get(msg)
        if dg is None:
            raise MachineryError("the specification delivers a datagram the real code never sent: %r" % (dict(msg),))
        return self._handle(n, dg, msg)

    def _handle(self, n, dg, msg):
        phase = self.call_phase(n)
        self._deliver(dg, n)
        out = self.collect(ctx_key=msg["key"] if msg["t"] == "cpreq" else 0,
                           ctx_lan=msg["lan"] if msg["t"] == "cpreq" else 0)
        self._settle_call(n, "ping" if phase == "ping" else "lookup", msg["t"] == "pong")
        return out

    def forged(self, x, n, msg, tokbytes=None, lan=None):
        """the adversary x signs `msg` (a spec message) with its own key and sends it from address msg.fa"""
        from ipv8.dht import payload as P
        real = FORGED0 if msg["id"] == 0 else self.real_id[(n, msg["id"])]
        t = msg["t"]
        if t == "spreq":
            pl = P.StorePeerRequestPayload(real, tokbytes, self.mid[msg["key"]])
        elif t == "spresp":
            pl = P.StorePeerResponsePayload(real)
        elif t == "cpreq":
            pl = P.ConnectPeerRequestPayload(real, self.addr[msg["lan"]], self.mid[msg["key"]])
        elif t == "cpresp":
            pl = P.ConnectPeerResponsePayload(real, [self.DhtNode(self.pk[nd["k"]], self.addr[nd["a"]])
                                                     for nd in sorted(msg["nodes"], key=lambda d: d["k"])])
        elif t == "ping":
            pl = P.PingRequestPayload(real)
        else:
            pl = P.PingResponsePayload(real)
        data = self.ov[x].ezr_pack(pl.msg_id, pl)
        dg = self.net.inject(self.addr[msg["fa"]], self.addr[n], data)
        return self._handle(n, dg, msg)

    def ping_all(self, n):
        self.counting = True
        self.loop.call(self.ov[n].ping_all)
        self.drain()
        return self.collect()

    def cache_of(self, n, ty, spec_ident):
        real = self.real_id.get((n, spec_ident))
        if real is None:
            return None
        return self.ov[n].request_cache.get(PREFIX[ty], real)

    def timeout(self, n, ty, spec_ident):
        rc = self.ov[n].request_cache
        cache = self.cache_of(n, ty, spec_ident)
        if cache is None:
            raise MachineryError("no outstanding %s request %d at node %d" % (ty, spec_ident, n))
        task = rc._pending_tasks.get(cache)
        waiter = getattr(task, "_fut_waiter", None)
        handle = next((h for h in self.loop._scheduled if not h._cancelled and h._args and h._args[0] is waiter), None)
        if handle is None:
            raise MachineryError("the time-out timer of the request was not found")
        if handle._when > self.loop._vt + 1e-9:
            raise MachineryError("the specification fires a time-out before its deadline")
        phase = self.call_phase(n)
        self.loop.fire_timer(handle)
        self.drain()
        out = self.collect()
        self._settle_call(n, "ping" if phase == "ping" else "lookup", False)
        return out

    def unload(self, n):
        self.tasks.append(self.loop.call(asyncio.ensure_future, self.ov[n].unload()))
        self.drain()
        return self.collect()

    # ------------------------------------------------------------------ projection
    def entry(self, node):
        return FrozenDict({"k": self.no_of_pk.get(node.public_key.key_to_bin(), -1),
                           "a": self.addr_no.get(tuple(node.address), -1), "lq": self.now_units(node.last_query)})

    def project_node(self, n):
        ov = self.ov[n]
        store = {}
        for key, lst in ov.store.items():
            if lst:
                store[self.no_of_mid.get(key, -1)] = tuple(self.entry(x) for x in lst)
        sfm = ()
        for key, lst in ov.store_for_me.items():
            if not lst:
                continue
            if key != self.mid[n]:
                store[("store_for_me under a foreign key", self.no_of_mid.get(key, -1))] = len(lst)
                continue
            sfm = tuple(FrozenDict({"m": self.no_of_pk.get(x.public_key.key_to_bin(), -1), "failed": min(x.failed, 2),
                                    "lp": self.now_units(x.last_ping_sent)}) for x in lst)
        reqs = set()
        for ident, cache in ov.request_cache._identifiers.items():
            prefix = ident.split(":")[0]
            ty = {v: k for k, v in PREFIX.items()}.get(prefix)
            if ty is None:
                continue
            reqs.add(FrozenDict({"id": self.spec_id.get(cache.number, -cache.number - 1), "ty": ty,
                                 "to": self.no_of_pk.get(cache.node.public_key.key_to_bin(), -1),
                                 "dl": self.now_units(cache.start_time) + self.timeout_units}))
        toks = {}
        for m in self.ids:
            if m == n:
                continue
            t = ov.tokens.get(self.DhtNode(self.pk[m], self.addr[m]).id)
            toks[m] = self.decode_token(t[1]) if t else NOTOK
        c = self.calls.get(n)
        return {"store": store, "sfm": sfm, "reqs": frozenset(reqs), "down": bool(ov.request_cache._shutdown),
                "tokens": toks, "ph": self.call_phase(n), "callkey": c["key"] if c else 0,
                "res": self.res.get(n)}

    def close(self):
        _IDS["log"] = None
        for c in self.calls.values():
            c["fut"].cancel()
            if not c["find"].done():
                c["find"].cancel()
        for t in self.tasks:
            t.cancel()
        for ov in self.ov.values():
            try:
                self.loop.call(ov.request_cache.clear)
                self.loop.call(ov.cancel_all_pending_tasks)
            except Exception:  # noqa: BLE001
                pass
        try:
            self.loop.drain()
        except Exception:  # noqa: BLE001
            pass
        self.loop._ready.clear()
        self.loop._scheduled.clear()


# ------------------------------------------------------------------------------------------------------
# DHTCommunityProvider.announce / lookup on a real network (the key/value half is DhtStore/DhtLookup's subject; here only
# that what the tunnel community publishes is what it gets back)
# ------------------------------------------------------------------------------------------------------
def provider_round_trip(seed, n=5):
    from ipv8.dht import DHTError  # noqa: F401
    from ipv8.dht.discovery import DHTDiscoveryCommunity
    from ipv8.dht.provider import DHTCommunityProvider
    from ipv8.messaging.anonymization.tunnel import PEER_SOURCE_DHT, IntroductionPoint
    from ipv8.peer import Peer
    from . import simnet
    rng = _random.Random("g07-provider-%d" % seed)
    loop = vloop.install(vloop.VLoop(start=EPOCH))
    try:
        net = simnet.attach(loop, simnet.SimNet(loop))
        nds = [nodes.Node(net, key=key_for("prov-%d-%d" % (seed, i))) for i in range(n)]
        ovs = [nd.add(DHTDiscoveryCommunity) for nd in nds]
        nodes.introduce_all(nds)
        loop.advance(2.0)
        provs = [DHTCommunityProvider(ov, 1000 + i) for i, ov in enumerate(ovs)]
        problems, checks = [], 0
        info_hash = hashlib.sha1(b"g07-%d" % seed).digest()
        announced = []
        for i in range(3):
            ip_key = key_for("intro-%d-%d" % (seed, i))
            seeder = key_for("seeder-%d-%d" % (seed, i)).pub().key_to_bin()
            last_seen = rng.choice([0, 1, 2 ** 31, 2 ** 32 - 1, rng.randrange(2 ** 32)])
            peer = Peer(ip_key.pub().key_to_bin(), ("10.%d.%d.%d" % (i, rng.randrange(256), rng.randrange(1, 255)),
                                                   rng.choice([1, 1024, 65535])))
            ip = IntroductionPoint(peer, seeder, PEER_SOURCE_DHT, last_seen)
            r = loop.run_until_complete(provs[i].announce(info_hash, ip))
            checks += 1
            if r is not None:
                problems.append(("announce-result", "announce returned %r" % (r,)))
            announced.append((tuple(peer.address), last_seen, peer.public_key.key_to_bin(), seeder))
        loop.advance(1.0)
        got = loop.run_until_complete(provs[n - 1].lookup(info_hash))
        checks += 1
        if got is None or got[0] != info_hash:
            problems.append(("lookup-none", "lookup of an announced info hash returned %r" % (got,)))
        else:
            seen = sorted((tuple(x.peer.address), x.last_seen, x.peer.public_key.key_to_bin(), x.seeder_pk) for x in got[1])
            if seen != sorted(announced):
                problems.append(("round-trip", "lookup returned %r, announced %r" % (seen, sorted(announced))))
            if any(x.source != PEER_SOURCE_DHT for x in got[1]):
                problems.append(("source", "introduction points from the DHT are not marked PEER_SOURCE_DHT"))
        # an info hash nobody announced: an empty result, not an error
        other = loop.run_until_complete(provs[0].lookup(hashlib.sha1(b"nobody").digest()))
        checks += 1
        if other is None or other[1] != []:
            problems.append(("lookup-unknown", "lookup of an unknown info hash returned %r" % (other,)))
        # a provider whose overlay knows nobody: DHTError is swallowed (None / nothing raised)
        lonely = nodes.Node(net, key=key_for("prov-lonely-%d" % seed)).add(DHTDiscoveryCommunity)
        lp = DHTCommunityProvider(lonely, 1)
        for coro, name in ((lp.lookup(info_hash), "lookup"), (lp.peer_lookup(ovs[0].my_peer.mid), "peer_lookup"),
                           (lp.announce(info_hash, ip), "announce")):
            checks += 1
            try:
                r = loop.run_until_complete(coro)
                if r is not None and not (name == "lookup" and r == (info_hash, [])):     # no routing table: nothing found
                    problems.append(("lonely-" + name, "%s without any known node returned %r" % (name, r)))
            except Exception as e:  # noqa: BLE001
                problems.append(("lonely-" + name, "%s without any known node raised %r" % (name, e)))
        for ov in ovs + [lonely]:
            loop.run_until_complete(ov.unload())
        return {"nodes": n, "announced": len(announced), "checks": checks, "problems": problems}
    finally:
        get_loop()
