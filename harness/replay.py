"""Turning a TLC state graph into runs of the real code (binding R)."""
from __future__ import annotations

import random
from collections import deque


def bfs_tree(g):
    """-> (order, parent_edge) where parent_edge[state] = edge index leading to it (None for init)."""
    parent = {}
    order = []
    dq = deque()
    for s in g.init:
        if s not in parent:
            parent[s] = None
            dq.append(s)
    while dq:
        s = dq.popleft()
        order.append(s)
        for ei in g.out.get(s, ()):
            d = g.edges[ei][3]
            if d not in parent:
                parent[d] = ei
                dq.append(d)
    return order, parent


def path_to(g, parent, s):
    p = []
    while parent[s] is not None:
        ei = parent[s]
        p.append(ei)
        s = g.edges[ei][0]
    p.reverse()
    return s, p


def edge_cover(g, max_ops=None, seed=0, skip_self_loops=False):
    """Yield (init_state, [edge indices]) walks which together take every edge of g at least once
    (until max_ops operations have been handed out; then a seeded sample of the remainder)."""
    order, parent = bfs_tree(g)
    unvisited = {s: list(reversed(g.out.get(s, ()))) for s in order}
    if skip_self_loops:
        for s in unvisited:
            unvisited[s] = [e for e in unvisited[s] if g.edges[e][3] != s]
    ops = 0
    rng = random.Random(seed)
    states = list(order)
    if max_ops is not None:
        # visit start states in seeded order when we cannot do all, so the sample is not biased to shallow states
        total = sum(len(v) for v in unvisited.values())
        if total * 4 > max_ops:
            rng.shuffle(states)
    for s in states:
        while unvisited[s]:
            init, walk = path_to(g, parent, s)
            cur = s
            while unvisited.get(cur):
                e = unvisited[cur].pop()
                walk.append(e)
                cur = g.edges[e][3]
            ops += len(walk)
            yield init, walk
            if max_ops is not None and ops >= max_ops:
                return


def all_paths(g, depth, max_paths=None):
    """Yield every path of exactly `depth` edges (or shorter if it dead-ends) from every init state."""
    n = 0
    for s0 in g.init:
        stack = [(s0, [])]
        while stack:
            s, p = stack.pop()
            outs = g.out.get(s, ())
            if len(p) == depth or not outs:
                yield s0, p
                n += 1
                if max_paths and n >= max_paths:
                    return
                continue
            for ei in outs:
                stack.append((g.edges[ei][3], p + [ei]))


def diff_states(expected, got):
    """Compare the keys present in `got` (the projection) with the TLC state."""
    out = {}
    for k, v in got.items():
        if k not in expected:
            continue
        if expected[k] != v:
            out[k] = {"spec": expected[k], "impl": v}
    return out
