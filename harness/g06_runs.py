"""G06 - executions of real HiddenTunnelCommunity nodes for specs/HiddenServicesTrace.tla: scripted scenarios and seeded
random schedules (delivery order, duplicates kept back and delivered late, losses, timers, API churn, removed circuits,
fabricated messages).  Every run returns the event list the world logged (+ what went wrong outside the specification's
vocabulary: exceptions that escaped a delivery)."""
from __future__ import annotations

import random

from .g06_world import Gone, HsWorld

CLIENTS = ("S", "D", "T")
INFRA = ("A", "B", "C")
NODES = CLIENTS + INFRA


class Sched:
    """a random scheduler over one world"""

    def __init__(self, w, rng, p_dup=0.0, p_lose=0.0, p_reorder=0.0, p_timer=0.05, hold_ms=(0, 0)):
        self.w, self.rng = w, rng
        self.p_dup, self.p_lose, self.p_reorder, self.p_timer = p_dup, p_lose, p_reorder, p_timer
        self.hold_ms = hold_ms
        self.held = {}            # datagram seq -> virtual time (ms) before which it is not delivered
        self.steps = 0

    def deliverable(self):
        now = self.w.now_ms()
        return [d for d in self.w.net.inflight if self.held.get(d.seq, 0) <= now]

    def step(self):
        """one scheduling decision; False when nothing is left to do before the horizon"""
        w, rng = self.w, self.rng
        self.steps += 1
        ready = self.deliverable()
        if ready and rng.random() >= self.p_timer:
            d = ready[0] if rng.random() >= self.p_reorder else rng.choice(ready)
            r = rng.random()
            if r < self.p_dup:
                w.dup(d.seq)
                copy = w.net.inflight[-1]
                self.held[copy.seq] = w.now_ms() + rng.randint(*self.hold_ms)
                w.deliver(d.seq)
            elif r < self.p_dup + self.p_lose:
                w.lose(d.seq)
            else:
                w.deliver(d.seq)
            return True
        if w.fire_next_timer(horizon=self.horizon) is None:
            if ready:
                w.deliver(ready[0].seq)
                return True
            if w.net.inflight:          # only held datagrams are left and no timer before the horizon: release them
                self.held.clear()
                return True
            return False
        return True

    def run(self, until_ms, max_steps=4000, hook=None):
        self.horizon = until_ms / 1000.0
        while self.steps < max_steps:
            if hook is not None:
                hook(self)
            if not self.step():
                break


def _world(seed):
    return HsWorld(seed=seed, clients=CLIENTS, infra=INFRA)


def _finish(w, name, seed, extra=None):
    out = {"profile": name, "seed": seed, "events": w.events, "escaped": list(w.escaped), "aborted": getattr(w, "aborted", None),
           "callbacks": len(w.cb_log)}
    if extra:
        out.update(extra)
    w.close()
    return out


def _guard(fn):
    def run(seed, *a, **k):
        w = _world(seed)
        try:
            extra = fn(w, random.Random(seed * 7 + 1), *a, **k)
        except Gone as exc:
            w.aborted = str(exc)
            extra = None
        return _finish(w, fn.__name__, seed, extra)
    run.__name__ = fn.__name__
    return run


# --------------------------------------------------------------------------------------------------- scripted
@_guard
def plain(w, rng, until=45000):
    """the handshake with nothing in its way (FIFO delivery, timers in order)"""
    w.join_swarm("S", 1, True)
    w.join_swarm("D", 1, False)
    w.create_intro("S", 1)
    Sched(w, rng, p_timer=0.0).run(until)


@_guard
def two_downloaders(w, rng, until=50000):
    w.join_swarm("S", 1, True)
    w.join_swarm("D", 1, False)
    w.join_swarm("T", 1, False)
    w.create_intro("S", 1)
    Sched(w, rng, p_timer=0.02, p_reorder=0.3).run(until)


@_guard
def two_swarms(w, rng, until=50000):
    """two seeders with a swarm each, one downloader per swarm is also the seeder of the other swarm"""
    w.join_swarm("S", 1, True)
    w.join_swarm("T", 2, True)
    w.join_swarm("D", 1, False)
    w.create_intro("S", 1)
    w.create_intro("T", 2)
    w.join_swarm("S", 2, False)
    Sched(w, rng, p_timer=0.02, p_reorder=0.3).run(until)


def _until(w, sched, pred, limit=3000):
    n = 0
    while not pred() and n < limit:
        if not sched.step():
            break
        n += 1
    return pred()


@_guard
def linger_intro(w, rng, how="destroy"):
    """an establish-intro arrives (again) while the exit socket it names is being removed: after the removal nothing may
    refer to the socket (G06-1)"""
    w.join_swarm("S", 1, True)
    w.create_intro("S", 1)
    sched = Sched(w, rng, p_timer=0.0)
    sched.horizon = 60.0
    ov = w.ov
    last = {}

    def watch(world, ev):
        pass
    # deliver until some node is an introduction point; remember the datagram that made it one
    def intro_node():
        return next((n for n in w.names if ov[n].intro_point_for), None)
    while intro_node() is None:
        ready = sched.deliverable()
        if not ready:
            if w.fire_next_timer(horizon=30.0) is None:
                break
            continue
        d = ready[0]
        last["dg"] = (d.src, d.dst, d.data)
        w.deliver(d.seq)
    i = intro_node()
    if i is None:
        raise Gone("no introduction point came into being")
    src, dst, data = last["dg"]
    while w.net.inflight:
        w.deliver(w.net.inflight[0].seq)
    c = next(iter(w.prev["circ"]["S"]))["id"]
    if how == "destroy":
        w.api_remove_circuit("S", c, True)
        while w.net.inflight:
            w.deliver(w.net.inflight[0].seq)
    else:
        # the introduction point gives the circuit up on its own
        rc = w._exit_real(i, c)
        w.loop.call(ov[i].remove_exit_socket, rc, "driver")
        w.log("RemoveExit")
    from .simnet import Datagram
    w.net.seq += 1
    dup = Datagram(w.net.seq, src, dst, data, None)
    w.net.wire.append(dup)
    w.net.inflight.append(dup)
    w.deliver(dup.seq)
    sched.p_timer = 0.0
    sched.run(w.now_ms() + 30000)
    return {"intro_left": {n: len(ov[n].intro_point_for) for n in w.names if ov[n].intro_point_for}}


@_guard
def linger_rendezvous(w, rng):
    """establish-rendezvous arrives again right after the link (both exit sockets are being removed)"""
    w.join_swarm("S", 1, True)
    w.join_swarm("D", 1, False)
    w.create_intro("S", 1)
    sched = Sched(w, rng, p_timer=0.0)
    sched.horizon = 60.0
    ov = w.ov
    er = {}
    while not w.cb_log:
        ready = sched.deliverable()
        if not ready:
            if w.fire_next_timer(horizon=60.0) is None:
                break
            continue
        d = ready[0]
        before = {n: len(ov[n].rendezvous_point_for) for n in w.names}
        w.deliver(d.seq)
        for n in w.names:
            if len(ov[n].rendezvous_point_for) > before[n]:
                er["dg"] = (d.src, d.dst, d.data)
    if not w.cb_log or "dg" not in er:
        raise Gone("no link came into being")
    from .simnet import Datagram
    src, dst, data = er["dg"]
    w.net.seq += 1
    dup = Datagram(w.net.seq, src, dst, data, None)
    w.net.wire.append(dup)
    w.net.inflight.append(dup)
    w.deliver(dup.seq)
    sched.run(w.now_ms() + 30000)


def _fifo_until(w, pred, horizon=60.0, limit=4000):
    n = 0
    while not pred() and n < limit:
        if w.net.inflight:
            w.deliver(w.net.inflight[0].seq)
        elif w.fire_next_timer(horizon=horizon) is None:
            break
        n += 1
    return pred()


@_guard
def wrong_cookie(w, rng):
    """a link-e2e with a cookie nobody established reaches a node that is a rendezvous point for another cookie"""
    w.join_swarm("S", 1, True)
    w.join_swarm("D", 1, False)
    w.create_intro("S", 1)
    ov = w.ov
    if not _fifo_until(w, lambda: any(ov[n].rendezvous_point_for for n in w.names)):
        raise Gone("no rendezvous point came into being")
    rps = next(c for c in w.prev["circ"]["S"] if c["ct"] == "RPS")
    w.forge_link("S", rps["id"], None)            # over the very circuit that established the (other) cookie
    data = [c for c in w.prev["circ"]["S"] if c["ct"] == "DATA" and c["st"] == "ready" and c["x"] == rps["x"]]
    if data:
        w.forge_link("S", data[0]["id"], None)    # and over another circuit that ends at the rendezvous point
    Sched(w, rng, p_timer=0.0).run(w.now_ms() + 40000)


@_guard
def enabled_exit(w, rng, side="downloader"):
    """one of the two circuits a rendezvous point is asked to link carries exit traffic before the link-e2e arrives
    (downloader: its rendezvous circuit, data overtakes the link-e2e; seeder: its rendezvous circuit, data sent right after
    establish-rendezvous): the circuits must not be linked"""
    w.join_swarm("S", 1, True)
    w.join_swarm("D", 1, False)
    w.create_intro("S", 1)
    who, kind, ct = ("D", "link", "RPD") if side == "downloader" else ("S", "rp", "RPS")

    def request_made():
        return any(c["k"] == kind for c in w.prev["caches"][who]) if w.prev else False
    if not _fifo_until(w, request_made):
        raise Gone("no %s request was made" % kind)
    held = [d.seq for d in w.net.inflight]          # (the link-e2e / establish-rendezvous among them)
    circ = next(c for c in w.prev["circ"][who] if c["ct"] == ct and c["st"] == "ready")
    if side == "seeder":                            # the rendezvous point has to know the cookie first
        while w.net.inflight and not any(w.ov[n].rendezvous_point_for for n in w.names):
            w.deliver(w.net.inflight[0].seq)
        held = [d.seq for d in w.net.inflight]
    w.send_data(who, circ["id"], 7)
    x = circ["x"]
    n = 0
    while not any(e["id"] == circ["id"] and e["en"] for e in w.prev["exits"][x]) and n < 20:
        fresh = [d for d in w.net.inflight if d.seq not in held]
        if not fresh:
            break
        w.deliver(fresh[0].seq)
        n += 1
    Sched(w, rng, p_timer=0.0).run(w.now_ms() + 40000)
    return {"enabled": any(e["id"] == circ["id"] and e["en"] for e in w.prev["exits"][x])}


# --------------------------------------------------------------------------------------------------- random
@_guard
def chaos(w, rng, until=70000, api=True, forge=True, faults=True):
    """random delivery order, duplicates delivered up to 12 s late, losses, API churn, removed circuits, fabrications"""
    w.join_swarm("S", 1, True)
    w.join_swarm("D", 1, False)
    w.create_intro("S", 1)
    sched = Sched(w, rng, p_dup=0.06, p_lose=0.02, p_reorder=0.25, p_timer=0.04, hold_ms=(0, 12000))
    state = {"n": 0}

    def hook(s):
        state["n"] += 1
        r = rng.random()
        if r > 0.035:
            return
        kind = rng.choice((["api"] * 3 if api else []) + (["forge"] * 3 if forge else []) + (["fault"] * 2 if faults else []) or ["none"])
        try:
            if kind == "api":
                _api_step(w, rng)
            elif kind == "forge":
                _forge_step(w, rng)
            elif kind == "fault":
                _fault_step(w, rng)
        except (KeyError, Gone):
            w.aborted = None
    sched.run(until, max_steps=2500, hook=hook)


def _api_step(w, rng):
    r = rng.random()
    st = w.prev
    if r < 0.25:
        n = rng.choice(["S", "T"])
        ih = 1 if n == "S" else rng.choice([1, 2])
        if any(s["ih"] == ih for s in st["swarm"][n]) and w.discovery_pending(n):
            return
        w.join_swarm(n, ih, True)
        w.create_intro(n, ih)
    elif r < 0.4:
        n = rng.choice(["D", "T"])
        ih = rng.choice([1, 1, 2])
        if w.discovery_pending(n):
            return
        w.join_swarm(n, ih, False)
    elif r < 0.6:
        n = rng.choice(CLIENTS)
        if st["swarm"][n]:
            w.leave_swarm(n, rng.choice(st["swarm"][n])["ih"])
    elif r < 0.8:
        seeders = [(n, s["ih"]) for n in CLIENTS for s in st["swarm"][n] if s["seeding"]]
        if seeders:
            w.create_intro(*rng.choice(seeders))
    else:
        n = rng.choice(["D", "T"])
        w.peer_discovery(n)


def _forge_step(w, rng):
    st = w.prev
    r = rng.random()
    ends = [(x, e["id"]) for x in INFRA for e in st["exits"][x]]
    if r < 0.5 and ends:
        x, c = rng.choice(ends)
        if any(ci["id"] == c for n in CLIENTS for ci in st["circ"][n]):
            w.forge_reply(x, c, rng.choice(["IE", "RE", "LD", "PR"]), rng.choice(["unknown", "other"]))
    elif r < 0.75:
        owned = [(n, ci["id"]) for n in CLIENTS for ci in st["circ"][n] if ci["st"] == "ready"]
        if owned:
            n, c = rng.choice(owned)
            cookies = list(w.cookie_map)
            w.forge_link(n, c, rng.choice(cookies) if cookies and rng.random() < 0.6 else None)
    elif w.seen_cd:
        w.forge_created(rng.randrange(len(w.seen_cd)), rng.choice(["relabel", "junk"]))


def _fault_step(w, rng):
    st = w.prev
    r = rng.random()
    if r < 0.5:
        owned = [(n, ci["id"]) for n in CLIENTS for ci in st["circ"][n] if ci["st"] != "closing"]
        if owned:
            n, c = rng.choice(owned)
            w.api_remove_circuit(n, c, rng.random() < 0.7)
    else:
        ends = [(x, e["id"]) for x in INFRA for e in st["exits"][x] if not e["cl"]]
        if ends:
            x, c = rng.choice(ends)
            rc = w._exit_real(x, c)
            w.loop.call(w.ov[x].remove_exit_socket, rc, "driver", False, rng.random() < 0.5)
            w.log("RemoveExit")


PROFILES = {"plain": plain, "two_downloaders": two_downloaders, "two_swarms": two_swarms, "chaos": chaos,
            "linger_intro": linger_intro, "linger_rendezvous": linger_rendezvous, "wrong_cookie": wrong_cookie,
            "enabled_exit": enabled_exit}
