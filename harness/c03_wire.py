"""C03 - decode side: probes of the real Serializer, shapes of decoded values, generators of valid encodings and
of their truncations / length-field edits.  The oracle is specs/WireStrict.tla (its own name -> layout table);
the tables below are only used to *generate inputs* and to *project decoded values* (bytes, counts, nesting)."""
from __future__ import annotations

import inspect
import itertools
import struct

FIX = {"?": 1, "B": 1, "c": 1, "bits": 1, "H": 2, "flags": 2, "BH": 3, "ccB": 3, "BBH": 4, "f": 4, "HH": 4, "I": 4,
       "l": 4, "4SH": 6, "ipv4": 6, "d": 8, "LL": 8, "q": 8, "Q": 8, "QH": 10, "QL": 12, "20s": 20, "c20s": 21,
       "QQHHBH": 23, "32s": 32, "64s": 64, "74s": 74}
VARLEN = {"varlenBx2": (1, 2, False), "varlenH": (2, 1, False), "varlenHutf8": (2, 1, True),
          "varlenIutf8": (4, 1, True), "varlenHx20": (2, 20, False), "varlenI": (4, 1, False),
          "doublevarlenH": (2, 1, False)}
ARR = {"arrayH-?": 1, "arrayH-q": 8, "arrayH-d": 8}
LISTS = {"varlenH-list": {"n": "varlenH", "sub": []}, "node-list": {"n": "node", "sub": []}}
KNOWN = set(FIX) | set(VARLEN) | set(ARR) | set(LISTS) | {"raw", "address", "ip_address", "payload", "payload-list"}

# mirrors specs/WireStrictMC.tla MCFormats (same order)
MC_FORMATS = [
    ["varlenH", "raw"], ["B", "varlenBx2", "B"], ["varlenH-list"],
    [("payload", ["varlenH", "B"]), "B"], [("payload-list", ["B", "varlenH"])],
    ["arrayH-?", "B"], ["arrayH-q"], ["address", "B"], ["ip_address"], ["varlenI", "H"], ["varlenHx20"],
    ["H", "varlenHutf8"], ["node-list"], ["bits", "ipv4", "raw"]]


def It(n, sub=()):
    return {"n": n, "sub": list(sub)}


def S(k, b=(), n=0, sub=()):
    return {"k": k, "b": list(b), "n": n, "sub": list(sub), "r": []}


class Wire:
    def __init__(self):
        from ipv8.dht.payload import NodePacker
        from ipv8.messaging.anonymization.payload import Flags
        from ipv8.messaging.serialization import ListOf, Serializable, Serializer
        self.Serializable = Serializable
        self.ser = Serializer()
        self.ser.add_packer("flags", Flags())                           # as TunnelCommunity.get_serializer does
        self.ser.add_packer("node-list", ListOf(NodePacker(self.ser)))  # as DHTCommunity.get_serializer does
        # byte order of the array count as registered by the Serializer ("H" = native, ">H" = network order)
        self.arr_fmt = self.ser.get_packer_for("arrayH-q").length_format
        self.arr_be = struct.pack(self.arr_fmt, 1) == b"\x00\x01"
        self._probes = {}
        self.defs = []
        self._def_ix = {}

    # ---------------------------------------------------------------- formats
    def items_of(self, format_list):
        out = []
        for f in format_list:
            if isinstance(f, str):
                out.append(It(f))
            elif isinstance(f, tuple):            # harness notation ("payload", [..]) / ("payload-list", [..])
                out.append(It(f[0], self.items_of(f[1])))
            elif isinstance(f, list):
                out.append(It("payload-list", self.items_of(f[0].format_list)))
            else:
                out.append(It("payload", self.items_of(f.format_list)))
        return out

    def supported(self, items):
        return all(i["n"] in KNOWN and self.supported(i["sub"]) for i in items)

    def def_index(self, items):
        key = repr(items)
        if key not in self._def_ix:
            self.defs.append(items)
            self._def_ix[key] = len(self.defs)
        return self._def_ix[key]

    def probe(self, items):
        """A Serializable with the same format list whose from_unpack_list keeps the raw unpack list."""
        key = repr(items)
        if key in self._probes:
            return self._probes[key]
        fl = []
        for it in items:
            if it["n"] == "payload":
                fl.append(self.probe(it["sub"]))
            elif it["n"] == "payload-list":
                fl.append([self.probe(it["sub"])])
            else:
                fl.append(it["n"])

        class Probe(self.Serializable):
            format_list = fl

            def __init__(self, vals):
                self.vals = vals

            def to_pack_list(self):
                raise NotImplementedError

            @classmethod
            def from_unpack_list(cls, *a):
                return cls(list(a))
        self._probes[key] = Probe
        return Probe

    # ---------------------------------------------------------------- shapes of decoded values
    def addr_shape(self, v):
        from ipv8.messaging.interfaces.udp.endpoint import DomainAddress, UDPv6Address
        if isinstance(v, DomainAddress):
            return S("addr", b=v.host.encode(), n=2)
        return S("addr", n=3 if isinstance(v, UDPv6Address) else 1)

    def shapes(self, vals, items):
        out, i = [], 0
        for it in items:
            n = it["n"]
            if n == "bits":
                i += 8
                out.append(S("fix"))
                continue
            v = vals[i]
            i += 1
            if n in FIX:
                out.append(S("fix"))
            elif n == "raw" or n in VARLEN:
                out.append(S("var", b=v.encode() if isinstance(v, str) else bytes(v)))
            elif n in ARR:
                out.append(S("arr", n=len(v)))
            elif n in ("address", "ip_address"):
                out.append(self.addr_shape(v))
            elif n == "varlenH-list":
                out.append(S("list", n=len(v), sub=[S("var", b=bytes(x)) for x in v]))
            elif n == "node-list":
                out.append(S("list", n=len(v), sub=[S("seq", sub=[self.addr_shape(x.address),
                                                                    S("var", b=x.public_key.key_to_bin())]) for x in v]))
            elif n == "payload-list":
                out.append(S("list", n=len(v), sub=[S("nest", sub=self.shapes(p.vals, it["sub"])) for p in v]))
            elif n == "payload":
                out.append(S("nest", sub=self.shapes(v.vals, it["sub"])))
            else:
                raise ValueError(n)
        if i != len(vals):
            raise ValueError("unpack list has %d values, format consumed %d" % (len(vals), i))
        return out

    # ---------------------------------------------------------------- the calls under test
    def ev_single(self, items, data, off=0, real_cls=None):
        ix = self.def_index(items)
        ev = {"m": "real" if real_cls else "probe", "f": [ix], "off": off, "buf": list(data), "ca": False,
              "ok": False, "end": 0, "v": [], "rem": []}
        try:
            obj, end = self.ser.unpack_serializable(real_cls or self.probe(items), data, off)
        except Exception:  # noqa: BLE001  any exception is a rejection
            return ev
        ev["ok"], ev["end"] = True, end
        if not real_cls:
            ev["v"] = [self.shapes(obj.vals, items)]
        return ev

    def ev_list(self, items_list, data, off, consume_all):
        ev = {"m": "list", "f": [self.def_index(i) for i in items_list], "off": off, "buf": list(data),
              "ca": consume_all, "ok": False, "end": 0, "v": [], "rem": []}
        try:
            out = self.ser.unpack_serializable_list([self.probe(i) for i in items_list], data, off, consume_all)
        except Exception:  # noqa: BLE001
            return ev
        ev["ok"] = True
        objs = out if consume_all else out[:-1]
        ev["v"] = [self.shapes(o.vals, i) for o, i in zip(objs, items_list)]
        if not consume_all:
            ev["rem"] = list(out[-1])
        ev["end"] = len(data) - len(ev["rem"]) if not consume_all else len(data)
        return ev

    def ev_snapshot(self, data):
        from ipv8.peerdiscovery.network import Network
        net = Network()
        raised = False
        try:
            net.load_snapshot(data)
        except Exception:  # noqa: BLE001
            raised = True
        return {"m": "snap", "buf": list(data), "raised": raised, "n": len(net._all_addresses)}


# -------------------------------------------------------------------------------------------------
# valid encodings (inputs only) with the positions of their length prefixes
# -------------------------------------------------------------------------------------------------
class Gen:
    def __init__(self, rng, keybin, arr_fmt="H"):
        self.rng = rng
        self.keybin = keybin
        self.arr_fmt = arr_fmt

    def rb(self, n):
        return bytes(self.rng.getrandbits(8) for _ in range(n))

    def item(self, it, pos, marks):
        """-> bytes of one valid field starting at absolute offset pos; marks collects (offset, width, unit)."""
        n, rng = it["n"], self.rng
        if n == "?":
            return bytes([rng.randrange(2)])
        if n in FIX:
            return self.rb(FIX[n])
        if n == "raw":
            return self.rb(rng.choice([0, 0, 1, 3, 17]))
        if n in VARLEN:
            w, base, utf8 = VARLEN[n]
            cnt = rng.choice([0, 0, 1, 2, 3, 7, 40]) if base == 1 else rng.choice([0, 1, 2])
            body = "".join(rng.choice(["a", "Z", "0", "é", "€", "\U0001f600"]) for _ in range(cnt)).encode() \
                if utf8 else self.rb(cnt * base)
            marks.append((pos, w))
            return len(body).to_bytes(w, "big") + body if utf8 else cnt.to_bytes(w, "big") + body
        if n in ARR:
            cnt = rng.choice([0, 1, 2, 5])
            marks.append((pos, 2))
            body = bytes(rng.randrange(2) for _ in range(cnt)) if n == "arrayH-?" else self.rb(cnt * 8)
            if n == "arrayH-d":
                body = b"".join(struct.pack(">d", rng.uniform(-1e6, 1e6)) for _ in range(cnt))
            return struct.pack(self.arr_fmt, cnt) + body
        if n in ("address", "ip_address"):
            t = rng.choice([1, 1, 3] if n == "ip_address" else [1, 2, 3])
            if t == 1:
                return b"\x01" + self.rb(6)
            if t == 3:
                return b"\x03" + self.rb(18)
            host = rng.choice([b"", b"a.b", b"tracker.example.org"])
            marks.append((pos + 1, 2))
            return b"\x02" + struct.pack(">H", len(host)) + host + self.rb(2)
        if n in LISTS or n == "payload-list":
            sub = LISTS[n] if n in LISTS else It("payload", it["sub"])
            cnt = rng.choice([0, 1, 2, 3])
            marks.append((pos, 1))
            out = bytes([cnt])
            for _ in range(cnt):
                out += self.item(sub, pos + len(out), marks)
            return out
        if n == "node":
            a = self.item(It("ip_address"), pos, marks)
            marks.append((pos + len(a), 2))
            return a + struct.pack(">H", len(self.keybin)) + self.keybin
        if n == "payload":
            inner = self.seq(it["sub"], pos + 2, marks)
            marks.append((pos, 2))
            return struct.pack(">H", len(inner)) + inner
        raise ValueError(n)

    def seq(self, items, pos, marks):
        out = b""
        for it in items:
            out += self.item(it, pos + len(out), marks)
        return out

    def message(self, items, head=b""):
        marks = []
        return head + self.seq(items, len(head), marks), marks


def variants(data, marks, rng, full=True, head=0):
    """truncations, length-field edits, trailing bytes, byte flips of one valid encoding"""
    seen = {data}
    yield "valid", data
    if full:
        cuts = range(head, len(data))
    elif len(data) > head:
        cuts = sorted({head, len(data) - 1} | {rng.randrange(head, len(data)) for _ in range(4)})
    else:
        cuts = []
    for k in cuts:
        d = data[:k]
        if d not in seen:
            seen.add(d)
            yield "cut", d
    for pos, w in marks:
        cur = int.from_bytes(data[pos:pos + w], "big")
        rest = len(data) - (pos + w)
        for val in {cur + 1, cur - 1, 0, (1 << (8 * w)) - 1, rest + 1, rest, cur + 256 if w > 1 else cur + 2,
                    ((rest + 1) << 8) & 0xffff if w == 2 else rest + 2}:
            if 0 <= val < (1 << (8 * w)):
                d = data[:pos] + val.to_bytes(w, "big") + data[pos + w:]
                if d not in seen:
                    seen.add(d)
                    yield "len", d
    for extra in (b"\x00", b"\xff\x01"):
        yield "tail", data + extra
    for _ in range(3 if full else 1):
        if len(data) > head:
            i = rng.randrange(head, len(data))
            d = data[:i] + bytes([data[i] ^ (1 << rng.randrange(8))]) + data[i + 1:]
            if d not in seen:
                seen.add(d)
                yield "flip", d


def mc_domain(maxlen, alphabet=(0, 1, 2, 3)):
    for k in range(maxlen + 1):
        for t in itertools.product(alphabet, repeat=k):
            yield bytes(t)


def shipped_classes():
    """every concrete Serializable subclass under ipv8/ (not tests) with a non-empty format list"""
    import importlib
    import pkgutil

    import ipv8
    from ipv8.messaging.serialization import Serializable
    for m in pkgutil.walk_packages(ipv8.__path__, "ipv8."):
        if ".test" in m.name or "lan_addresses" in m.name:
            continue
        try:
            importlib.import_module(m.name)
        except Exception:  # noqa: BLE001
            continue
    out, stack = {}, [Serializable]
    while stack:
        c = stack.pop()
        for s in c.__subclasses__():
            stack.append(s)
            if s.__module__.startswith("ipv8.") and ".test" not in s.__module__ and getattr(s, "format_list", None) \
                    and not inspect.isabstract(s):
                out[s.__module__[5:] + "." + s.__qualname__] = s
    return dict(sorted(out.items()))
