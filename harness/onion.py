"""Real TunnelCommunity nodes under the step-mode loop and the manual simulated network, driven one spec action at
a time; every step is logged as an event of specs/Onion.tla with the projected state (binding T for C04/C05/C08/C09).

No source hooks: timers are identified through the TaskManager that owns the sleeping task, tables are read from
public attributes, circuit ids / identifiers are renamed by order of allocation (the spec allocates 1, 2, 3, ...)."""
from __future__ import annotations

import asyncio
import random

from . import vloop
from .simnet import Datagram, SimNet, attach

RELAY, EXIT_BT, EXIT_IPV8, SPEED = 1, 2, 4, 8
EXITF = [RELAY, EXIT_BT, EXIT_IPV8]
MS = 1000


class Gone(Exception):
    """a scripted scenario cannot continue: the real nodes lack an object the script relies on; the events recorded so far
    are still validated (the step that lost it is among them)"""


class OnionWorld:
    def __init__(self, seed=0, names=("o", "r1", "r2", "x"), exits=("x",), cands=None, first=None, settings=None,
                 origins=("o",), suspend_join=False, overlay_factory=None, dual_stack=False):
        from ipv8.messaging.anonymization.community import TunnelCommunity
        if overlay_factory is not None:
            # additive option (G06): the nodes run the class the factory returns (a subclass of TunnelCommunity)
            TunnelCommunity = overlay_factory(self, TunnelCommunity)
        self.suspend_join = suspend_join
        self.held_joins = []    # (node, real circuit id, datagram seq, future): on_create tasks waiting in should_join_circuit
        self.delivering = 0
        if suspend_join:
            TunnelCommunity = self._suspending(TunnelCommunity)
        from ipv8.peer import Peer
        from .nodes import Node
        random.seed(seed)
        self.rng = random.Random((seed + 1) * 7919 + 13)     # must not replay the global generator the nodes draw circuit ids from
        self.loop = vloop.install(vloop.StepLoop(start=1000.0))
        self.t0 = self.loop.time()
        self.net = attach(self.loop, SimNet(self.loop, auto=False))
        self.net.hold_transports = True
        self.auto_transports = True      # open outside sockets right after the step that enabled them (a logged step)
        self.names = list(names)
        self.nodes = {}
        self.ov = {}
        self.events = []
        self.cid_map = {}       # real circuit id -> spec circuit id
        self.ident_map = {}     # (kind, node, real) -> spec ident
        self.n_ident = 0
        self.raw_log = []       # on_raw_data observations at originators
        self.last_tick_ms = 0
        self.depth = 0
        self.flipped = {}       # datagram seq -> {(pos, bit)} already altered
        self.on_step = None     # callback(world, event) after every logged step (property-specific probes)
        self.adv_keys = []      # session keys the attacker could derive from its own handshake material
        self.orig_cid = {}      # datagram seq -> circuit id it carried before the attacker rewrote it
        self.escaped = []       # exceptions that escaped the receive path during a delivery
        self.keys = {}          # every session key that ever existed in a table (for measuring layer depth)
        self.exits = set(exits)
        settings = settings or {}
        for nm in names:
            node = Node(self.net, wiring="dual" if dual_stack else "plain")
            flags = {RELAY, SPEED} | ({EXIT_BT, EXIT_IPV8} if nm in exits else set())
            ov = self.loop.call(node.add, TunnelCommunity, peer_flags=flags, **settings)
            self.nodes[nm] = node
            self.ov[nm] = ov
            self._watch_raw(nm, ov)
        self.loop.drain()
        # the attacker: an address and a key, no overlay
        self.adv = Node(self.net)
        self.addr_name = {self.nodes[n].address: n for n in names}
        self.dual_stack = dual_stack
        self.n_adv_put = 0
        if dual_stack:
            self.addr_name.update({(self.nodes[n].address6[0], self.nodes[n].address6[1]): n for n in names})
        self.addr_name[self.adv.address] = "adv"
        self.key_name = {self.nodes[n].my_peer.public_key.key_to_bin(): n for n in names}
        self.key_name[self.adv.my_peer.public_key.key_to_bin()] = "adv"
        # who knows whom (spec constants Cands / FirstHops)
        others = [n for n in names if n not in origins]
        relays_only = [n for n in others if n not in exits]
        self.cands = cands or {n: {"relays": [r for r in relays_only if r != n], "exits": [e for e in exits if e != n]}
                               for n in names}
        self.first = first or {n: [r for r in relays_only if r != n][:1] for n in names}
        for nm in names:
            ov = self.ov[nm]
            order = []
            if nm in origins:
                order += [(f, [RELAY]) for f in self.first[nm]]
                order += [(e, EXITF) for e in self.cands[nm]["exits"] if e not in self.first[nm]]
            else:
                order += [(r, [RELAY]) for r in self.cands[nm]["relays"]]
                order += [(e, EXITF) for e in self.cands[nm]["exits"]]
            for other, fl in order:
                p = Peer(self.nodes[other].my_peer.public_key, self.nodes[other].address)
                ov.network.add_verified_peer(p)
                ov.network.discover_services(p, [ov.community_id])
                ov.candidates[p] = list(fl)
        self.Peer = Peer
        for name in ("create_circuit", "send_data", "remove_circuit", "exit_return", "vanish", "node_remove_relay",
                     "node_remove_exit", "expect_quiet", "deliver", "lose", "dup", "tamper", "tamper_at", "tamper_header",
                     "splice", "inject", "adv_create", "adv_plain", "forge_destroy", "mangle_answer", "link_e2e",
                     "send_e2e", "rp_forge", "transports_ready", "transport4_ready", "send_test", "join_resume", "cancel_ready", "outside_nested", "rp_reflect"):
            setattr(self, name, self._stepper(getattr(self, name)))

    def _stepper(self, fn):
        def step(*a, **k):
            if self.depth == 0 and self.now_ms() > self.last_tick_ms:
                self._emit_tick()
            self.depth += 1
            try:
                return fn(*a, **k)
            except KeyError as exc:
                if self.depth == 1:
                    # the scenario names a real object (circuit, relay, exit socket) that is not there any more
                    self.aborted = "%s%r: %r" % (fn.__name__, a, exc)
                    raise Gone(self.aborted) from exc
                raise
            finally:
                self.depth -= 1
        return step

    # ------------------------------------------------------------------ observation helpers
    def _watch_raw(self, nm, ov):
        def on_raw_data(circuit, origin, data, nm=nm):
            self.raw_log.append((nm, circuit.circuit_id, tuple(origin), bytes(data)))
        ov.on_raw_data = on_raw_data

    def now_ms(self):
        return int(round((self.loop.time() - self.t0) * MS))

    def cid(self, real):
        if real not in self.cid_map:
            self.cid_map[real] = len(self.cid_map) + 1
        return self.cid_map[real]

    def real_cid(self, spec):
        for r, s in self.cid_map.items():
            if s == spec:
                return r
        raise KeyError(spec)

    def ident(self, kind, node, real):
        k = (kind, node, real)
        if k not in self.ident_map:
            self.n_ident += 1
            self.ident_map[k] = self.n_ident
        return self.ident_map[k]

    def name_of_addr(self, addr):
        return self.addr_name.get((addr[0], addr[1]), "?%s:%s" % (addr[0], addr[1]))

    def name_of_peer(self, peer):
        return self.key_name.get(peer.public_key.key_to_bin(), "?key")

    # ------------------------------------------------------------------ projection
    def _scan_new_names(self):
        """assign spec names to circuit ids / identifiers in allocation order (one allocation site per step)"""
        for nm in self.names:
            ov = self.ov[nm]
            for rc in ov.circuits:
                self.cid(rc)
        for nm in self.names:
            ov = self.ov[nm]
            for cache in list(ov.request_cache._identifiers.values()):
                cn = type(cache).__name__
                if cn == "CreateRequestCache":
                    self.cid(cache.to_circuit_id)
        # identifiers: retry caches first (CreateCircuit / extend / retry), then create caches, then pings by circuit
        for nm in self.names:
            ov = self.ov[nm]
            for cache in list(ov.request_cache._identifiers.values()):
                if type(cache).__name__ == "RetryRequestCache":
                    self.ident("retry", nm, (cache.number, cache.packet_identifier, id(cache)))
        for nm in self.names:
            ov = self.ov[nm]
            for cache in list(ov.request_cache._identifiers.values()):
                if type(cache).__name__ == "CreateRequestCache":
                    self.ident("create", nm, cache.number)
        for nm in self.names:
            ov = self.ov[nm]
            for cache in list(ov.request_cache._identifiers.values()):
                if type(cache).__name__ == "PingRequestCache":
                    self.ident("ping", nm, cache.number)
                if type(cache).__name__ == "TestRequestCache":
                    self.ident("test", nm, cache.number)

    def project(self):
        self._scan_new_names()
        st = {"circ": {}, "relay": {}, "exit": {}, "retryC": {}, "createdC": {}, "createC": {}, "pingC": {}, "testC": {}}
        for nm in self.names:
            ov = self.ov[nm]
            c = []
            for rc, ci in ov.circuits.items():
                c += [{"cid": self.cid(rc),
                    "goal": ci.goal_hops, "hops": [self.name_of_peer(h.peer) for h in ci.hops],
                    "unv": self.name_of_peer(ci.unverified_hop.peer) if ci.unverified_hop else "none",
                    "via": self.name_of_addr(ci.hop.address) if (ci.hops or ci.unverified_hop) else "none",
                    "act": int(round((ci.last_activity - self.t0) * MS)) if ci.hops and getattr(self, "compare_act", False) else 0,
                    "closing": ci.state == "CLOSING", "early": ci.relay_early_count,
                    "ctype": {"RP_DOWNLOADER": "RPD", "RP_SEEDER": "RPS"}.get(ci.ctype, ci.ctype),
                    "hs": ci.hs_session_keys is not None}]
            st["circ"][nm] = c
            r = []
            for rc, ro in ov.relay_from_to.items():
                r += [{"cid": self.cid(rc), "to": self.cid(ro.circuit_id), "next": self.name_of_addr(ro.hop.address),
                                        "dir": "F" if ro.direction == 0 else "B", "early": ro.relay_early_count,
                       "rdv": bool(ro.rendezvous_relay)}]
            st["relay"][nm] = r
            e = []
            for rc, ex in ov.exit_sockets.items():
                e += [{"cid": self.cid(rc), "prev": self.name_of_addr(ex.hop.address), "pk": self.name_of_peer(ex.hop.peer),
                                        "enabled": bool(ex.enabled),
                                        "open": bool(ex.transport_ipv4 is not None or ex.transport_ipv6 is not None),
                                        "queued": len(ex.queue)}]
            st["exit"][nm] = e
            retry, created, create, ping, test = [], [], [], [], []
            for cache in ov.request_cache._identifiers.values():
                cn = type(cache).__name__
                if cn == "RetryRequestCache":
                    alts = [self.name_of_peer(a) if hasattr(a, "public_key") else self.key_name.get(a, "?key")
                            for a in cache.candidates]
                    retry += [{"cid": self.cid(cache.number),
                        "ident": self.ident("retry", nm, (cache.number, cache.packet_identifier, id(cache))),
                        "tries": cache.max_tries, "alts": alts,
                        "kind": "create" if cache.retry_func.__name__ == "send_initial_create" else "extend"}]
                elif cn == "CreatedRequestCache":
                    created.append(self.cid(cache.number))
                elif cn == "CreateRequestCache":
                    create += [{"ident": self.ident("create", nm, cache.number),
                        "to": self.cid(cache.to_circuit_id), "from": self.cid(cache.from_circuit_id),
                        "peer": self.name_of_addr(cache.peer.address), "toPeer": self.name_of_peer(cache.to_peer)}]
                elif cn == "PingRequestCache":
                    ping.append(self.ident("ping", nm, cache.number))
                elif cn == "TestRequestCache":
                    test.append(self.ident("test", nm, cache.number))
            st["retryC"][nm], st["createdC"][nm], st["createC"][nm], st["pingC"][nm] = retry, sorted(created), create, sorted(ping)
            st["testC"][nm] = sorted(test)
        st["net"] = [self.describe(d) for d in self.net.inflight]
        st["exitLog"] = self.exit_log()
        st["origLog"] = [{"n": n, "cid": self.cid(c), "p": self.payload_id(data),
                          "origin": "null" if tuple(origin) == ("0.0.0.0", 0) else "outside"}
                         for (n, c, origin, data) in self.raw_log]
        st["transports_open"] = {nm: self.open_transports(nm) for nm in self.names}
        st["cmpact"] = bool(getattr(self, "compare_act", False))
        return st

    def open_transports(self, nm):
        """outside sockets of node nm that exist and are not closed (owned or leaked)"""
        owner = self.ov[nm]
        n = 0
        for tr in self.net.transports:
            sock = getattr(getattr(tr.protocol, "received_cb", None), "__self__", None)
            if sock is not None and sock.overlay is owner and not tr.closed:
                n += 1
        return n

    def exit_log(self):
        out = []
        for (_d, tr, data, addr) in [x for x in self.net.outside_log if x[0] == "out"]:
            sock = getattr(getattr(tr.protocol, "received_cb", None), "__self__", None)
            if sock is None:
                continue
            nm = next((k for k, v in self.ov.items() if v is sock.overlay), "?")
            rec = {"n": nm, "cid": self.cid(sock.circuit_id), "p": self.payload_id(data), "dest": "outside"}
            if rec not in out:
                out.append(rec)
        return out

    PAYLOAD_HEAD = b"d1:ad2:id20:"      # bencoded DHT-looking packets pass every BT exit policy
    PAYLOAD_TAIL = b"e1:q4:ping1:t2:aa1:y1:qe"

    def payload(self, p, size=0, shape="raw"):
        """shape: 'raw' (bencoded, BitTorrent-DHT-looking) | 'ipv8' (looks like a packet of some other IPv8 community) |
        'tunnel' (carries the tunnel community's own prefix and an unassigned message number). The specification's
        payloads are opaque: whatever the bytes look like, they arrive identical where the spec says they arrive."""
        body = b"%020d" % p
        inner = self.PAYLOAD_HEAD + body + (b"1:x%d:" % size + b"z" * size if size else b"") + self.PAYLOAD_TAIL
        if shape == "ipv8":
            return b"\x00\x02" + b"\x77" * 20 + b"\x01" + inner
        if shape == "tunnel":
            return bytes(self.ov[self.names[0]]._prefix) + b"\xfe" + inner
        return inner

    def payload_id(self, data):
        if len(data) >= 23 and data[:1] == b"\x00" and data[1:2] in (b"\x01", b"\x02"):
            data = data[23:]
        if data.startswith(self.PAYLOAD_HEAD) and data.endswith(self.PAYLOAD_TAIL):
            try:
                return int(data[len(self.PAYLOAD_HEAD):len(self.PAYLOAD_HEAD) + 20])
            except ValueError:
                return 0
        return 0

    def collect_keys(self):
        for nm in self.names:
            ov = self.ov[nm]
            ks = [h.keys for c in ov.circuits.values() for h in c.hops]
            ks += [r.hop.keys for r in ov.relay_from_to.values()] + [e.hop.keys for e in ov.exit_sockets.values()]
            for k in ks:
                if k is not None:
                    self.keys.setdefault(bytes(k.key_forward), k)

    def measure_depth(self, blob):
        """number of AEAD layers that really come off the ciphertext with the session keys that exist in the world
        (authenticated decryption: success is unambiguous)"""
        self.collect_keys()
        depth = 0
        while True:
            for k in self.keys.values():
                done = False
                for direction in (0, 1):
                    try:
                        blob = k.decrypt_str(blob, direction)
                        depth += 1
                        done = True
                        break
                    except Exception:  # noqa: BLE001
                        continue
                if done:
                    break
            else:
                return depth

    def describe(self, dg):
        d = dg.data
        rec = {"id": dg.seq, "src": self.name_of_addr(dg.src), "dst": self.name_of_addr(dg.dst)}
        prefix = self.ov[self.names[0]].get_prefix()
        if d[:22] == prefix and len(d) > 22 and d[22] == 0 and len(d) >= 29:
            import struct
            cid = struct.unpack_from("!I", d, 23)[0]
            rec.update({"t": "cell", "cid": self.cid_map.get(cid, 0), "plain": d[27] != 0, "early": d[28] != 0,
                        "depth": self.measure_depth(d[29:])})
        elif d[:22] == prefix and len(d) > 22 and d[22] == 8:
            rec.update({"t": "destroy"})
            try:
                ov = self.ov[self.names[0]]
                from ipv8.messaging.anonymization.payload import DestroyPayload
                from ipv8.messaging.payload_headers import BinMemberAuthenticationPayload, GlobalTimeDistributionPayload
                auth, off = ov.serializer.unpack_serializable(BinMemberAuthenticationPayload, d, offset=23)
                pl, _ = ov.serializer.unpack_serializable(DestroyPayload, d, offset=off)
                rec["cid"] = self.cid_map.get(pl.circuit_id, 0)
                rec["signer"] = self.key_name.get(auth.public_key_bin, "?key")
                from ipv8.keyvault.crypto import default_eccrypto
                key = default_eccrypto.key_from_public_bin(auth.public_key_bin)
                siglen = key.get_signature_length()
                if not default_eccrypto.is_valid_signature(key, d[:-siglen], d[-siglen:]):
                    rec["signer"] = "nobody"        # names a key, but the signature does not verify
            except Exception:  # noqa: BLE001
                rec["cid"] = 0
                rec["signer"] = "?"
        else:
            rec.update({"t": "other", "len": len(d)})
        return rec

    # ------------------------------------------------------------------ stepping
    def _settle(self):
        self.loop.drain()

    def log(self, action, **args):
        self._settle()
        ev = {"a": action, "now": self.now_ms()}
        ev.update(args)
        ev["post"] = self.project()
        self.events.append(ev)
        if self.on_step is not None:
            self.on_step(self, ev)
        return ev

    def find(self, seq):
        for i, d in enumerate(self.net.inflight):
            if d.seq == seq:
                return i
        raise KeyError(seq)

    # -- API steps
    def create_circuit(self, o, goal, exit_flags=None):
        ov = self.ov[o]
        before = set(ov.circuits)
        c = self.loop.call(ov.create_circuit, goal)
        self._settle()
        if c is None:
            return None
        cache = ov.request_cache.get("retry", c.circuit_id)
        first = self.name_of_peer(c.unverified_hop.peer)
        alts = [self.name_of_peer(a) for a in cache.candidates] if cache else []
        assert set(ov.circuits) - before == {c.circuit_id}
        return self.log("CreateCircuit", o=o, goal=goal, first=first, alts=alts)

    def send_data(self, o, spec_cid, p, size=0):
        ov = self.ov[o]
        c = ov.circuits[self.real_cid(spec_cid)]
        data = self.payload(p, size)
        self.loop.call(ov.send_data, c.hop.address, c.circuit_id, ("1.2.3.4", 5000), ("0.0.0.0", 0), data)
        return self.log("SendData", o=o, cid=spec_cid, p=p)

    def cancel_ready(self, o, spec_cid):
        """the application stops waiting for the circuit (asyncio.wait_for(circuit.ready, t) ran out / its task was cancelled):
        the future the circuit exposes is cancelled. Nothing the specification models changes."""
        c = self.ov[o].circuits[self.real_cid(spec_cid)]
        c.ready.cancel()
        self.loop.drain()
        return self.log("Noop", what="%s:ready-cancelled" % o)

    def remove_circuit(self, o, spec_cid, destroy):
        ov = self.ov[o]
        self.loop.call(ov.remove_circuit, self.real_cid(spec_cid), "driver", False, 1 if destroy else False)
        return self.log("RemoveCircuit", o=o, cid=spec_cid, destroy=bool(destroy))

    # -- hidden services (the link is performed by the harness on the real tables, as on_link_e2e does)
    def link_e2e(self, rp, c1, c2, o1, k1, o2, k2):
        from ipv8.messaging.anonymization.tunnel import FORWARD, Hop, RelayRoute
        from ipv8_rust_tunnels import generate_session_keys
        ov = self.ov[rp]
        e1, e2 = ov.exit_sockets[self.real_cid(c1)], ov.exit_sockets[self.real_cid(c2)]
        self.loop.call(ov.remove_exit_socket, e1.circuit_id, "linking circuit")
        self.loop.call(ov.remove_exit_socket, e2.circuit_id, "linking circuit")
        ov.relay_from_to[e1.circuit_id] = RelayRoute(e2.circuit_id, Hop(e2.hop.peer, e1.hop.keys), FORWARD, True)
        ov.relay_from_to[e2.circuit_id] = RelayRoute(e1.circuit_id, Hop(e1.hop.peer, e2.hop.keys), FORWARD, True)
        secret = self.rng.randbytes(64)
        ca, cb = self.ov[o1].circuits[self.real_cid(k1)], self.ov[o2].circuits[self.real_cid(k2)]
        ca.ctype, cb.ctype = "RP_DOWNLOADER", "RP_SEEDER"
        ca.hs_session_keys = generate_session_keys(secret)
        cb.hs_session_keys = generate_session_keys(secret)
        self.keys.setdefault(bytes(ca.hs_session_keys.key_forward), ca.hs_session_keys)
        return self.log("LinkE2E", rp=rp, c1=c1, c2=c2, o1=o1, k1=k1, o2=o2, k2=k2)

    def send_test(self, o, spec_cid, request_size=0, response_size=0):
        ov = self.ov[o]
        c = ov.circuits[self.real_cid(spec_cid)]
        self.loop.call(ov.send_test_request, c, request_size, response_size)
        return self.log("SendTest", o=o, cid=spec_cid)

    def send_e2e(self, o, spec_cid, p, size=0, shape="raw"):
        ov = self.ov[o]
        c = ov.circuits[self.real_cid(spec_cid)]
        self.loop.call(ov.send_data, c.hop.address, c.circuit_id, ("2.2.2.2", 2000), ("0.0.0.0", 0),
                       self.payload(p, size, shape))
        return self.log("SendE2E", o=o, cid=spec_cid, p=p)

    def rp_forge(self, rp, spec_cid):
        """the rendezvous point fabricates a data cell for the far side of relay entry spec_cid (hop keys, no e2e key)"""
        from ipv8.messaging.anonymization.payload import DataPayload
        ov = self.ov[rp]
        entry = ov.relay_from_to[self.real_cid(spec_cid)]
        other = ov.relay_from_to[entry.circuit_id]
        pl = DataPayload(entry.circuit_id, ("2.2.2.2", 2000), ("0.0.0.0", 0), self.payload(0))
        message = bytes([1]) + ov.serializer.pack_serializable(pl)[4:]
        blob = other.hop.keys.encrypt_str(message, 1)
        dg = self.net.inject(self.nodes[rp].address, entry.hop.address, self._cell_bytes(entry.circuit_id, False, False, blob))
        self.net.inflight.append(dg)
        return self.log("RPForge", rp=rp, cid=spec_cid)

    def rp_reflect(self, rp, seq):
        """the rendezvous point turns a cell of one half of the link round instead of passing it on (it holds the hop keys of
        both halves): hop layer off, hop layer of the way back on, sent back down the circuit it arrived on"""
        import struct
        d = self.net.inflight[self.find(seq)]
        ov = self.ov[rp]
        cid_real = struct.unpack_from("!I", d.data, 23)[0]
        entry = ov.relay_from_to[cid_real]
        back = ov.relay_from_to[entry.circuit_id]
        content = entry.hop.keys.decrypt_str(bytes(d.data[29:]), 0)
        blob = entry.hop.keys.encrypt_str(content, 1)
        d.data = self._cell_bytes(cid_real, False, False, blob)
        d.src, d.dst = self.nodes[rp].address, (back.hop.address[0], back.hop.address[1])
        d.sender = self.nodes[rp].sim_endpoint
        return self.log("RPReflect", rp=rp, id=seq)

    def pending_sockets(self):
        """exit sockets (node name, spec cid) whose outside transports are still being opened"""
        out = []
        for protocol, fut in self.net.pending_transports:
            if fut.done():
                continue
            sock = getattr(getattr(protocol, "received_cb", None), "__self__", None)
            if sock is None:
                continue
            nm = next((k for k, v in self.ov.items() if v is sock.overlay), None)
            if nm is not None and sock.overlay.exit_sockets.get(sock.circuit_id) is sock and (nm, self.cid(sock.circuit_id)) not in out:
                out.append((nm, self.cid(sock.circuit_id)))
        return out

    def transports_ready(self, n, spec_cid):
        """both outside sockets of that exit socket come into existence (create_transports continues)"""
        sock = self.ov[n].exit_sockets[self.real_cid(spec_cid)]
        flushes = bool(sock.queue) or sock.transport_ipv4 is None
        for _ in range(2):
            for protocol, fut in list(self.net.pending_transports):
                if not fut.done() and getattr(getattr(protocol, "received_cb", None), "__self__", None) is sock:
                    self.loop.call(fut.set_result, None)
                    self.loop.drain()
        # (after Transport4Ready, with nothing waiting, the second socket changes nothing the specification sees)
        return self.log("TransportsReady", n=n, cid=spec_cid) if flushes else self.log("Noop", what="%s:second-transport" % n)

    def transport4_ready(self, n, spec_cid):
        """only the first (IPv4) outside socket comes into existence; the IPv6 one is still being opened"""
        sock = self.ov[n].exit_sockets[self.real_cid(spec_cid)]
        if sock.transport_ipv4 is not None:
            return None
        for protocol, fut in list(self.net.pending_transports):
            if not fut.done() and getattr(getattr(protocol, "received_cb", None), "__self__", None) is sock:
                self.loop.call(fut.set_result, None)
                self.loop.drain()
                return self.log("Transport4Ready", n=n, cid=spec_cid)
        return None

    def _auto_transports(self):
        mode = getattr(self, "transport_mode", None) or ("auto" if self.auto_transports else "hold")
        if mode == "auto":
            for n, c in self.pending_sockets():
                self.transports_ready(n, c)
        elif mode == "half":
            for n, c in self.pending_sockets():
                self.transport4_ready(n, c)

    def outside_nested(self, x, spec_cid, target):
        """a host outside sends the exit's outside socket a datagram that is a tunnel-community DATA message naming circuit
        `target`, with a forged origin and a payload (number 0) of its own"""
        from ipv8.messaging.anonymization.payload import DataPayload
        ov = self.ov[x]
        sock = ov.exit_sockets[self.real_cid(spec_cid)]
        pl = DataPayload(self.real_cid(target), ("0.0.0.0", 0), ("6.6.6.6", 666), self.payload(0))
        data = ov.get_prefix() + bytes([1]) + ov.serializer.pack_serializable(pl)
        for t in self.net.transports:
            if t is sock.transport_ipv4:
                t.inject(data, ("7.7.7.7", 777))
        self.loop.drain()
        return self.log("OutsideNested", x=x, cid=spec_cid, target=target)

    def exit_return(self, x, spec_cid, p):
        ov = self.ov[x]
        sock = ov.exit_sockets[self.real_cid(spec_cid)]
        tr = sock.transport_ipv4
        for t in self.net.transports:
            if t is tr:
                t.inject(self.payload(p), ("1.2.3.4", 5000))
        return self.log("ExitReturn", x=x, cid=spec_cid, p=p)

    def vanish(self, n):
        """the node's endpoint closes for good: it neither sends nor receives any more (abandoned circuits)"""
        self.nodes[n].sim_endpoint.close()
        return self.log("Vanish", n=n)

    def node_remove_relay(self, n, spec_cid):
        self.loop.call(self.ov[n].remove_relay, self.real_cid(spec_cid), "driver", False, 1)
        return self.log("NodeRemoveRelay", n=n, cid=spec_cid)

    def node_remove_exit(self, n, spec_cid):
        self.loop.call(self.ov[n].remove_exit_socket, self.real_cid(spec_cid), "driver", False, 1)
        return self.log("NodeRemoveExit", n=n, cid=spec_cid)

    def expect_quiet(self):
        return self.log("ExpectQuiet")

    def run_until(self, t_ms, deliver=True, max_events=100000):
        """fire every timer up to virtual time t_ms (delivering whatever gets sent, FIFO)"""
        n = 0
        while n < max_events:
            if deliver:
                while self.net.inflight:
                    self.deliver(self.net.inflight[0].seq)
                    n += 1
            ts = self.loop.timers()
            if not ts or int(round((ts[0]._when - self.t0) * MS)) > t_ms:
                break
            self.fire_next_timer()
            n += 1
        return n

    def _suspending(self, cls):
        """should_join_circuit is an async extension point (applications await their own admission decision there):
        this subclass really suspends in it until the driver resumes the decision (spec: SuspendJoin / JoinResume)"""
        world = self

        class SuspendingTunnelCommunity(cls):
            async def should_join_circuit(self, create_payload, previous_node_address):
                fut = world.loop.create_future()
                nm = next(n for n, o in world.ov.items() if o is self)
                world.held_joins.append((nm, create_payload.circuit_id, world.delivering, fut))
                await fut
                if world.suspend_join == "own":
                    return True       # an application's own admission policy (the docstring invites overriding without super())
                return await super().should_join_circuit(create_payload, previous_node_address)
        SuspendingTunnelCommunity.__name__ = cls.__name__
        return SuspendingTunnelCommunity

    def join_resume(self, n, spec_cid, k):
        for i, (nm, rc, seq, fut) in enumerate(self.held_joins):
            if nm == n and seq == k and self.cid(rc) == spec_cid:
                del self.held_joins[i]
                fut.set_result(True)
                self.loop.drain()
                return self.log("JoinResume", n=n, cid=spec_cid, k=k)
        raise KeyError(("held join", n, spec_cid, k))

    def idle(self, ms):
        """let `ms` of virtual time pass: every timer due in it fires (as logged steps), then the clock stands at the end of
        the interval (logged as a Tick before the next step)"""
        target = self.now_ms() + ms
        self.run_until(target)
        when = self.t0 + target / MS
        if self.loop.time() < when:
            self.loop._vt = when

    # -- network steps
    def deliver(self, seq):
        i = self.find(seq)
        self.delivering = seq
        try:
            self.loop.call(self.net.deliver_next, i)
        except Exception as exc:  # noqa: BLE001 - an exception reaching the transport callback is a finding, not a crash
            import traceback
            tb = traceback.extract_tb(exc.__traceback__)
            site = next(("%s:%s" % (f.filename.split("/ipv8/")[-1], f.name) for f in reversed(tb) if "/ipv8/" in f.filename), "?")
            self.escaped.append({"seq": seq, "exc": type(exc).__name__, "site": site, "msg": str(exc)[:200]})
        ev = self.log("Deliver", id=seq)
        self._auto_transports()
        if getattr(self, "auto_resume", False):
            for nm, rc, k, _f in list(self.held_joins):
                self.join_resume(nm, self.cid(rc), k)
        return ev

    def lose(self, seq):
        self.net.drop_next(self.find(seq))
        return self.log("Lose", id=seq)

    def dup(self, seq):
        d = self.net.inflight[self.find(seq)]
        self.net.seq += 1
        c = Datagram(self.net.seq, d.src, d.dst, d.data, d.sender)
        c.note = d.note
        self.net.wire.append(c)
        self.net.inflight.append(c)
        if seq in self.flipped:
            self.flipped[c.seq] = set(self.flipped[seq])
        if seq in self.orig_cid:
            self.orig_cid[c.seq] = self.orig_cid[seq]
        return self.log("Dup", id=seq)

    # -- adversary steps (bytes are really altered / fabricated)
    def tamper(self, seq, pos=None, bit=0):
        d = self.net.inflight[self.find(seq)]
        pos = 29 + self.rng.randrange(len(d.data) - 29) if pos is None else pos
        done = self.flipped.setdefault(seq, set())
        while (pos, bit) in done:                       # flipping the same bit twice would restore the cell
            pos = 29 + self.rng.randrange(len(d.data) - 29)
            bit = self.rng.randrange(8)
        done.add((pos, bit))
        b = bytearray(d.data)
        b[pos] ^= (1 << bit)
        d.data = bytes(b)
        return self.log("Tamper", id=seq, pos=pos)

    def tamper_header(self, seq, what):
        import struct
        d = self.net.inflight[self.find(seq)]
        b = bytearray(d.data)
        if what == "drop":
            if len(b) > 22 and b[22] == 8:
                b[-1 - self.rng.randrange(64)] ^= 1 << self.rng.randrange(8)     # signature of a destroy
            else:
                pos = self.rng.randrange(min(23, len(b)))
                b[pos] ^= 1 << (self.rng.randrange(8) if pos < 22 else self.rng.choice([0, 1, 2, 4, 5, 6, 7]))
        elif what == "cid":
            while True:
                c = bytearray(b)
                c[23 + self.rng.randrange(4)] ^= 1 << self.rng.randrange(8)
                if struct.unpack_from("!I", c, 23)[0] not in self.cid_map:
                    b = c
                    self.cid(struct.unpack_from("!I", c, 23)[0])    # an id nobody used so far: allocated like any other
                    break
        elif what == "plain":
            b[27] = 0 if b[27] else 1
        elif what == "early":
            b[28] = 0 if b[28] else 1
        d.data = bytes(b)
        if what == "drop":
            # the datagram is no longer a tunnel message: hand it to the receiver right away, it must be inert
            try:
                self.loop.call(self.net.deliver_next, self.find(seq))
            except Exception as exc:  # noqa: BLE001
                self.escaped.append({"seq": seq, "exc": type(exc).__name__, "site": "header-tamper", "msg": str(exc)[:200]})
        return self.log("TamperHeader", id=seq, what=what)

    def tamper_at(self, seq, pos, bit):
        """flip one bit at an absolute byte position of an in-flight cell; logged as the spec action it amounts to"""
        import struct
        d = self.net.inflight[self.find(seq)]
        b = bytearray(d.data)
        if pos >= 29:
            return self.tamper(seq, pos=pos, bit=bit)
        old = bytes(b)
        b[pos] ^= 1 << bit
        d.data = bytes(b)
        if pos < 23:
            try:
                self.loop.call(self.net.deliver_next, self.find(seq))
            except Exception as exc:  # noqa: BLE001
                self.escaped.append({"seq": seq, "exc": type(exc).__name__, "site": "header-tamper", "msg": str(exc)[:200]})
            return self.log("TamperHeader", id=seq, what="drop", pos=pos)
        if pos < 27:
            new = struct.unpack_from("!I", b, 23)[0]
            if new in self.cid_map:
                return self.log("Splice", id=seq, cid=self.cid_map[new], pos=pos)
            self.cid(new)
            return self.log("TamperHeader", id=seq, what="cid", pos=pos)
        what = "plain" if pos == 27 else "early"
        if (old[pos] != 0) == (b[pos] != 0):
            what = "same"
        return self.log("TamperHeader", id=seq, what=what, pos=pos)

    def splice(self, seq, spec_cid):
        import struct
        d = self.net.inflight[self.find(seq)]
        b = bytearray(d.data)
        struct.pack_into("!I", b, 23, self.real_cid(spec_cid))
        d.data = bytes(b)
        return self.log("Splice", id=seq, cid=spec_cid)

    def _adv_put(self, src, dst, data):
        self.n_adv_put += 1
        if self.dual_stack and self.n_adv_put % 2:
            # every other fabricated datagram arrives on the node's IPv6 interface (to the spec a node is a node)
            dg = self.net.inject(self.nodes[src].address6 if src in self.nodes else ("fd00::dead", 8090),
                                 self.nodes[dst].address6, data)
            self.addr_name.setdefault(("fd00::dead", 8090), "adv")
        else:
            dg = self.net.inject(self.nodes[src].address if src in self.nodes else self.adv.address,
                                 self.nodes[dst].address, data)
        self.net.inflight.append(dg)
        return dg

    def _cell_bytes(self, cid_real, plain, early, message):
        from ipv8.messaging.anonymization.payload import CellPayload
        cell = CellPayload(cid_real, message)
        cell.plaintext = plain
        cell.relay_early = early
        return cell.to_bin(self.ov[self.names[0]].get_prefix())

    def _unknown_cid(self):
        while True:
            c = self.rng.getrandbits(32)
            if c not in self.cid_map and c != 0:
                return c

    def inject(self, src, dst, spec_cid, mt):
        import os
        cid_real = self.real_cid(spec_cid) if spec_cid else self._unknown_cid()
        msg_id = {"data": 1, "extend": 4, "extended": 5, "ping": 6}[mt]
        body = bytes([msg_id]) + self.rng.randbytes(60)
        # encrypted with a key nobody else has
        from ipv8_rust_tunnels import generate_session_keys
        keys = generate_session_keys(self.rng.randbytes(64))
        self._adv_put(src, dst, self._cell_bytes(cid_real, False, True, keys.encrypt_str(body, 0)))
        return self.log("Inject", src=src, dst=dst, cid=spec_cid, mt=mt)

    def adv_create(self, src, dst, spec_cid):
        from ipv8.messaging.anonymization.payload import CreatePayload
        ov = self.ov[dst]
        cid_real = self.real_cid(spec_cid) if spec_cid else self._unknown_cid()
        if not spec_cid:
            self.cid(cid_real)      # a fresh circuit id chosen by the attacker: allocated like any other
        from ipv8.keyvault.crypto import default_eccrypto
        eph = default_eccrypto.generate_key("curve25519")
        pl = CreatePayload(cid_real, 7, self.adv.my_peer.public_key.key_to_bin(), eph.get_crypt_pk())
        message = bytes([2]) + ov.serializer.pack_serializable(pl)[4:]
        self._adv_put(src, dst, self._cell_bytes(cid_real, True, False, message))
        return self.log("AdvCreate", src=src, dst=dst, cid=spec_cid)

    def adv_plain(self, src, dst, spec_cid, mt):
        from ipv8.messaging.anonymization.payload import DataPayload, PingPayload
        ov = self.ov[dst]
        cid_real = self.real_cid(spec_cid)
        if mt == "data":
            pl = DataPayload(cid_real, ("6.6.6.6", 666), ("0.0.0.0", 0), self.payload(0))
            message = bytes([1]) + ov.serializer.pack_serializable(pl)[4:]
        else:
            pl = PingPayload(cid_real, 9)
            message = bytes([6]) + ov.serializer.pack_serializable(pl)[4:]
        self._adv_put(src, dst, self._cell_bytes(cid_real, True, False, message))
        return self.log("AdvPlain", src=src, dst=dst, cid=spec_cid, mt=mt)

    def forge_destroy(self, src, dst, spec_cid, replay_seq=None, claim=None):
        """signed by the attacker's own key, or (replay_seq) a genuine destroy seen on the wire, re-sent"""
        from ipv8.messaging.anonymization.payload import DestroyPayload
        from ipv8.messaging.payload_headers import BinMemberAuthenticationPayload
        from ipv8.keyvault.crypto import default_eccrypto
        ov = self.ov[dst]
        if replay_seq is not None:
            orig = next(d for d in self.net.wire if d.seq == replay_seq)
            data = orig.data
            signer = self.describe(orig)["signer"]
        elif claim is not None:
            # names the key of node `claim`; the signature is the attacker's (made with its own key): it does not verify
            auth = BinMemberAuthenticationPayload(self.nodes[claim].my_peer.public_key.key_to_bin())
            body = ov.get_prefix() + bytes([8]) + ov.serializer.pack_serializable_list(
                [auth, DestroyPayload(self.real_cid(spec_cid), 1)])
            data = body + default_eccrypto.create_signature(self.adv.my_peer.key, body)
            signer = "nobody"
        else:
            auth = BinMemberAuthenticationPayload(self.adv.my_peer.public_key.key_to_bin())
            body = ov.get_prefix() + bytes([8]) + ov.serializer.pack_serializable_list(
                [auth, DestroyPayload(self.real_cid(spec_cid), 1)])
            data = body + default_eccrypto.create_signature(self.adv.my_peer.key, body)
            signer = "adv"
        self._adv_put(src, dst, data)
        return self.log("ForgeDestroy", src=src, dst=dst, cid=spec_cid, signer=signer)

    def mangle_answer(self, seq, how, target_cid=None):
        """rewrite a plaintext created cell in flight (real bytes, real DH for the 'ephauth' case)"""
        from ipv8.messaging.anonymization.payload import CreatedPayload
        from ipv8.messaging.anonymization.crypto import TunnelCrypto
        import struct
        d = self.net.inflight[self.find(seq)]
        ov = self.ov[self.names[0]]
        data = d.data
        cid_real = struct.unpack_from("!I", data, 23)[0]
        assert data[27] != 0 and data[29] == 3, "not a plaintext created cell"
        pl, _ = ov.serializer.unpack_serializable(CreatedPayload, struct.pack("!I", cid_real) + data[30:])
        ident, key, auth, cands = pl.identifier, pl.key, pl.auth, pl.candidates_enc
        new_cid = cid_real
        if how == "ident":
            ident = (ident + 1) % 65536
        elif how == "cid":
            others = [c for c in self.cid_map if c != cid_real]
            if target_cid is not None:
                new_cid = self.real_cid(target_cid)
            else:
                new_cid = others[0] if others else self._unknown_cid()
            self.orig_cid.setdefault(seq, cid_real)
        elif how == "eph":
            from ipv8.keyvault.crypto import default_eccrypto
            key = default_eccrypto.generate_key("curve25519").get_crypt_pk()
        elif how == "ephauth":
            # own ephemeral key with an auth that is correct for it: needs the initiator's public ephemeral from the create
            create = self._find_create_for(self.orig_cid.get(seq, cid_real), d, pl.identifier)
            crypto = TunnelCrypto()
            crypto.initialize(self.adv.my_peer.key)
            _shared, key, auth = crypto.generate_diffie_shared_secret(create)
            self.adv_keys.append(crypto.generate_session_keys(_shared))
        elif how == "auth":
            auth = self.rng.randbytes(len(auth))          # fresh random tag: repeating the manipulation never restores it
        elif how == "cands":
            cands = self.rng.randbytes(max(1, len(cands)))
        elif how == "candkey":
            # the joined node itself misbehaves: a correctly encrypted candidate list that holds an unparsable public key
            src = self.name_of_addr(d.src)
            keys = self.ov[src].exit_sockets[cid_real].hop.keys
            cands = keys.encrypt_str(ov.serializer.pack("varlenH-list", [b"not a public key"] * 2), 0)
        npl = CreatedPayload(new_cid, ident, key, auth, cands)
        message = bytes([3]) + ov.serializer.pack_serializable(npl)[4:]
        d.data = self._cell_bytes(new_cid, True, data[28] != 0, message)
        return self.log("MangleAnswer", id=seq, how=how, cid=self.cid_map.get(new_cid, 0) if how == "cid" else 0)

    def _find_create_for(self, cid_real, created_dg, identifier=None):
        """the create this created answers: same circuit id, sent to the answering node, from the node the answer goes to,
        with the identifier the answer echoes (forged creates for the same id may be on the wire, too)"""
        import struct
        from ipv8.messaging.anonymization.payload import CreatePayload
        ov = self.ov[self.names[0]]
        found = []
        for w in reversed(self.net.wire):
            dd = w.data
            if len(dd) > 30 and dd[22] == 0 and struct.unpack_from("!I", dd, 23)[0] == cid_real and dd[27] != 0 and dd[29] == 2 \
                    and w.dst == created_dg.src:
                pl, _ = ov.serializer.unpack_serializable(CreatePayload, struct.pack("!I", cid_real) + dd[30:])
                found.append((pl.identifier == identifier, w.src == created_dg.dst, pl.key))
        # (the answer's identifier may itself have been rewritten by an earlier manipulation)
        for want in ((True, True), (False, True), (True, False), (False, False)):
            for ident_ok, src_ok, key in found:
                if (ident_ok, src_ok) == want:
                    return key
        raise KeyError("no create seen for this created")

    # -- timers
    def identify_timer(self, h):
        fut = h._args[0] if h._args else None
        task = None
        for t in asyncio.all_tasks(self.loop):
            if getattr(t, "_fut_waiter", None) is fut:
                task = t
                break
        if task is None:
            return ("Noop", {})
        for nm in self.names:
            ov = self.ov[nm]
            owners = [("ov", ov), ("rc", ov.request_cache)] + [("sock", s) for s in ov.exit_sockets.values()]
            for kind, tm in owners:
                for key, t in list(tm._pending_tasks.items()):
                    if t is not task:
                        continue
                    if kind == "ov":
                        if key == "do_circuits":
                            return ("Sweep", {"n": nm})
                        if key == "do_ping":
                            return ("DoPing", {"n": nm})
                        if isinstance(key, str) and key.startswith("remove_"):
                            what = key.split(" ")[0]
                            loc = task.get_coro().cr_frame.f_locals
                            k = {"remove_circuit": "circuit", "remove_relay": "relay", "remove_exit_socket": "exit"}[what]
                            return ("PendPop", {"n": nm, "kind": k, "cid": self.cid(loc["circuit_id"])})
                        return ("Noop", {"what": "%s:%s" % (nm, key)})
                    if kind == "rc":
                        cn = type(key).__name__
                        if cn == "RetryRequestCache":
                            return ("RetryTimeout", {"n": nm, "cid": self.cid(key.number)})
                        if cn == "CreatedRequestCache":
                            return ("CacheTimeout", {"n": nm, "kind": "created", "k": self.cid(key.number)})
                        if cn == "CreateRequestCache":
                            return ("CacheTimeout", {"n": nm, "kind": "create", "k": self.ident("create", nm, key.number)})
                        if cn == "PingRequestCache":
                            return ("CacheTimeout", {"n": nm, "kind": "ping", "k": self.ident("ping", nm, key.number)})
                        if cn == "TestRequestCache":
                            return ("CacheTimeout", {"n": nm, "kind": "ping", "k": self.ident("test", nm, key.number)})
                        return ("Noop", {"what": "%s:rc:%s" % (nm, key)})
                    return ("Noop", {"what": "%s:sock:%s" % (nm, key)})
        return ("Noop", {"what": "unowned"})

    def _idle(self, n):
        ov = self.ov[n]
        return not ov.circuits and not ov.relay_from_to and not ov.exit_sockets

    def _emit_tick(self):
        self.last_tick_ms = self.now_ms()
        self.log("Tick", t=self.last_tick_ms)

    def fire_next_timer(self, horizon=None):
        """advance the clock to the earliest timer and run exactly it (+ everything it makes ready).
        Timers without any effect on the specification's state (task-manager housekeeping, sweeps and pings of a node
        whose tables are empty) are fired but not logged; the clock advance is logged lazily before the next step."""
        self._settle()
        ts = self.loop.timers()
        if not ts:
            return None
        h = ts[0]
        if horizon is not None and h._when - self.t0 > horizon:
            return None
        action, args = self.identify_timer(h)
        if h._when > self.loop._vt:
            self.loop._vt = h._when
        silent = action == "Noop" or (action in ("Sweep", "DoPing") and self._idle(args["n"]))
        if silent:
            self.loop.fire_timer(h)
            self._settle()
            if action != "Noop" and not self._idle(args["n"]):
                raise RuntimeError("a timer of an idle node changed its tables")
            return {"a": "silent"}
        if self.now_ms() > self.last_tick_ms:
            self._emit_tick()
        self.loop.fire_timer(h)
        return self.log(action, **args)

    def header(self):
        return {"flags": {n: (["relay", "exit"] if n in self.exits else ["relay"]) for n in self.names},
                "cands": {n: self.cands[n] for n in self.names}, "first": {n: self.first[n] for n in self.names}}

    def close(self):
        vloop.uninstall()
        try:
            self.loop.close()
        except Exception:  # noqa: BLE001
            pass
