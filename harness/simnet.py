"""Simulated UDP network for real ipv8 overlays: in-flight datagrams under the driver's control (deliver, drop,
duplicate, reorder, tamper, inject), optional NAT boxes, outside-world hosts for exit sockets, wire log.

Sources are delivered as UDPv4Address/UDPv6Address instances, as the real UDPEndpoint does."""
from __future__ import annotations

import asyncio
import socket
from collections import deque

from ipv8.messaging.interfaces.endpoint import Endpoint
from ipv8.messaging.interfaces.udp.endpoint import UDPv4Address, UDPv6Address


class Datagram:
    __slots__ = ("seq", "src", "dst", "data", "sender", "fate", "note")

    def __init__(self, seq, src, dst, data, sender):
        self.seq, self.src, self.dst, self.data, self.sender = seq, src, dst, data, sender
        self.fate = "inflight"
        self.note = ""

    def __repr__(self):
        return "<dg %d %s->%s %dB %s>" % (self.seq, self.src, self.dst, len(self.data), self.fate)


class NatBox:
    """Cone NAT: endpoint-independent mapping; filtering by type."""
    NONE, FULL, ADDR, PORT = "none", "fullCone", "addrRestricted", "portRestricted"

    def __init__(self, net, ip, kind):
        self.net, self.ip, self.kind = net, ip, kind
        self.mapping = {}      # internal (ip, port) -> external port
        self.rev = {}          # external port -> internal (ip, port)
        self.allowed = {}      # external port -> set of remote ip / (ip, port)
        self.next_port = 20000
        self.inside = set()    # internal addresses
        self.drops = []

    def map_out(self, internal, dst):
        if internal not in self.mapping:
            self.mapping[internal] = self.next_port
            self.rev[self.next_port] = internal
            self.allowed[self.next_port] = set()
            self.next_port += 1
        port = self.mapping[internal]
        self.allowed[port].add(dst[0])
        self.allowed[port].add((dst[0], dst[1]))
        return (self.ip, port)

    def map_in(self, ext_port, src):
        internal = self.rev.get(ext_port)
        if internal is None:
            return None, "no-mapping"
        if self.kind == self.FULL:
            return internal, "ok"
        if self.kind == self.ADDR:
            return (internal, "ok") if src[0] in self.allowed[ext_port] else (None, "filtered-addr")
        if self.kind == self.PORT:
            return (internal, "ok") if (src[0], src[1]) in self.allowed[ext_port] else (None, "filtered-port")
        return internal, "ok"


class SimEndpoint(Endpoint):
    def __init__(self, net, addr, nat=None):
        super().__init__()
        self.net = net
        self.addr = UDPv4Address(*addr) if ":" not in addr[0] else UDPv6Address(*addr)
        self.nat = nat
        self._open = True
        self.sent = 0
        self.bytes_up = self.bytes_down = 0
        # what MockEndpoint offers (some tests/overlays look at these)
        self.lan_address = self.addr
        self.wan_address = self.addr if nat is None else None

    def assert_open(self):
        assert self._open

    def is_open(self):
        return self._open

    def get_address(self):
        return self.addr

    def send(self, socket_address, packet):
        if not self._open:
            return
        self.sent += 1
        self.net.transmit(self, socket_address, bytes(packet))

    async def open(self):
        self._open = True
        return True

    def close(self, timeout=0.0):
        self._open = False

    def reset_byte_counters(self):
        pass


class OutsideTransport:
    """Stands in for the asyncio DatagramTransport of an exit socket (no real socket)."""

    def __init__(self, net, protocol, family):
        self.net, self.protocol, self.family = net, protocol, family
        self.closed = False
        self.sent = []
        net.transports.append(self)
        self.port = 40000 + len(net.transports)

    def sendto(self, data, addr=None):
        if self.closed:
            raise RuntimeError("sendto on a closed transport")
        self.sent.append((bytes(data), addr))
        self.net.outside_log.append(("out", self, bytes(data), addr))
        if self.net.on_outside:
            self.net.on_outside(self, bytes(data), addr)

    def close(self):
        self.closed = True

    def is_closing(self):
        return self.closed

    def abort(self):
        self.closed = True

    def get_extra_info(self, name, default=None):
        if name == "socket":
            fam = self.family
            port = self.port

            class _S:
                def getsockname(self_inner):
                    return ("0.0.0.0" if fam == socket.AF_INET else "::", port, 0, 0)[:2 if fam == socket.AF_INET else 4]
            return _S()
        return default

    def inject(self, data, src):
        """A datagram from the outside world arrives at this socket."""
        if not self.closed:
            self.net.outside_log.append(("in", self, bytes(data), src))
            self.protocol.datagram_received(bytes(data), src)


class SimNet:
    def __init__(self, loop=None, auto=True):
        self.loop = loop or asyncio.get_event_loop()
        self.auto = auto
        self.hosts = {}          # (ip, port) -> SimEndpoint    (real socket addresses)
        self.nats = {}           # external ip -> NatBox
        self.inflight = deque()
        self.wire = []           # every Datagram ever transmitted
        self.seq = 0
        self.policy = None       # callable(dg) -> list of Datagram to deliver (may be empty / duplicated / altered) or None
        self.transports = []
        self.outside_log = []
        self.on_outside = None   # callable(transport, data, addr)
        self.dns = {}
        self.on_deliver = None   # callable(dg) just before a datagram reaches its listeners
        self.next_host = 1
        self.hold_transports = False   # True: opening an outside socket waits until the driver resolves it
        self.pending_transports = []   # (protocol, future)
        if hasattr(self.loop, "simnet"):
            self.loop.simnet = self

    # ---- topology
    def endpoint(self, ip=None, port=None, nat=None):
        if ip is None:
            if nat is None:
                ip = "80.%d.%d.%d" % (self.next_host // 65536 % 256, self.next_host // 256 % 256, self.next_host % 256)
            else:
                ip = "192.168.%d.%d" % (list(self.nats.values()).index(nat) + 1, len(nat.inside) + 2)
            self.next_host += 1
        port = port or 8090
        ep = SimEndpoint(self, (ip, port), nat)
        self.hosts[(ip, port)] = ep
        if nat is not None:
            nat.inside.add((ip, port))
        return ep

    def nat(self, kind, ip=None):
        ip = ip or "90.0.0.%d" % (len(self.nats) + 1)
        box = NatBox(self, ip, kind)
        self.nats[ip] = box
        return box

    # ---- sending
    def transmit(self, ep, dst, data):
        dst = (dst[0], dst[1])
        src = ep.addr
        note = ""
        nat = ep.nat
        if nat is not None and nat.kind != NatBox.NONE:
            if dst in nat.inside:
                note = "lan"
            elif dst[0] == nat.ip:
                note = "hairpin"
            else:
                src = nat.map_out((ep.addr[0], ep.addr[1]), dst)
        self.seq += 1
        dg = Datagram(self.seq, (src[0], src[1]), dst, data, ep)
        dg.note = note
        self.wire.append(dg)
        out = [dg]
        if self.policy is not None:
            res = self.policy(dg)
            if res is not None:
                out = res
        if not out:
            dg.fate = "dropped"
        for d in out:
            if self.auto:
                self.loop.call_soon(self.deliver, d)
            else:
                self.inflight.append(d)

    def inject(self, src, dst, data):
        """A datagram fabricated by the driver (attacker)."""
        self.seq += 1
        dg = Datagram(self.seq, (src[0], src[1]), (dst[0], dst[1]), bytes(data), None)
        dg.note = "injected"
        self.wire.append(dg)
        return dg

    # ---- delivery
    def route(self, dg):
        """-> (SimEndpoint | None, reason)"""
        if dg.note == "hairpin":
            return None, "hairpin"
        dst = dg.dst
        ep = self.hosts.get(dst)
        if ep is not None:
            if ep.nat is not None and ep.nat.kind != NatBox.NONE:
                # private address: only reachable from the same LAN
                snd = dg.sender
                if snd is not None and snd.nat is ep.nat:
                    return ep, "lan"
                return None, "private-unroutable"
            return ep, "ok"
        box = self.nats.get(dst[0])
        if box is not None:
            internal, why = box.map_in(dst[1], dg.src)
            if internal is None:
                box.drops.append((dg.src, dst, why))
                return None, why
            return self.hosts.get(internal), "nat-in"
        return None, "no-host"

    def deliver(self, dg):
        ep, why = self.route(dg)
        if ep is None or not ep.is_open():
            dg.fate = "lost:" + (why if ep is None else "closed")
            return False
        dg.fate = "delivered"
        if self.on_deliver:
            self.on_deliver(dg)
        src = UDPv6Address(*dg.src) if ":" in dg.src[0] else UDPv4Address(*dg.src)
        ep.bytes_down += len(dg.data)
        ep.notify_listeners((src, dg.data))
        return True

    def deliver_next(self, index=0):
        dg = self.inflight[index]
        del self.inflight[index]
        return self.deliver(dg)

    def drop_next(self, index=0):
        dg = self.inflight[index]
        del self.inflight[index]
        dg.fate = "dropped"
        return dg

    def flush(self, limit=100000):
        """manual mode: deliver everything in FIFO order until quiet."""
        n = 0
        while self.inflight and n < limit:
            self.deliver_next()
            n += 1
        return n

    # ---- outside world for exit sockets (used by VLoop.create_datagram_endpoint / getaddrinfo overrides)
    async def create_datagram_endpoint(self, protocol_factory, local_addr=None, **kw):
        protocol = protocol_factory()
        if self.hold_transports:
            fut = self.loop.create_future()
            self.pending_transports.append((protocol, fut))
            await fut
        fam = socket.AF_INET6 if local_addr and ":" in local_addr[0] else socket.AF_INET
        tr = OutsideTransport(self, protocol, fam)
        if hasattr(protocol, "connection_made"):
            protocol.connection_made(tr)
        return tr, protocol

    async def getaddrinfo(self, host, port, **kw):
        ip = self.dns.get(host)
        if ip is None:
            raise socket.gaierror("simulated: unknown host %r" % (host,))
        fam = socket.AF_INET6 if ":" in ip else socket.AF_INET
        return [(fam, socket.SOCK_DGRAM, 17, "", (ip, port))]


def attach(loop, net):
    """Route the loop's datagram-endpoint creation and name resolution to the simulator."""
    loop.simnet = net
    loop.create_datagram_endpoint = net.create_datagram_endpoint
    loop.getaddrinfo = net.getaddrinfo
    return net
