"""C02 - the two parts of the specification that are not a table of shipped classes.

WireReg.tla (binding R): which packer a format NAME means is state of every Serializer.  TLC's state graph of
Load (Overlay.get_serializer) / AddPacker (Serializer.add_packer) / Use / UseMsg is replayed into the real classes:
after every action the table of every live serializer (and of the process-wide default_serializer) is projected by
behaviour - the names it knows, and how the packer behind each name decodes two probe datagrams, compared with what TLC
computed for the definition the specification binds the name to - and every Use is packed / unpacked / repacked
through the real serializer of that handle and compared with the bytes TLC computed.

WireDef.tla (binding E): message types made with the library's definition mechanisms.  Every definition TLC
enumerated (and the long ones it drew with -simulate) is materialised as real classes - a plain VariablePayload with
fix_pack_/fix_unpack_ rules or its vp_compile'd form - and executed top level at an offset, nested and listed; bytes,
decoded fields, end offset and re-encoding are compared with the ones TLC computed."""
from __future__ import annotations

import dataclasses
import glob
import json
import os
import re
import shutil

from .replay import edge_cover
from .tlc import MachineryError, _RE_NODE, _unescape, parse_dot, parse_simulate_file, parse_state, run_tlc, scratch_dir
from .wirevals import JAVA_OPTS, canon, plain


def _c02():
    from .drivers import c02
    return c02


def _table(v):
    """a TLA+ function name -> key as dict (the empty function arrives as an empty sequence)."""
    return dict(v) if isinstance(v, dict) else {}


# --------------------------------------------------------------------------------------------------------
# WireReg: serializer registries
# --------------------------------------------------------------------------------------------------------
REG_VARS = {"shared", "ref", "ovr", "added", "nadds", "last"}


def violated_invariants(r):
    return set(re.findall(r"Invariant (\S+) is violated", r.output))


def reg_model(world, cfg):
    """TLC part (worker thread): state graph of WireReg.tla + the probe table it exports.  The same run explores the
    deviation (shared = TRUE, Load only) whose invariant CtlIsolation has to be violated: the negative control.
    -> (TlcResult, graph of the documented behaviours, exported tables, control fired)"""
    tmp = scratch_dir("c02r-")
    try:
        dot, probe, keyfile = os.path.join(tmp, "g.dot"), os.path.join(tmp, "probe.json"), os.path.join(tmp, "keys.json")
        with open(keyfile, "w", encoding="utf-8") as f:
            json.dump([list(k) for k in world.keys], f)
        r = run_tlc("WireReg.tla", cfg, dump=dot, coverage=False, workers=4, java_opts=JAVA_OPTS, continue_=True,
                    env={"WIRE_KEYS": keyfile, "REG_PROBE_OUT": probe})
        bad = violated_invariants(r) - {"CtlIsolation"}
        if bad:
            raise MachineryError("WireReg.tla %s: the registry model itself violates %s" % (cfg, sorted(bad)))
        with open(probe, encoding="utf-8") as f:
            tables = json.load(f)
        g = parse_dot(dot, keep_vars=REG_VARS)
        g.init = [i for i in g.init if g.states[i]["shared"] is False]
        if len(g.init) != 1:
            raise MachineryError("WireReg.tla %s: expected one documented initial state, found %d" % (cfg, len(g.init)))
        return r, g, tables, "CtlIsolation" in violated_invariants(r)
    finally:
        shutil.rmtree(tmp, ignore_errors=True)


class RegWorld:
    """the real side: overlay classes, application overlays built from the specification's table, live serializers."""

    def __init__(self, world, tables, sabotage=False):
        from ipv8.community import Community
        from ipv8.messaging import serialization
        from ipv8.overlay import Overlay
        self.world = world
        self.serialization = serialization
        self.probes = [bytes(p) for p in tables["probes"]]
        self.fp_spec = tables["table"]                     # key -> [decode result per probe]
        self.default_table = dict(tables["default"])
        self.class_packers = {c: _table(t) for c, t in tables["classes"].items()}
        self.instclass = dict(tables["instclass"])
        self.sabotage = sabotage
        self._fp_cache = {}

        def walk(c):
            for s in c.__subclasses__():
                yield s
                yield from walk(s)
        shipped = {c.__name__: c for c in [Overlay, *walk(Overlay)] if c.__module__.startswith("ipv8.") and ".test" not in c.__module__}
        spec_shipped = set(tables["shipped"])
        if set(shipped) - spec_shipped:
            raise MachineryError("overlay class(es) not listed in ClassPackers of specs/WireReg.tla (add what their "
                                 "get_serializer registers): %s" % sorted(set(shipped) - spec_shipped))
        if spec_shipped - set(shipped):
            raise MachineryError("ClassPackers of specs/WireReg.tla lists overlay classes ipv8 no longer defines: %s"
                                 % sorted(spec_shipped - set(shipped)))
        self.classes = dict(shipped)
        rw = self
        for name, own in self.class_packers.items():
            if name in shipped:
                continue

            def get_serializer(self, _own=own):
                serializer = super(self.__class__, self).get_serializer()
                for n, k in sorted(_own.items()):
                    serializer.add_packer(n, rw.new_packer(k))
                return serializer
            self.classes[name] = type(name, (Community,), {"community_id": bytes([len(name)]) * 20, "get_serializer": get_serializer})
        if sabotage:       # control: every overlay of the doctored world is handed one shared registry
            shared = serialization.Serializer()
            for name, c in list(self.classes.items()):
                own = self.class_packers[name]

                def get_shared(self, _own=own):
                    for n, k in sorted(_own.items()):
                        shared.add_packer(n, rw.new_packer(k))
                    return shared
                try:
                    self.classes[name] = type(name, (c,), {"get_serializer": get_shared})
                except TypeError:
                    pass

    def new_packer(self, key):
        """a new packer object with the documented definition `key` (what an application would construct itself)."""
        fresh = self.serialization.Serializer()
        if key in fresh.get_available_formats():
            return fresh.get_packer_for(key)
        return self.world.serializer.get_packer_for(key)

    def start(self):
        self.sers = {"default": self.serialization.default_serializer}

    def load(self, inst):
        cls = self.classes[self.instclass[inst]]
        self.sers[inst] = cls.get_serializer(object.__new__(cls))      # Overlay.__init__: self.serializer = self.get_serializer()

    def add_packer(self, inst, name, key):
        self.sers[inst].add_packer(name, self.new_packer(key))

    # ---- projection by behaviour
    def fingerprint(self, packer, key):
        ck = (id(packer), key)
        hit = self._fp_cache.get(ck)
        if hit is not None and hit[0] is packer:
            return hit[1]
        codec = self.world.codec
        res = []
        for probe in self.probes:
            lst = []
            try:
                end = packer.unpack(probe, 1, lst)
                res.append({"ok": True, "val": canon(codec.to_norm(key, codec.unpacked_value(key, lst))), "end": end})
            except MachineryError:
                raise
            except Exception as e:  # noqa: BLE001
                res.append({"ok": False, "why": "%s: %s" % (type(e).__name__, str(e)[:80])})
        self._fp_cache[ck] = (packer, res)
        return res

    def table_problems(self, handle, expected):
        """real table of a handle vs name -> key of the specification  ->  [(name, detail)]."""
        ser = self.sers[handle]
        have = set(ser.get_available_formats())
        probs = [(n, "knows a packer %r that neither Serializer.__init__, its own class nor a call on it registered" % n)
                 for n in sorted(have - set(expected))]
        probs += [(n, "has no packer %r" % n) for n in sorted(set(expected) - have)]
        for n in sorted(have & set(expected)):
            key = expected[n]
            if key in ("payload", "payload-list"):
                continue
            got = self.fingerprint(ser.get_packer_for(n), key)
            for j, exp in enumerate(self.fp_spec[key]):
                if not exp["ok"]:
                    continue       # the reference rejects this probe under this definition: strictness is C03's subject
                if not got[j]["ok"] or got[j]["val"] != canon(exp["val"]) or got[j]["end"] != exp["end"]:
                    probs.append((n, "holds under %r a packer that does not decode like the definition %r the name is bound to (probe %s at "
                                     "offset 1 -> %s, specification value %s end %s)" % (
                                         n, key, self.probes[j][1:9].hex(), got[j] if not got[j]["ok"] else
                                         (plain(got[j]["val"]), got[j]["end"]), plain(canon(exp["val"])), exp["end"])))
                    break
        return probs


def expected_tables(rw, st):
    """handle -> (name -> key) the specification state demands."""
    out = {}
    ref, ovr = st["ref"], st["ovr"]
    for h in ["default"] + sorted(i for i, r in ref.items() if r != ""):
        obj = "default" if h == "default" else ref[h]
        t = dict(rw.default_table)
        t.update(_table(ovr[obj]))
        out[h] = t
    return out


def describe_handle(rw, h):
    return "default_serializer" if h == "default" else "the serializer of %s (%s)" % (h, rw.instclass[h])


def replay_reg_walk(ctx, world, rw, g, init, walk, seen_cfg):
    """one walk of the state graph on the real objects; -> number of compared steps."""
    c02 = _c02()
    rw.start()
    history = []
    n = 0

    def check_tables(st, after):
        key = (after, repr(sorted((k, repr(v)) for k, v in st.items() if k in ("ref", "ovr"))))
        fresh = key not in seen_cfg
        seen_cfg.add(key)
        for h, exp in expected_tables(rw, st).items():
            for name, detail in rw.table_problems(h, exp):
                ctx.violation("R:table:%s:%s" % ("default" if h == "default" else rw.instclass[h], name),
                              "after %s: %s %s" % (" ; ".join(history) or "start of the process", describe_handle(rw, h), detail),
                              {"reg_walk": {"actions": list(history), "handle": h, "name": name}})
        if fresh:
            ctx.nontrivial(("R", key))
    check_tables(g.states[init], "init")
    for ei in walk:
        _, act, args, dst = g.edges[ei]
        st = g.states[dst]
        n += 1
        if act == "Load":
            rw.load(args[0])
            history.append("Load(%s: %s)" % (args[0], rw.instclass[args[0]]))
            check_tables(st, history[-1])
        elif act == "AddPacker":
            rw.add_packer(*args)
            history.append("AddPacker(%s, %r -> definition %r)" % args)
            check_tables(st, history[-1])
        elif act in ("Use", "UseMsg"):
            last = st["last"]
            h = args[0]
            out = world.execute(last["kind"], last["name"], last["val"], last["pad"], data=bytes(last["data"]), ser=rw.sers[h],
                                key=last["key"] or None)
            probs = c02.compare(out, last["val"], bytes(last["bytes"]), canon(last["dec"]["val"]), last["dec"]["end"], bytes(last["re"]))
            ctx.evaluated(1)
            ctx.nontrivial(("RU", h, last["name"], last["pad"], last["bytes"], tuple(history)))
            for aspect, detail in probs:
                ctx.violation("R:use:%s:%s" % ("default" if h == "default" else rw.instclass[h], last["name"]),
                              "after %s: %s %s through %s at offset %d: %s" % (
                                  " ; ".join(history) or "start of the process", "format" if last["kind"] == "fmt" else "message",
                                  last["name"], describe_handle(rw, h), last["pad"], detail),
                              {"reg_walk": {"actions": list(history), "handle": h, "name": last["name"]}})
        elif act != "Forget":
            raise MachineryError("WireReg: unknown action %r in the state graph" % act)
    return n


def replay_registry(ctx, world, model, seed, max_ops=None):
    r, g, tables, ctl_fired = model
    acts = {}
    for e in g.edges:
        if g.states[e[0]]["shared"] is False:
            acts[e[1]] = acts.get(e[1], 0) + 1
    for a in ("Load", "AddPacker", "Use", "UseMsg", "Forget"):
        if not acts.get(a):
            raise MachineryError("WireReg: action %s is never taken in the state graph" % a)
    r.coverage = {a: (c, c) for a, c in acts.items()}
    ctx.add_tlc("registry", r)
    ctx.control("registry model in which get_serializer hands out the process-wide singleton violates Isolation", ctl_fired)
    rw = RegWorld(world, tables)
    seen = set()
    steps = walks = 0
    for init, walk in edge_cover(g, max_ops=max_ops, seed=seed):
        steps += replay_reg_walk(ctx, world, rw, g, init, walk, seen)
        walks += 1
    ctx.traces(walks)
    ctx.note("R_registry", {"states": sum(1 for st in g.states.values() if st["shared"] is False), "edges": sum(acts.values()), "walks": walks, "steps_replayed": steps,
                            "actions": acts, "overlay_classes": sorted(tables["shipped"]),
                            "instances": sorted(g.states[g.init[0]]["ref"])})
    # negative control on the binding: the same walks on a doctored world in which all overlays share one registry
    fired = []

    class Probe:
        """collects instead of reporting"""
        def violation(self, sig, desc, replay=None):
            fired.append(sig)

        def evaluated(self, n=1):
            pass

        def nontrivial(self, key):
            pass
    bad = RegWorld(world, tables, sabotage=True)
    for init, walk in edge_cover(g, max_ops=400, seed=seed):
        replay_reg_walk(Probe(), world, bad, g, init, walk, set())
        if len(fired) > 3:
            break
    ctx.control("replay on a doctored process in which every overlay is handed one shared Serializer is flagged",
                any(s.startswith("R:table") or s.startswith("R:use") for s in fired))


# --------------------------------------------------------------------------------------------------------
# WireDef: definitions
# --------------------------------------------------------------------------------------------------------
def rotl(v):
    return v[1:] + v[:1]


def rotr(v):
    return v[-1:] + v[:-1]


RULES = {"?": (lambda v: not v, lambda v: not v),
         "H": (lambda v: (v + 1) % 65536, lambda v: (v - 1) % 65536),
         "I": (lambda v: 0xFFFFFFFF - v, lambda v: 0xFFFFFFFF - v),
         "20s": (rotl, rotr), "varlenH": (rotl, rotr), "varlenHutf8": (rotl, rotr),
         "bit": (lambda v: 1 - v, lambda v: 1 - v)}


def def_key(df, style):
    return "def:%s:%s" % (style, ",".join("%s%s" % (f["k"], ("/%d" % f["h"]) if f["h"] else "") for f in df))


def def_states(dot_path):
    """-> (completed documented behaviours, number of documented 'define' states)"""
    with open(dot_path, encoding="utf-8") as f:
        text = f.read()
    seen = set()
    n_define = 0
    done = []
    for m in _RE_NODE.finditer(text):
        lbl = m.group(2)
        if m.group(1) in seen:
            continue
        seen.add(m.group(1))
        if "dev = {}" not in lbl:
            continue                            # behaviours with a deviation switched on: the negative controls
        if 'phase = \\"define\\"' in lbl:
            n_define += 1
        if 'phase = \\"done\\"' in lbl:
            done.append(parse_state(_unescape(lbl)))
    return done, n_define


def def_model(cfg):
    """-> (TlcResult, completed documented behaviours, number of define states, set of controls that fired)"""
    tmp = scratch_dir("c02d-")
    try:
        dot = os.path.join(tmp, "g.dot")
        r = run_tlc("WireDef.tla", cfg, dump=dot, coverage=False, workers=2, java_opts=JAVA_OPTS, continue_=True)
        bad = violated_invariants(r) - {"CtlRules", "CtlDerive"}
        if bad:
            raise MachineryError("WireDef.tla %s: the meaning of a definition itself violates %s" % (cfg, sorted(bad)))
        states, n_define = def_states(dot)
        return r, states, n_define, violated_invariants(r)
    finally:
        shutil.rmtree(tmp, ignore_errors=True)


def def_simulate(cfg, num, seed):
    tmp = scratch_dir("c02s-")
    try:
        r = run_tlc("WireDef.tla", cfg, coverage=False, workers=1, java_opts=JAVA_OPTS,
                    simulate="file=%s,num=%d" % (os.path.join(tmp, "b"), num), depth=16, seed=seed)
        if not r.ok:
            raise MachineryError("WireDef.tla %s (simulation): %s" % (cfg, r.violated))
        m = re.search(r"The number of states generated: (\d+)", r.output)
        if m:
            r.generated = r.distinct = int(m.group(1))
        out = []
        for path in sorted(glob.glob(os.path.join(tmp, "b_*"))):
            steps = parse_simulate_file(path)
            if steps and steps[-1][2].get("phase") == "done":
                out.append(steps[-1][2])
        return r, out
    finally:
        shutil.rmtree(tmp, ignore_errors=True)


class Definitions:
    """real classes for the definitions of WireDef.tla, registered with the codec as extra classes."""

    def __init__(self, world):
        from ipv8.messaging.lazy_payload import VariablePayload, vp_compile
        from ipv8.messaging.payload_dataclass import DataClassPayload, type_from_format
        self.world = world
        self.VariablePayload, self.vp_compile = VariablePayload, vp_compile
        self.DataClassPayload, self.type_from_format = DataClassPayload, type_from_format
        self.made = {}

    @staticmethod
    def names(df):
        return [["f%d_%d" % (i, j) for j in range(1, 9)] if f["k"] == "bits" else ["f%d" % i] for i, f in enumerate(df, 1)]

    def row(self, df):
        fields, wire = [], []
        for f, ns in zip(df, self.names(df)):
            wire.append({"fmt": f["k"], "cls": "", "names": ns})
            if f["k"] == "bits":
                fields += [{"name": n, "type": "bit", "cls": ""} for n in ns]
            else:
                fields.append({"name": ns[0], "type": f["k"], "cls": ""})
        return {"hand": False, "base": False, "wire": wire, "fields": fields}

    def rules(self, df, first):
        """fix_pack_/fix_unpack_ members for the fields from index `first` on (the ones written in this class body)."""
        body = {}
        for i, (f, ns) in enumerate(zip(df, self.names(df))):
            if i < first or not f["h"]:
                continue
            n, k = (ns[f["h"] - 1], "bit") if f["k"] == "bits" else (ns[0], f["k"])
            pk, un = RULES[k]
            body["fix_pack_" + n] = (lambda self, v, _f=pk: _f(v))
            body["fix_unpack_" + n] = classmethod(lambda cls, v, _f=un: _f(v))
        return body

    def build(self, df, style, parent, first, sabotage):
        """the class a user would write for the fields df[first:] on top of `parent` (None: the mechanism's root)."""
        uid = len(self.made) + 1
        names = self.names(df)
        body = self.rules(df, first)
        if style == "dataclass":
            fields = [(ns[0], self.type_from_format(f["k"])) for f, ns in list(zip(df, names))[first:]]   # own fields only
            return dataclasses.make_dataclass("Data%d" % uid, fields, bases=(parent or self.DataClassPayload,), namespace=body,
                                              module=__name__)
        body.update({"format_list": [f["k"] for f in df], "names": [n for ns in names for n in ns]})
        if sabotage == "rules":     # control: a from_unpack_list that only looks at as many names as there are formats
            def from_unpack_list(cls, *args):
                unpack_args = list(args)
                for i in range(len(cls.format_list)):
                    rule = "fix_unpack_" + cls.names[i]
                    if hasattr(cls, rule):
                        unpack_args[i] = getattr(cls, rule)(args[i])
                return cls(*unpack_args)
            body["from_unpack_list"] = classmethod(from_unpack_list)
        if sabotage == "derive" and parent is not None:      # control: the derived class forgets to extend the lists
            del body["format_list"], body["names"]
        klass = type("%s%d" % (style.capitalize(), uid), (parent or self.VariablePayload,), body)
        if style == "compiled":
            klass = self.vp_compile(klass)
        elif style != "plain":
            raise MachineryError("WireDef: unknown definition mechanism %r" % style)
        return klass

    def register(self, key, klass, df):
        self.world.codec.extra_classes[key] = (klass, self.row(df))
        self.made[key] = klass

    def materialise(self, df, style, split=0, sabotage=None, first_use=None):
        """-> codec key of the class for definition df.  With split > 0 the class is derived from a class of its own
        for df[:split] (classes keep state), and that base class is instantiated, packed and unpacked with the leading
        values of first_use before the derived class exists."""
        key = def_key(df, style) + ("^%d" % split if split else "") + ("!" + sabotage if sabotage else "")
        if key in self.made:
            return key
        parent = None
        if split:
            bdf = tuple(df[:split])
            parent = self.build(bdf, style, None, 0, None)
            bkey = "%s^base%d" % (def_key(bdf, style), len(self.made) + 1)
            self.register(bkey, parent, bdf)
            if first_use is not None:
                self.world.execute("msg", bkey, canon(self.to_fields(bdf, first_use[:split])), 0)
        self.register(key, self.build(df, style, parent, split, sabotage), df)
        return key

    def to_fields(self, df, vec):
        out = {}
        for f, ns, v in zip(df, self.names(df), vec):
            if f["k"] == "bits":
                out.update(dict(zip(ns, v)))
            else:
                out[ns[0]] = v
        return out

    def value(self, df, kind, val):
        if kind == "list":
            return tuple(self.to_fields(df, v) for v in val)
        return self.to_fields(df, val)

    def run_state(self, st, sabotage=None):
        """one completed behaviour of WireDef.tla on the real classes -> (key, value, out, problems)."""
        c02 = _c02()
        df, kind, split = st["def"], st["kind"], st.get("split", 0)
        first = (st["val"][0] if st["val"] else None) if kind == "list" else st["val"]
        key = self.materialise(df, st["style"], split, sabotage, first_use=first)
        val = canon(self.value(df, kind, st["val"]))
        out = self.world.execute(kind, key, val, st["pad"], data=bytes(st["data"]))
        exp = canon(self.value(df, kind, st["dec"]["val"]))
        return key, val, out, c02.compare(out, val, bytes(st["bytes"]), exp, st["dec"]["end"], bytes(st["re"]))


def describe_def(df, split=0):
    parts = [f["k"] + (("+rule on name %d" % f["h"]) if f["k"] == "bits" and f["h"] else "+rule" if f["h"] else "") for f in df]
    if split:
        return "[" + ", ".join(parts[:split]) + "] extended by a derived class with [" + ", ".join(parts[split:]) + "] (base used first)"
    return "[" + ", ".join(parts) + "]"


STYLE_TEXT = {"plain": "plain VariablePayload", "compiled": "vp_compile'd", "dataclass": "DataClassPayload"}


def run_def_states(ctx, defs, states, tag):
    by = {}
    nviol = 0
    for st in states:
        key, val, out, probs = defs.run_state(st)
        ctx.evaluated(1)
        ctx.nontrivial(("D", key, st["kind"], st["pad"], st["bytes"]))
        k3 = (st["style"], st["kind"], "derived" if st.get("split") else "single")
        by[k3] = by.get(k3, 0) + 1
        for aspect, detail in probs:
            nviol += 1
            has_bits = any(f["k"] == "bits" for f in st["def"])
            has_rule = any(f["h"] and f["k"] != "bits" for f in st["def"])
            shape = ("derived+" if st.get("split") else "") + (("bits" if has_bits else "") + ("+rules" if has_rule else "") or "simple")
            ctx.violation("D:%s:%s:%s:%s" % (st["style"], st["kind"], aspect, shape),
                          "%s definition %s used %s at offset %d: %s" % (
                              STYLE_TEXT[st["style"]], describe_def(st["def"], st.get("split", 0)),
                              {"msg": "top level", "nest": "nested", "list": "listed"}[st["kind"]], st["pad"], detail),
                          {"def_state": plain(st)})
    ctx.traces(len(states))
    return by, nviol


def def_binding_controls(ctx, defs, states):
    """doctored classes must be flagged on states TLC computed: rules looked up by format index; a derived class
    that keeps the base's lists."""
    want = {"rules": "a definition class whose from_unpack_list looks rules up by format index is flagged by the comparison",
            "derive": "a derived definition class that keeps the field lists of its base is flagged by the comparison"}
    for st in states:
        df = st["def"]
        if "rules" in want and st["style"] == "plain" and st["kind"] == "msg" and not st.get("split") and len(df) >= 2 \
                and df[0]["k"] == "bits" and df[-1]["h"] == 1 and df[-1]["k"] != "bits":
            good, bad = defs.run_state(st)[3], defs.run_state(st, sabotage="rules")[3]
            ctx.control(want.pop("rules"), good == [] and any(a in ("unpack-value", "repack-bytes", "repack-raised") for a, _ in bad))
        if "derive" in want and st["style"] == "plain" and st["kind"] == "msg" and st.get("split"):
            good, bad = defs.run_state(st)[3], defs.run_state(st, sabotage="derive")[3]
            ctx.control(want.pop("derive"), good == [] and bad != [])
        if not want:
            return
    raise MachineryError("WireDef: no enumerated state to build the binding control(s) %s from" % sorted(want))


def replay_def_state(ctx, world, st):
    defs = Definitions(world)
    run_def_states(ctx, defs, [canon_state(st)], "replay")


def canon_state(st):
    return {k: canon(v) for k, v in st.items()}
