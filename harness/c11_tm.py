"""C11, task-manager part: every transition of the TLC state graph of specs/TaskManager.tla is executed on the
real ipv8.taskmanager.TaskManager (binding R) on a single-stepped event loop (one Tick = one loop iteration)."""
from __future__ import annotations

import asyncio
import inspect
import os
import shutil

from . import vloop
from .replay import diff_states, edge_cover
from .tlc import FrozenDict, MachineryError, parse_dot, run_tlc, scratch_dir

CHK = "_check_tasks"


class TmWorld:
    """One real TaskManager on a StepLoop; instance ids are given out in creation order, like the spec's nxt."""

    def __init__(self, names):
        from ipv8.taskmanager import TaskManager
        self.names = list(names)
        self.loop = vloop.StepLoop()
        asyncio.set_event_loop(self.loop)
        self.tm = self.loop.call(TaskManager)
        self.inst = {1: self.tm._checker}            # noqa: SLF001  id -> future
        self.ids = {id(self.tm._checker): 1}         # noqa: SLF001
        self.gate = {}
        self.started = set()
        self.nxt = 2
        self.dup = 0
        self.drop = 0
        self.replaced = []      # futures returned by replace_task not yet accounted for
        self.sdtask = None
        world = self

        def factory():
            g = world.nxt
            world.nxt += 1
            gate = world.loop.create_future()
            world.gate[g] = gate

            async def body():
                world.started.add(g)
                await gate
            world.coro[g] = body()
            return world.coro[g]
        inspect.markcoroutinefunction(factory)
        self.factory = factory
        self.coro = {}

    def close(self):
        for f in list(self.inst.values()):
            if not f.done():
                f.cancel()
        for g in self.gate.values():
            if not g.done():
                g.cancel()
        if self.sdtask is not None and not self.sdtask.done():
            self.sdtask.cancel()
        try:
            self.loop.drain()
        except Exception:  # noqa: BLE001
            pass
        asyncio.set_event_loop(None)
        self.loop.close()

    # ---- bookkeeping of what a registration call produced
    def _bind_new(self, before):
        """Instances created since nxt == before: find the asyncio task that wraps each coroutine."""
        for g in range(before, self.nxt):
            for t in asyncio.all_tasks(self.loop):
                if t.get_coro() is self.coro[g]:
                    self.inst[g] = t
                    self.ids[id(t)] = g
                    break
            else:
                raise MachineryError("coroutine of instance %d was created but is not wrapped in a task" % g)

    def _scan_replaced(self):
        keep = []
        for fut in self.replaced:
            if not fut.done():
                keep.append(fut)
            elif fut.exception() is not None:
                if not isinstance(fut.exception(), RuntimeError):
                    raise MachineryError("replace_task failed unexpectedly: %r" % (fut.exception(),))
                self.dup += 1
            elif id(fut.result()) not in self.ids:
                self.drop += 1      # register_task inside the callback returned a dummy: refused (shutdown)
        self.replaced = keep

    # ---- the spec's actions
    def do(self, name, args):
        lp, tm = self.loop, self.tm
        start = self.nxt
        if name == "Register":
            before = self.nxt
            try:
                res = lp.call(tm.register_task, args[0], self.factory)
            except RuntimeError:
                self.dup += 1
            else:
                if self.nxt == before:
                    self.drop += 1      # returned an awaitable without creating anything: refused (shutdown)
        elif name == "Replace":
            fut = lp.call(tm.replace_task, args[0], self.factory)
            self.replaced.append(fut)
        elif name == "Cancel":
            lp.call(tm.cancel_pending_task, args[0])
        elif name == "Finish":
            lp.call(self.gate[args[0]].set_result, None)
        elif name == "Shutdown":
            self.sdtask = lp.call(lp.create_task, tm.shutdown_task_manager())
        elif name == "Tick":
            for _ in range(len(lp._ready)):                   # noqa: SLF001
                if not lp._ready:                             # noqa: SLF001
                    break
                lp.run_ready()
        else:
            raise MachineryError("unknown TaskManager action " + name)
        self._bind_new(start)
        self._scan_replaced()

    # ---- projection compared with the TLC state
    def project(self, max_t):
        tm = self.tm
        reg = {}
        for n in [*self.names, CHK]:
            fut = tm._pending_tasks.get(n)                    # noqa: SLF001
            reg[n] = 0 if fut is None else self.ids.get(id(fut), -1)
        life = []
        for g in range(1, max_t + 1):
            fut = self.inst.get(g)
            if fut is None:
                life.append("unborn" if g not in self.gate else "pending")
            elif fut.done():
                life.append("cancelled" if fut.cancelled() else "finished")
            else:
                life.append("pending")
        sdp = "idle" if self.sdtask is None else ("done" if self.sdtask.done() else "busy")
        idle = not [h for h in self.loop._ready if not h._cancelled]   # noqa: SLF001
        return {"sd": bool(tm._shutdown), "reg": FrozenDict(reg), "life": tuple(life),    # noqa: SLF001
                "started": frozenset(self.started), "sdp": sdp, "dup": self.dup, "drop": self.drop,
                "idle": idle}


def spec_view(st):
    """The same projection computed from a TLC state."""
    life = tuple("pending" if s in ("new", "waiting", "woken") else s for s in st["st"])
    sdp = st["sdp"] if st["sdp"] in ("idle", "done") else "busy"
    return {"sd": st["sd"], "reg": st["reg"], "life": life, "started": st["started"] - {1}, "sdp": sdp,
            "dup": st["dup"], "drop": st["drop"], "idle": len(st["q"]) == 0}


def load_graph(cfgname, java_opts=()):
    """TLC on TaskManager.tla with a dump of the state graph. -> (TlcResult, Graph)"""
    tmp = scratch_dir("c11tm-")
    try:
        dot = os.path.join(tmp, "g.dot")
        r = None
        for attempt in (1, 2, 3):
            try:
                r = run_tlc("TaskManager.tla", cfgname, dump=dot, java_opts=tuple(java_opts))
                break
            except MachineryError as e:
                if attempt == 3 or "rc=143" not in str(e) and "rc=137" not in str(e):
                    raise
        if not r.ok:
            raise MachineryError("TaskManager %s: TLC reports %s on the specification itself" % (cfgname, r.violated))
        for act in ("Register", "Replace", "Cancel", "Finish", "Shutdown", "Tick"):
            if r.coverage.get(act, (0, 0))[1] == 0:
                raise MachineryError("TaskManager %s: action %s never taken (vacuous)" % (cfgname, act))
        g = parse_dot(dot)
    finally:
        shutil.rmtree(tmp, ignore_errors=True)
    return r, g


def replay(ctx, cfgname, tag, max_ops=None, corrupt=None, loaded=None):
    """-> number of real operations executed. corrupt: name of a deliberately wrong mapping (negative control);
    then the function returns True iff a divergence was detected."""
    r, g = loaded if loaded is not None else load_graph(cfgname)
    if corrupt is None:
        ctx.add_tlc(tag, r)
    names = sorted(n for n in g.states[g.init[0]]["reg"] if n != CHK)
    max_t = len(g.states[g.init[0]]["st"])
    nwalks = nedges = nviol = 0
    covered = set()
    diverged = False
    for init, walk in edge_cover(g, max_ops=max_ops, seed=ctx.seed):
        w = TmWorld(names)
        labels = []
        try:
            d = diff_states(spec_view(g.states[init]), w.project(max_t))
            if d:
                raise MachineryError("TaskManager initial state differs from the spec: %s" % (d,))
            for ei in walk:
                _s, name, args, dst = g.edges[ei]
                labels.append("%s(%s)" % (name, ",".join(str(a) for a in args)))
                if corrupt == "replace-as-register" and name == "Replace":
                    w.do("Cancel", args)
                    w.do("Register", args)
                elif corrupt == "skip-cancel" and name == "Cancel":
                    pass
                else:
                    w.do(name, args)
                d = diff_states(spec_view(g.states[dst]), w.project(max_t))
                covered.add(ei)
                nedges += 1
                if d:
                    diverged = True
                    if corrupt is None:
                        nviol += 1
                        keys = ",".join(sorted(d))
                        ctx.violation("taskmanager:%s:%s" % (name, keys),
                                      "real TaskManager diverges from TaskManager.tla after %s: %s (calls: %s)"
                                      % (labels[-1], d, " ".join(labels)),
                                      {"part": "taskmanager", "cfg": cfgname, "actions": labels, "diff": d})
                    break
        finally:
            w.close()
        nwalks += 1
        if corrupt is None:
            ctx.nontrivial(("tm", tuple(walk)))
            if nwalks == 3:
                ctx.sample({"taskmanager_walk": labels})
        if diverged and corrupt is not None:
            return True
        if nviol >= 3:
            break
    if corrupt is not None:
        return diverged
    ctx.evaluated(nedges)
    ctx.traces(nwalks)
    ctx.note("replay_" + tag, {"walks": nwalks, "real_operations": nedges, "graph_states": len(g.states),
                               "graph_edges": len(g.edges), "edges_covered": len(covered),
                               "complete_edge_cover": len(covered) == len(g.edges)})
    return nedges
