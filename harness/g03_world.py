"""G03: real AttestationCommunity overlays under the step-mode loop and the manual simulated network, driven one action of
specs/WalletProtocol.tla at a time.  `apply(name, args)` executes one spec action on the real objects, `project()` reads the
state of the real objects back in the vocabulary of the specification (no source hooks: public attributes, the request
cache's own registry, the TaskManager's task of each cache for its timer, datagrams decoded from the simulated wire)."""
from __future__ import annotations

import hashlib
import json
from base64 import decodebytes

from . import vloop
from .simnet import SimNet, attach
from .tlc import FrozenDict, MachineryError

NOCH = (0, 0, 0)
ZERO = FrozenDict({0: 0, 1: 0, 2: 0, 3: 0})


class Divergence(Exception):
    def __init__(self, sig, msg):
        super().__init__(msg)
        self.sig = sig


def fd(**kw):
    return FrozenDict(kw)


def msg(t, src, dst, gt, h=0, seq=0, data=0, ch=NOCH, r=0, pk=0):
    return fd(t=t, src=src, dst=dst, gt=gt, h=h, seq=seq, data=data, ch=tuple(ch), r=r, pk=pk)


class _OsShim:
    def __init__(self, world):
        self.w = world

    def urandom(self, n):
        self.w.hc_consulted = True
        return (b"\x00" if self.w.hc >= 0 else b"\xff") * n


_LOOP = None
_KEYS = {}


def shared_loop():
    global _LOOP
    if _LOOP is None:
        _LOOP = vloop.install(vloop.StepLoop(start=0.0))
    return _LOOP


class World:
    """nodes: ids 1..N; adv: ids of adversarial nodes; pre: list of dict(owner, by, ans); fmt: identity format."""

    def __init__(self, n_nodes, adv=(), pre=(), nchunks=2, fmt="g03_stub", values=None):
        from ipv8.attestation.wallet import community as cm
        from ipv8.attestation.wallet.community import AttestationCommunity
        from ipv8.keyvault.crypto import default_eccrypto
        from ipv8.peer import Peer
        from . import g03_algo
        from .nodes import Node
        self.cm = cm
        self.algo = g03_algo
        self.Peer = Peer
        self.fmt = fmt
        self.nchunks = nchunks
        self.ids = list(n_nodes) if isinstance(n_nodes, (list, tuple)) else list(range(1, n_nodes + 1))
        self.adv = set(adv)
        self.loop = shared_loop()
        self._reset_loop()
        self.net = attach(self.loop, SimNet(self.loop, auto=False))
        self.hc = -1
        self.hc_consulted = False
        self._saved = (cm.os, cm.choice)
        cm.os = _OsShim(self)
        cm.choice = lambda seq: self.hc
        self.nodes, self.ov = {}, {}
        self.swallowed = []
        for i in self.ids:
            if i not in _KEYS:
                _KEYS[i] = default_eccrypto.generate_key("curve25519")
            node = Node(self.net, key=_KEYS[i])
            ov = self.loop.call(node.add, AttestationCommunity, working_directory=":memory:")
            g03_algo.register(ov, nchunks)
            self.nodes[i], self.ov[i] = node, ov
        self.addr_id = {(self.nodes[i].address[0], self.nodes[i].address[1]): i for i in self.ids}
        self.key_id = {self.nodes[i].my_peer.public_key.key_to_bin(): i for i in self.ids}
        self.mid_id = {self.nodes[i].my_peer.mid: i for i in self.ids}
        # symbol tables
        self.sk_id = {}          # id(secret key object) -> key id
        self.sk_obj = {}         # key id -> secret key
        self.pk_id = {}          # serialized public key -> key id
        self.blob_id = {}        # sha1(blob) -> blob id
        self.blob = {}           # blob id -> bytes
        self.hash_of = {}        # blob id -> sha1
        self.adv_ch = {}         # challenge bytes the adversary made up -> challenge id
        self.chunk_code = {}     # chunk bytes -> Data(h, i) / Junk(i)
        self.ch_id = {}          # cache number of sha1(challenge) -> (kind, a, b)
        self.ch_bytes = {}       # (kind, a, b) -> challenge bytes
        self.ver_objs = []       # ProvingAttestationCache objects by verification id - 1
        self.ver_of = {}         # id(ProvingAttestationCache) -> v
        self.chal_list = {}      # v -> [cache number of sha1(challenge j)]
        self.results = []        # v-1 -> [(liar, agg)]
        self.user_results = []   # v-1 -> [certainty lists as handed to the user's callback]
        self.nhon = 0
        self.askA = {i: [] for i in self.ids}
        self.askV = {i: [] for i in self.ids}
        self.completed = {i: [] for i in self.ids}
        self._cur = None
        self.values = values
        for i in self.ids:
            if i in self.adv:
                continue
            self._hook(i)
        for p in pre:
            self._preload(p["owner"], p["by"], p["ans"])
        self.loop.drain()
        self._absorb()

    # ------------------------------------------------------------------ setup
    def _reset_loop(self):
        loop = self.loop
        for h in list(loop._scheduled):
            h.cancel()
        loop._scheduled.clear()
        loop._timer_cancelled_count = 0
        loop._ready.clear()
        loop._vt = 0.0

    def close(self):
        self.cm.os, self.cm.choice = self._saved
        for i in self.ids:
            ov = self.ov[i]
            for rc in (ov.request_cache, ov):
                for t in list(rc._pending_tasks.values()):
                    t.cancel()
                rc._pending_tasks.clear()
            try:
                ov.database.close()
            except Exception:  # noqa: BLE001
                pass
            ov.endpoint.remove_listener(ov)
        for f in [a["fut"] for i in self.ids for a in self.askA[i] + self.askV[i]]:
            f.cancel()
        try:
            self.loop.drain()
        except Exception:  # noqa: BLE001
            pass
        self._reset_loop()

    def _hook(self, i):
        ov = self.ov[i]
        w = self

        def on_attest_request(peer, attribute, metadata):
            fut = w.loop.create_future()
            cur = w._cur
            w.askA[i].append({"peer": w.mid_id.get(peer.mid, 0), "gt": cur["gt"] if cur else -1,
                              "pk": cur["pk"] if cur else -1, "fut": fut})
            return fut

        def on_verify_request(peer, attestation_hash):
            fut = w.loop.create_future()
            w.askV[i].append({"peer": w.mid_id.get(peer.mid, 0), "h": w.blob_id.get(attestation_hash, -1), "fut": fut})
            return fut

        def on_complete(for_peer, name, attr_hash, id_format, from_peer=None):
            w.completed[i].append((w.mid_id.get(for_peer.mid, 0), name, attr_hash, id_format,
                                   w.mid_id.get(from_peer.mid, 0) if from_peer else None))

        ov.set_attestation_request_callback(on_attest_request)
        ov.set_verify_request_callback(on_verify_request)
        ov.set_attestation_request_complete_callback(on_complete)
        send = ov.send_attestation

        def send_attestation(address, blob, global_time=None):
            w._learn_blob(bytes(blob))
            return send(address, blob, global_time)
        ov.send_attestation = send_attestation

        class _Log:
            def __getattr__(self, name):
                def f(*a, **k):
                    if name == "exception":
                        import sys
                        w.swallowed.append((i, repr(sys.exc_info()[1])))
                return f
        ov.logger = _Log()

    def _learn_blob(self, blob):
        hsh = hashlib.sha1(blob).digest()
        if hsh in self.blob_id:
            return self.blob_id[hsh]
        b = len(self.blob_id) + 1
        self.blob_id[hsh] = b
        self.blob[b] = blob
        self.hash_of[b] = hsh
        for c, off in enumerate(range(0, len(blob), 800)):
            self.chunk_code[(b, blob[off:off + 800])] = b * 16 + c + 1
        nch = len(range(0, len(blob), 800))
        if nch != self.nchunks:
            raise MachineryError("blob of %d bytes has %d chunks, the model says %d" % (len(blob), nch, self.nchunks))
        return b

    def new_key(self):
        alg = self.ov[self.honest()[0]].get_id_algorithm(self.fmt)
        sk = alg.generate_secret_key()
        k = len(self.sk_obj) + 1
        self.sk_obj[k] = sk
        self.sk_id[id(sk)] = k
        self.pk_id[sk.public_key().serialize()] = k
        return k, sk

    def honest(self):
        return [i for i in self.ids if i not in self.adv]

    def value_bytes(self, ans):
        return bytes(ans)

    def _preload(self, owner, by, ans):
        """an attestation that exists before the explored behaviour starts (hash i, key i)"""
        k, sk = self.new_key()
        maker = self.ov[self.honest()[0]]
        alg = maker.get_id_algorithm(self.fmt)
        blob = alg.attest(sk.public_key(), self.value_bytes(ans))
        b = self._learn_blob(blob)
        if owner not in self.adv:
            ov = self.ov[owner]
            att = alg.get_attestation_class().unserialize_private(sk, blob, self.fmt)
            peer = self.Peer(self.nodes[by].my_peer.public_key, self.nodes[by].address)
            ov.on_attestation_complete(att, sk, peer, "pre", att.get_hash(), self.fmt)
            self.completed[owner].clear()
        return b

    # ------------------------------------------------------------------ wire
    def decode(self, dg):
        """datagram -> message record of the specification"""
        data = dg.data
        ov = self.ov[self.honest()[0]]
        from ipv8.attestation.wallet.payload import (AttestationChunkPayload, ChallengePayload, ChallengeResponsePayload,
                                                     RequestAttestationPayload, VerifyAttestationRequestPayload)
        mid = data[22]
        cls = {1: VerifyAttestationRequestPayload, 2: AttestationChunkPayload, 3: ChallengePayload,
               4: ChallengeResponsePayload, 5: RequestAttestationPayload}.get(mid)
        if cls is None or data[:22] != ov._prefix:
            return None
        auth, dist, payload = ov._ez_unpack_auth(cls, data)
        src = self.key_id.get(auth.public_key_bin, 0)
        dst = self.addr_id.get((dg.dst[0], dg.dst[1]), 0)
        gt = dist.global_time
        if mid == 5:
            meta = json.loads(payload.metadata)
            pk = self.pk_id.get(decodebytes(meta["public_key"].encode()), -1)
            return msg("req", src, dst, gt, pk=pk)
        if mid == 2:
            h = self.blob_id.get(payload.attestation_hash, -1)
            code = None
            for (b, chunk), c in self.chunk_code.items():
                if chunk == payload.data:
                    code = c
                    break
            if code is None:
                code = -1
            return msg("chunk", src, dst, gt, h=h, seq=payload.sequence_number, data=code)
        if mid == 1:
            return msg("vreq", src, dst, gt, h=self.blob_id.get(payload.attestation_hash, -1))
        if mid == 3:
            num = int.from_bytes(hashlib.sha1(payload.challenge).digest(), "big")
            ch = self.ch_id.get(num)
            if ch is None:
                ch = self.adv_ch.get(payload.challenge, (-1, -1, -1))
            return msg("chal", src, dst, gt, h=self.blob_id.get(payload.attestation_hash, -1), ch=ch)
        num = int.from_bytes(payload.challenge_hash, "big")
        ch = self.ch_id.get(num, (-1, -1, -1))
        return msg("resp", src, dst, gt, ch=ch, r=payload.response[0] if payload.response else -1)

    def _absorb(self):
        """after every action: register new challenges, drop what was sent to adversarial nodes"""
        from ipv8.attestation.wallet.caches import PendingChallengeCache, ProvingAttestationCache
        for i in self.honest():
            rc = self.ov[i].request_cache
            for cache in list(rc._identifiers.values()):
                if isinstance(cache, ProvingAttestationCache) and id(cache) in self.ver_of:
                    v = self.ver_of[id(cache)]
                    if v not in self.chal_list and cache.challenges:
                        self.chal_list[v] = [int.from_bytes(hashlib.sha1(c).digest(), "big") for c in cache.challenges]
                        for j, c in enumerate(cache.challenges, 1):
                            self.ch_bytes[(1, v, j)] = c
            for cache in list(rc._identifiers.values()):
                if isinstance(cache, PendingChallengeCache) and cache.number not in self.ch_id:
                    v = self.ver_of.get(id(cache.proving_cache), 0)
                    if cache.honesty_check >= 0:
                        self.nhon += 1
                        self.ch_id[cache.number] = (2, self.nhon, cache.honesty_check)
                    else:
                        lst = self.chal_list.get(v, [])
                        if cache.number not in lst:
                            raise Divergence("pending-unknown", "a pending regular challenge is none of the attestation's")
                        self.ch_id[cache.number] = (1, v, lst.index(cache.number) + 1)
        keep = []
        for dg in self.net.inflight:
            if self.addr_id.get((dg.dst[0], dg.dst[1])) in self.adv:
                continue
            keep.append(dg)
        self.net.inflight.clear()
        self.net.inflight.extend(keep)

    def find(self, m):
        for dg in self.net.inflight:
            if self.decode(dg) == m:
                return dg
        raise Divergence("no-datagram", "the specification's datagram %s is not in flight" % dict(m))

    def deliver(self, m, keep):
        dg = self.find(m)
        if not keep:
            self.net.inflight.remove(dg)
        self._cur = m
        self.loop.call(self.net.deliver, dg)
        self.loop.drain()
        self._cur = None

    # ------------------------------------------------------------------ timers
    def _timer_of(self, rc, cache):
        task = rc._pending_tasks.get(cache)
        if task is None:
            return None
        fut = getattr(task, "_fut_waiter", None)
        for h in self.loop._scheduled:
            if not h._cancelled and h._args and h._args[0] is fut:
                return h
        return None

    def deadline(self, rc, cache):
        h = self._timer_of(rc, cache)
        if h is None:
            return -1
        w = h._when
        return int(w) if float(w).is_integer() else w

    def fire(self, i, cache):
        rc = self.ov[i].request_cache
        h = self._timer_of(rc, cache)
        if h is None:
            raise Divergence("no-timer", "cache %r has no armed timer" % (cache,))
        others = []
        for j in self.honest():
            rcj = self.ov[j].request_cache
            for lst in self.caches(j).values():
                for c in lst:
                    t = self._timer_of(rcj, c)
                    if t is not None and t is not h:
                        others.append(t._when)
        if others and min(others) < h._when:
            raise MachineryError("time-out fired out of deadline order")
        self.loop.fire_timer(h)
        self.loop.drain()

    # ------------------------------------------------------------------ caches of a node
    def caches(self, i):
        from ipv8.attestation.wallet.caches import (PendingChallengeCache, ProvingAttestationCache,
                                                    ReceiveAttestationRequestCache, ReceiveAttestationVerifyCache)
        rc = self.ov[i].request_cache
        out = {"req": [], "ver": [], "prov": [], "pend": []}
        for cache in rc._identifiers.values():
            if isinstance(cache, ReceiveAttestationRequestCache):
                out["req"].append(cache)
            elif isinstance(cache, ReceiveAttestationVerifyCache):
                out["ver"].append(cache)
            elif isinstance(cache, ProvingAttestationCache):
                out["prov"].append(cache)
            elif isinstance(cache, PendingChallengeCache):
                out["pend"].append(cache)
        return out

    def req_key(self, i, cache):
        """(peer, gt) of a ReceiveAttestationRequestCache: its number is the integer of mid + str(gt)"""
        from ipv8.attestation.wallet.caches import HashCache
        for p in self.ids:
            mid = self.nodes[p].my_peer.mid
            for g in range(0, self.ov[i].global_time + 1):
                if HashCache.id_from_hash("", mid + str(g).encode())[1] == cache.number:
                    return p, g
        return 0, -1

    def hash_key(self, cache):
        return self.blob_id.get(cache.number.to_bytes(20, "big"), -1)

    def _map(self, amap):
        out = set()
        for seq, data in amap:
            code = -1
            for (b, chunk), c in self.chunk_code.items():
                if chunk == data:
                    code = c
                    break
            out.add((seq, code))
        return frozenset(out)

    # ------------------------------------------------------------------ projection
    def project(self):
        n = len(self.ids)
        st = {}
        st["clock"] = tuple(self.ov[i].global_time for i in self.ids)
        reqC, verC, provC, pendC, allowed, db, cached, askA, askV = ([] for _ in range(9))
        for i in self.ids:
            if i in self.adv:
                for lst in (reqC, verC, provC, pendC, allowed, db, cached):
                    lst.append(frozenset())
                askA.append(())
                askV.append(())
                continue
            ov = self.ov[i]
            rc = ov.request_cache
            c = self.caches(i)
            rq = set()
            for cache in c["req"]:
                p, g = self.req_key(i, cache)
                rq.add(fd(peer=p, gt=g, key=self.sk_id.get(id(cache.key), -1), map=self._map(cache.attestation_map),
                          dl=self.deadline(rc, cache)))
            reqC.append(frozenset(rq))
            verC.append(frozenset(fd(h=self.hash_key(cache), map=self._map(cache.attestation_map),
                                     dl=self.deadline(rc, cache)) for cache in c["ver"]))
            provC.append(frozenset(fd(h=self.hash_key(cache), v=self.ver_of.get(id(cache), -1),
                                      dl=self.deadline(rc, cache)) for cache in c["prov"]))
            pendC.append(frozenset(fd(ch=self.ch_id.get(cache.number, (-1, -1, -1)),
                                      v=self.ver_of.get(id(cache.proving_cache), -1), hc=cache.honesty_check,
                                      dl=self.deadline(rc, cache)) for cache in c["pend"]))
            al = set()
            for mid, gts in ov.allowed_attestations.items():
                for g in gts:
                    al.add((self.mid_id.get(mid, 0), int(g)))
                if not gts:
                    al.add((self.mid_id.get(mid, 0), -1))      # an empty list left behind
            allowed.append(frozenset(al))
            rows = ov.database.get_all()
            dbs = set()
            for row in rows:
                hsh, blob, key = bytes(row[0]), bytes(row[1]), bytes(row[2])
                kid = -1
                for k, sk in self.sk_obj.items():
                    if sk.serialize() == key:
                        kid = k
                dbs.add((self.blob_id.get(hsh, -1), kid))
            db.append(frozenset(dbs))
            if {bytes(r[0]) for r in rows} != set(ov.attestation_keys):
                raise Divergence("attestation-keys", "attestation_keys and the database disagree on the stored hashes")
            cached.append(frozenset(self.blob_id.get(h, -1) for h in ov.cached_attestation_blobs))
            askA.append(tuple(fd(peer=a["peer"], gt=a["gt"], pk=a["pk"]) for a in self.askA[i]))
            askV.append(tuple(fd(peer=a["peer"], h=a["h"]) for a in self.askV[i]))
        st.update(reqC=tuple(reqC), verC=tuple(verC), provC=tuple(provC), pendC=tuple(pendC), allowed=tuple(allowed),
                  db=tuple(db), cached=tuple(cached), askA=tuple(askA), askV=tuple(askV))
        vers = []
        for v, cache in enumerate(self.ver_objs, 1):
            lst = self.chal_list.get(v, [])
            rel = cache.relativity_map if cache.relativity_map else dict(ZERO)
            vers.append(fd(h=self.blob_id.get(cache.hash, -1),
                           relmap=FrozenDict({k: rel.get(k, 0) for k in range(4)}),
                           hashed=frozenset(lst.index(int.from_bytes(x, "big")) + 1 for x in cache.hashed_challenges),
                           chals=tuple(lst.index(int.from_bytes(hashlib.sha1(x).digest(), "big")) + 1
                                       for x in cache.challenges),
                           results=tuple(fd(liar=l, agg=a) for l, a in self.results[v - 1])))
        st["ver"] = tuple(vers)
        st["net"] = frozenset(self.decode(dg) for dg in self.net.inflight)
        if len(st["net"]) != len(self.net.inflight):
            raise Divergence("net-duplicate", "two identical datagrams are in flight")
        t = self.loop.time()
        st["now"] = int(t) if float(t).is_integer() else t
        return st

    # ------------------------------------------------------------------ actions
    def apply(self, name, a):
        getattr(self, "a_" + name)(*a)
        self._absorb()

    def a_RequestAttestation(self, n, p):
        k, sk = self.new_key()
        peer = self.Peer(self.nodes[p].my_peer.public_key, self.nodes[p].address)
        self.loop.call(self.ov[n].request_attestation, peer, "attr", sk, {"id_format": self.fmt})
        self.loop.drain()

    def a_OnRequest(self, m, keep):
        self.deliver(m, keep)

    a_OnChunk = a_OnVerifyRequest = a_OnChallenge = a_OnRequest

    def a_AttestAnswer(self, n, i, val):
        if i > len(self.askA[n]):
            raise Divergence("no-ask", "no suspended attestation request %d at node %d" % (i, n))
        a = self.askA[n].pop(i - 1)
        self.loop.call(a["fut"].set_result, None if len(val) == 0 else self.value_bytes(val))
        self.loop.drain()

    def a_Verify(self, n, p, h):
        from ipv8.attestation.wallet.caches import ProvingAttestationCache
        ov = self.ov[n]
        v = len(self.ver_objs) + 1
        self.results.append([])
        self.user_results.append([])
        vals = getattr(self, "raw_values", None) or [self.value_bytes(x) for x in (self.values or [])]

        def cb(attestation_hash, certainties, v=v):
            self.user_results[v - 1].append(list(certainties))
        before = {id(c) for c in ov.request_cache._identifiers.values()}
        self.loop.call(ov.verify_attestation_values, self.nodes[p].address, self.hash_of[h], vals, cb, self.fmt)
        new = [c for c in ov.request_cache._identifiers.values()
               if id(c) not in before and isinstance(c, ProvingAttestationCache)]
        if len(new) != 1:
            raise Divergence("no-proving-cache", "verify_attestation_values registered %d proving caches" % len(new))
        cache = new[0]
        self.ver_objs.append(cache)
        self.ver_of[id(cache)] = v
        orig = cache.attestation_callbacks

        def spy(attestation_hash, relmap, v=v, orig=orig):
            agg = FrozenDict({k: relmap.get(k, 0) for k in range(4)})
            self.results[v - 1].append((sum(agg.values()) == 0, agg))
            return orig(attestation_hash, relmap)
        cache.attestation_callbacks = spy
        self.loop.drain()

    def a_Consent(self, n, i, allow):
        if i > len(self.askV[n]):
            raise Divergence("no-ask", "no suspended verification request %d at node %d" % (i, n))
        a = self.askV[n].pop(i - 1)
        self.loop.call(a["fut"].set_result, bool(allow))
        self.loop.drain()

    def a_OnResponse(self, m, keep, hc):
        self.hc = hc
        self.hc_consulted = False
        self.deliver(m, keep)
        self.hc = -1

    def _cache_by(self, n, kind, pred):
        for cache in self.caches(n)[kind]:
            if pred(cache):
                return cache
        raise Divergence("no-cache", "node %d has no such %s cache" % (n, kind))

    def a_ReqTimeout(self, n, p, g):
        self.fire(n, self._cache_by(n, "req", lambda c: self.req_key(n, c) == (p, g)))

    def a_VerTimeout(self, n, h):
        self.fire(n, self._cache_by(n, "ver", lambda c: self.hash_key(c) == h))

    def a_ProvTimeout(self, n, h):
        self.fire(n, self._cache_by(n, "prov", lambda c: self.hash_key(c) == h))

    def a_PendTimeout(self, n, ch):
        self.fire(n, self._cache_by(n, "pend", lambda c: self.ch_id.get(c.number) == tuple(ch)))

    def a_Tick(self, d):
        self.loop._vt += d

    def a_Drop(self, m):
        self.net.inflight.remove(self.find(m))

    def a_AdvSend(self, m):
        self.net.inflight.append(self.craft(m))

    def craft(self, m):
        """a validly signed datagram of an adversarial node with the content the specification chose"""
        from ipv8.attestation.wallet.payload import AttestationChunkPayload, ChallengePayload, ChallengeResponsePayload
        from ipv8.messaging.payload_headers import BinMemberAuthenticationPayload, GlobalTimeDistributionPayload
        ov = self.ov[m["src"]]
        auth = BinMemberAuthenticationPayload(ov.my_peer.public_key.key_to_bin())
        dist = GlobalTimeDistributionPayload(m["gt"])
        if m["t"] == "chunk":
            if m["data"] == m["seq"] + 1:
                chunk = b"JUNK-%d" % m["seq"]
                self.chunk_code[(0, chunk)] = m["seq"] + 1
            else:
                b, c = (m["data"] - 1) // 16, (m["data"] - 1) % 16
                chunk = self.blob[b][c * 800:(c + 1) * 800]
            payload, mid = AttestationChunkPayload(self.hash_of[m["h"]], m["seq"], chunk), 2
        elif m["t"] == "resp":
            cnum = [num for num, ch in self.ch_id.items() if ch == tuple(m["ch"])][0]
            payload, mid = ChallengeResponsePayload(cnum.to_bytes(20, "big"), bytes([m["r"]])), 4
        elif m["t"] == "chal":
            ch = tuple(m["ch"])
            if ch in self.ch_bytes:
                cbytes = self.ch_bytes[ch]
            else:
                cbytes = b"H" + b"advadvad" + bytes([ch[2]])
                self.adv_ch[cbytes] = ch
                self.ch_id[int.from_bytes(hashlib.sha1(cbytes).digest(), "big")] = ch
            payload, mid = ChallengePayload(self.hash_of[m["h"]], cbytes), 3
        else:
            raise MachineryError("cannot craft %r" % (m,))
        data = ov._ez_pack(ov._prefix, mid, [auth, dist, payload])
        return self.net.inject(self.nodes[m["src"]].address, self.nodes[m["dst"]].address, data)


# ---------------------------------------------------------------------------------------------------------------------
def norm_spec(st, ids):
    """a TLC state in the shape World.project() produces (history fields removed)"""
    def per(f):
        return tuple(f[i] for i in ids) if isinstance(f, dict) else tuple(f)

    def smap(mp):
        return frozenset((e["seq"], e["data"]) for e in mp)
    out = {"clock": per(st["clock"]), "now": st["now"], "net": frozenset(st["net"])}
    out["reqC"] = tuple(frozenset(fd(peer=c["peer"], gt=c["gt"], key=c["key"], map=smap(c["map"]), dl=c["dl"]) for c in s)
                        for s in per(st["reqC"]))
    out["verC"] = tuple(frozenset(fd(h=c["h"], map=smap(c["map"]), dl=c["dl"]) for c in s) for s in per(st["verC"]))
    out["provC"] = per(st["provC"])
    out["pendC"] = per(st["pendC"])
    out["allowed"] = per(st["allowed"])
    out["db"] = tuple(frozenset((e["h"], e["key"]) for e in s) for s in per(st["db"]))
    out["cached"] = per(st["cached"])
    out["askA"] = tuple(tuple(x) for x in per(st["askA"]))
    out["askV"] = tuple(tuple(x) for x in per(st["askV"]))
    out["ver"] = tuple(fd(h=v["h"], relmap=_fun(v["relmap"]), hashed=frozenset(v["hashed"]), chals=tuple(v["chals"]),
                          results=tuple(fd(liar=r["liar"], agg=_fun(r["agg"])) for r in v["results"]))
                       for v in st["ver"])
    return out


def _fun(f):
    """TLC prints a function with domain 0..3 as (0 :> a @@ ...) -> FrozenDict"""
    if isinstance(f, dict):
        return FrozenDict({int(k): v for k, v in f.items()})
    return FrozenDict({i: v for i, v in enumerate(f)})
