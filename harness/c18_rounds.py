"""C18, part "rounds": two real AttestationCommunity nodes (verifier, honest prover) on the step-mode loop and the manual
simulated network, driven one datagram / one cache time-out at a time; every step is logged in the vocabulary of
specs/VerifyRounds.tla (see specs/VerifyRoundsTrace.tla for the events). The real BonehExactAlgorithm with a fresh
key does the cryptography, the real RequestCache (virtual time) does the time-outs. Nothing in /repo is hooked: the
state is read back from public attributes, the request cache's registry and the datagrams on the simulated wire."""
from __future__ import annotations

import random
from hashlib import sha1

from . import vloop
from .simnet import SimNet, attach
from .tlc import MachineryError

NOHC = 3
_LOOP = None


def _shared_loop():
    global _LOOP
    if _LOOP is None:
        _LOOP = vloop.install(vloop.StepLoop(start=1000.0))
    return _LOOP


class _Urandom:
    """community.py's `os` for the verifier's honesty-check lottery: seeded, so that a run is reproducible"""

    def __init__(self, rng, rate):
        self.rng, self.rate = rng, rate

    def urandom(self, n):
        return bytes([0 if self.rng.random() < self.rate else 255]) * n

    def __getattr__(self, name):
        import os
        return getattr(os, name)


class RoundsWorld:
    def __init__(self, rng, fmt, params, value, others, hash_bits, honesty_rate=0.15):
        from ipv8.attestation.wallet import community as cm
        from ipv8.attestation.wallet.caches import HashCache
        from ipv8.attestation.wallet.community import AttestationCommunity
        from ipv8.attestation.wallet.payload import ChallengePayload, ChallengeResponsePayload
        from .nodes import Node
        self.rng = rng
        self.cm, self.HashCache = cm, HashCache
        self.CP, self.RP = ChallengePayload, ChallengeResponsePayload
        self.loop = _shared_loop()
        for h in list(self.loop._scheduled):
            h.cancel()
        self.loop._ready.clear()
        self.net = attach(self.loop, SimNet(self.loop, auto=False))
        self._saved = (cm.os, cm.choice)
        cm.os = _Urandom(rng, honesty_rate)
        cm.choice = lambda seq: seq[rng.randrange(len(seq))]
        self.pn, self.vn = Node(self.net), Node(self.net)
        self.P = self.loop.call(self.pn.add, AttestationCommunity, working_directory=":memory:")
        self.V = self.loop.call(self.vn.add, AttestationCommunity, working_directory=":memory:")
        self.fmt = fmt
        if params is not None:
            for ov in (self.P, self.V):
                ov.schema_manager.register_schema(fmt, "bonehexact", dict(params))
        self.value, self.cand_values = value, [value] + list(others)
        mode = self.V.schema_manager.formats[fmt]["hash"]
        self.bits = hash_bits(mode, value)
        self.cands = [hash_bits(mode, c) for c in self.cand_values]
        alg = self.P.get_id_algorithm(fmt)
        sk = alg.generate_secret_key()
        blob = alg.attest(sk.public_key(), value)
        att = alg.get_attestation_class().unserialize(blob, fmt)
        self.hash = att.get_hash()
        self.P.database.insert_attestation(att, self.hash, sk, fmt)
        self.P.attestation_keys[self.hash] = (sk, fmt)
        self.P.set_verify_request_callback(lambda peer, h: True)
        self.prov_id = HashCache.id_from_hash("proving-attestation", self.hash)
        self.events = []
        self.rounds = []          # ProvingAttestationCache objects, round k = index + 1
        self.gen = []             # generation of the challenges of round k
        self.known_list = []      # id of the `challenges` list object the generation was read from
        self.fin = []             # callback fired
        self.results = []         # k-1 -> scores
        self.chal_of = {}         # sha1(challenge) -> (k, g, i, hc)
        self.num_of = {}          # request cache number of sha1(challenge) -> sha1
        self.nh = 0
        self.flight = []          # [datagram, kind, record] in the order sent
        self.seen = 0             # datagrams of net.wire already classified
        self.calls = 0
        self.loop.drain()

    # ---- reading the real objects back
    def _reg(self):
        c = self.V.request_cache.get(*self.prov_id)
        if c is None:
            return 0
        for k, r in enumerate(self.rounds):
            if r is c:
                return k + 1
        raise MachineryError("a proving cache is registered that no verify call created")

    def _pend(self):
        out = []
        for ident, cache in self.V.request_cache._identifiers.items():
            if cache.prefix != "proving-hash":
                continue
            h = self.num_of.get(cache.number)
            if h is None:
                raise MachineryError("pending challenge cache for an unknown challenge")
            out.append(list(self.chal_of[h]))
        return sorted(out)

    def _obs(self):
        aggs = []
        for r in self.rounds:
            m = r.relativity_map or {}
            aggs.append([int(m.get(x, 0)) for x in range(4)])
        return {"reg": self._reg(), "aggs": aggs, "fin": list(self.fin), "pend": self._pend()}

    def emit(self, op, obs=True, **f):
        ev = {"op": op}
        ev.update(f)
        if obs:
            ev.update(self._obs())
        self.events.append(ev)
        return ev

    def _learn(self, h, rec):
        self.chal_of[h] = rec
        self.num_of[self.HashCache.id_from_hash("proving-hash", h)[1]] = h

    def _classify(self):
        """new datagrams on the wire -> in-flight table; honesty challenges get their serial here"""
        for dg in self.net.wire[self.seen:]:
            mid = dg.data[22]
            rec = None
            if mid == 3:
                _a, _d, pl = self.V._ez_unpack_auth(self.CP, dg.data)
                h = sha1(pl.challenge).digest()
                if h not in self.chal_of:
                    num = self.HashCache.id_from_hash("proving-hash", h)[1]
                    pc = self.V.request_cache.get("proving-hash", num)
                    if pc is None or pc.honesty_check < 0:
                        raise MachineryError("a challenge on the wire that belongs to no round")
                    k = [i for i, r in enumerate(self.rounds) if r is pc.proving_cache][0] + 1
                    self.nh += 1
                    self._learn(h, (k, self.gen[k - 1], self.nh, int(pc.honesty_check)))
                rec = self.chal_of[h]
            elif mid == 4:
                _a, _d, pl = self.P._ez_unpack_auth(self.RP, dg.data)
                rec = self.chal_of[pl.challenge_hash] + (pl.response[0],)
            self.flight.append([dg, mid, rec])
        self.seen = len(self.net.wire)

    def _new_generation(self):
        """on_received_attestation ran: the registered round has a new list of challenges"""
        k = self._reg()
        if k == 0:
            return False
        r = self.rounds[k - 1]
        if not r.challenges or id(r.challenges) == self.known_list[k - 1]:
            return False
        self.known_list[k - 1] = id(r.challenges)
        self.gen[k - 1] += 1
        for i, c in enumerate(r.challenges):
            self._learn(sha1(c).digest(), (k, self.gen[k - 1], i + 1, NOHC))
        self._keep = r.challenges       # the list object stays alive, so its id is not reused
        return True

    # ---- actions
    def verify(self):
        self.calls += 1
        before = self._reg()
        slot = {"k": 0}

        def callback(_h, scores, slot=slot):
            k = slot["k"]
            if k:
                self.fin[k - 1] = True
                self.results[k - 1] = list(scores)
        self.loop.call(self.V.verify_attestation_values, self.pn.address, self.hash, list(self.cand_values), callback,
                       self.fmt)
        self.loop.drain()
        c = self.V.request_cache.get(*self.prov_id)
        if before == 0 and c is not None:
            self.rounds.append(c)
            self.gen.append(0)
            self.known_list.append(None)
            self.fin.append(False)
            self.results.append(None)
            slot["k"] = len(self.rounds)
            self.emit("V")
        else:
            raise MachineryError("verify_attestation_values registered no new proving cache")
        self._classify()

    def inflight(self, mid=None):
        return [f for f in self.flight if mid is None or f[1] == mid]

    def deliver(self, entry):
        self.flight.remove(entry)
        dg, mid, rec = entry
        self.net.inflight.remove(dg)
        keep = any(f[2] == rec and f[1] == mid for f in self.flight) if rec is not None else False
        fired_before = list(self.fin)
        self.loop.call(self.net.deliver, dg)
        self.loop.drain()
        if mid == 2:
            if self._new_generation():
                r = self.rounds[self._reg() - 1]
                self._classify()
                self.emit("M", n=len(r.hashed_challenges))
        elif mid == 3:
            self._classify()
            mine = [f for f in self.flight if f[1] == 4 and f[2][:4] == rec]
            if not mine:
                raise MachineryError("the prover did not answer a challenge")
            self.emit("C", obs=False, k=rec[0], g=rec[1], i=rec[2], hc=rec[3], r=mine[-1][2][4], keep=keep)
        elif mid == 4:
            self._classify()
            self.emit("D", k=rec[0], g=rec[1], i=rec[2], hc=rec[3], r=rec[4], keep=keep)
            for k, (was, now) in enumerate(zip(fired_before, self.fin)):
                if now and not was:
                    for ci, c in enumerate(self.results[k]):
                        self.emit("S", obs=False, k=k + 1, c=ci + 1, pos=bool(c > 0.0), s20=int(round(c * (1 << 20))))
        else:
            self._classify()

    def transfer(self):
        """the verification request and the attestation chunks, in order"""
        while True:
            fs = [f for f in self.flight if f[1] in (1, 2)]
            if not fs:
                return
            self.deliver(fs[0])

    def advance(self, seconds):
        """let virtual time pass; every cache time-out on the way is one event"""
        end = self.loop.time() + seconds
        self.loop.drain()
        while True:
            ts = self.loop.timers()
            if not ts or ts[0]._when > end:
                break
            reg0, pend0 = self._reg(), self._pend()
            self.loop.fire_timer(ts[0])
            self.loop.drain()
            reg1, pend1 = self._reg(), self._pend()
            if reg0 and not reg1:
                self.emit("TP")
            for p in pend0:
                if p not in pend1:
                    self.emit("TC", k=p[0], g=p[1], i=p[2], hc=p[3])
        self.loop._vt = max(self.loop._vt, end)

    def pump(self, order="fifo", limit=5000):
        """deliver challenges and responses until nothing is in flight"""
        n = 0
        while n < limit:
            fs = [f for f in self.flight if f[1] in (3, 4)]
            if not fs:
                return
            self.deliver(fs[0] if order == "fifo" else fs[self.rng.randrange(len(fs))])
            n += 1
        raise MachineryError("the round does not come to an end")

    def alive(self, entry):
        """is the PendingChallengeCache of this datagram's challenge still registered?"""
        return list(entry[2][:4]) in self._pend()

    def trace(self):
        return {"fmt": self.fmt, "bits": self.bits, "cands": self.cands, "events": self.events}

    def close(self):
        self.cm.os, self.cm.choice = self._saved
        for ov in (self.P, self.V):
            try:
                self.loop.call(ov.request_cache.clear)
                ov.database.close()
            except Exception:  # noqa: BLE001
                pass
        for h in list(self.loop._scheduled):
            h.cancel()
        self.loop._ready.clear()


# ---------------------------------------------------------------------------------------------------------
# scenario families (seeded schedules)
# ---------------------------------------------------------------------------------------------------------
def fam_prompt(w):
    """rounds one after the other, datagrams in random order; answers to the honesty checks of a completed round are
    held back and arrive while the next round runs"""
    rng = w.rng
    held = []
    for _ in range(2):
        w.verify()
        w.transfer()
        n = 0
        while w._reg() and n < 3000:
            fs = [f for f in w.inflight() if f[1] in (3, 4) and f not in held]
            if not fs:
                break
            f = fs[rng.randrange(len(fs))]
            if f[1] == 4 and f[2][3] != NOHC and len(held) < 3 and f[2][0] == w._reg() and rng.random() < 0.7:
                held.append(f)              # a slow honesty answer
                continue
            w.deliver(f)
            n += 1
        w.advance(rng.uniform(0.5, 4.0))
    for f in held:
        if f in w.flight:
            w.deliver(f)
    w.pump("random")


def fam_trickle(w):
    """a slow prover: one answer every 7-9.5 s, the round is abandoned by the 120 s time-out of its proving cache while
    its youngest pending challenge is still alive; the application retries at once, the late answers of the abandoned
    round arrive while the new round runs"""
    rng = w.rng
    w.verify()
    w.transfer()
    for f in w.inflight(3):
        w.deliver(f)                        # the first window reaches the prover; its answers are slow
    burst = rng.randrange(1, 4)
    guard = 0
    while w._reg() == 1 and guard < 40:
        guard += 1
        w.advance(rng.uniform(7.0, 9.5))
        if w._reg() != 1:
            break
        live = [f for f in w.inflight(4) if w.alive(f)]
        for f in live[:burst if w.loop.time() > 1000.0 + 100 else 1]:
            if w._reg() == 1:
                w.deliver(f)
        for f in w.inflight(3):
            w.deliver(f)
    w.verify()                              # at once: the youngest pending challenges of round one are still alive
    w.transfer()
    late = [f for f in w.inflight(4) if f[2][0] == 1]
    rng.shuffle(late)
    for f in late:
        w.deliver(f)
    w.pump("fifo" if rng.random() < 0.5 else "random")


def fam_lossy(w):
    """answers get lost, pending challenges time out and are sent again; a duplicate of an old answer arrives late"""
    rng = w.rng
    w.verify()
    w.transfer()
    n = 0
    while w._reg() and n < 400:
        n += 1
        fs = [f for f in w.inflight() if f[1] in (3, 4)]
        if not fs:
            w.advance(10.5)
            if not [f for f in w.inflight() if f[1] in (3, 4)]:
                break
            continue
        f = fs[rng.randrange(len(fs))]
        if f[1] == 4 and rng.random() < 0.25:
            w.flight.remove(f)              # lost
            w.net.inflight.remove(f[0])
            continue
        w.deliver(f)
        if rng.random() < 0.1:
            w.advance(rng.uniform(1.0, 11.0))
    w.pump("random")


# (a second verify_attestation_values while a round is registered is refused by the cache constructor - RuntimeError
# "number already in use" - so there is no family for it)
FAMILIES = {"prompt": fam_prompt, "trickle": fam_trickle, "lossy": fam_lossy}


def record(seed, family, fmt, params, value, others, hash_bits):
    rng = random.Random(seed)
    w = RoundsWorld(rng, fmt, params, value, others, hash_bits)
    try:
        try:
            FAMILIES[family](w)
        except MachineryError:
            raise
        except Exception as e:  # noqa: BLE001   an honest run that raises is no behaviour of the specification
            w.events.append({"op": "X", "error": "%s: %s" % (type(e).__name__, e)})
        t = w.trace()
        t["family"] = family
        t["rounds"] = len(w.rounds)
        t["completed"] = sum(1 for f in w.fin if f)
        return t
    finally:
        w.close()
