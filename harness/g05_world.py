"""G05 - real objects behind specs/Pex.tla.

SwarmWorld : a real HiddenTunnelCommunity (default settings, simulated endpoint, step-mode virtual clock) that joined one
             hidden swarm; the real do_peer_discovery / Swarm.lookup / remove_circuit / PeersRequestCache.on_timeout run,
             only the network side (Swarm.lookup_func = send_peers_request) and create_e2e are observed stand-ins.
PexWorld   : real PexCommunity overlays on the manual simulated network (walk_to -> introduction request with the
             piggybacked seeder keys -> response), virtual clock.
Both expose project() -> the variables of the matching part of Pex.tla as plain Python values (spec_state() brings a
TLC state into the same shape)."""
from __future__ import annotations

import asyncio
from collections import deque

from . import vloop
from .tlc import MachineryError

BYTE_UNIT = 1000      # one spec byte unit on a circuit counter
IH_A = bytes(range(1, 21))
IH_B = bytes(range(101, 121))


class Mismatch(Exception):
    """The real objects left the state space of the specification in a way that cannot even be projected."""


def _ticks(x, unit, what):
    if x == 0:
        return 0
    q, r = divmod(x, unit)
    if r:
        raise Mismatch("%s = %r is not a whole number of ticks (%s s)" % (what, x, unit))
    return int(q)


# ======================================================================================================
# part S
# ======================================================================================================
class SwarmWorld:
    def __init__(self, consts, unit):
        """consts: dict with T0, Peers, Seeders, Circuits, MaxIpAge, MinDht, MaxDht, Interval, ConnLimit (ticks)."""
        from ipv8.keyvault.crypto import default_eccrypto
        from ipv8.messaging.anonymization.hidden_services import HiddenTunnelCommunity
        from ipv8.peer import Peer

        from . import simnet
        from .nodes import Node
        self.c = consts
        self.unit = unit
        self.loop = vloop.install(vloop.StepLoop(start=float(consts["T0"] * unit)))
        self.net = simnet.attach(self.loop, simnet.SimNet(self.loop, auto=False))
        self.node = Node(self.net)
        self.ov = self.loop.call(self.node.add, HiddenTunnelCommunity)
        self.ov.settings.swarm_lookup_interval = consts["Interval"] * unit
        self.ov.settings.swarm_connection_limit = consts["ConnLimit"]
        # the periodic tasks of the overlay are not part of this model: the driver calls do_peer_discovery itself
        self.loop.call(self.ov.cancel_all_pending_tasks)
        self.loop.drain()
        self.peers = {p: Peer(default_eccrypto.generate_key("curve25519").pub(), ("10.0.%d.1" % p, 7000 + p))
                      for p in consts["Peers"]}
        self.peer_of = {pe.public_key.key_to_bin(): p for p, pe in self.peers.items()}
        self.seeders = {s: (b"seeder-key-%03d" % s).ljust(32, b".") for s in consts["Seeders"]}
        self.seeder_of = {v: k for k, v in self.seeders.items()}
        self.e2e_calls = []
        self.ov.create_e2e = self._create_e2e         # instance attribute: observed instead of sent into the network
        self.sw = None
        self.nreset = 0

    # ---- a fresh swarm (one TLC initial state)
    def reset(self, seeding):
        from ipv8.messaging.anonymization.tunnel import CIRCUIT_TYPE_RP_DOWNLOADER, Circuit
        c, u = self.c, self.unit
        self.nreset += 1
        self.ih = IH_A
        # forget whatever an earlier walk left behind (sleeping removal tasks, circuits)
        self.loop.call(self.ov.cancel_all_pending_tasks)
        self.loop.drain()
        self.loop._scheduled.clear()
        self.loop._vt = float(c["T0"] * u)
        self.ov.circuits.clear()
        self.ov.swarms.clear()
        self.loop.call(self.ov.join_swarm, self.ih, 1, None, seeding)
        self.sw = sw = self.ov.swarms[self.ih]
        sw.max_ip_age = c["MaxIpAge"] * u
        sw.min_dht_lookup_interval = c["MinDht"] * u
        sw.max_dht_lookup_interval = c["MaxDht"] * u
        sw.lookup_func = self._lookup_func
        self.did = ""
        orig_lookup, orig_clean = sw.lookup, sw.remove_old_intro_points

        def lookup(target=None):
            if target is None:
                self.did = "lookup"
            return orig_lookup(target)

        def clean():
            if self.did == "":
                self.did = "clean"
            return orig_clean()
        sw.lookup, sw.remove_old_intro_points = lookup, clean
        self.circ = {}
        for cid in c["Circuits"]:
            self.circ[cid] = Circuit(1000 + cid, 1, CIRCUIT_TYPE_RP_DOWNLOADER, info_hash=self.ih)
            self.ov.circuits[1000 + cid] = self.circ[cid]
        self.calls = []          # outstanding lookup_func calls of the scheduled lookup: (target key | None, future)
        self.task = None
        self.e2e_calls = []
        self.manual = None

    def _create_e2e(self, info_hash, ip):
        self.e2e_calls.append((info_hash, ip))

    def _lookup_func(self, info_hash, target, hops):
        if info_hash != self.ih or hops != 1:
            raise Mismatch("lookup_func called with a foreign info hash / hop count")
        f = self.loop.create_future()
        if self.manual is not None:
            self.manual.append((target, f))
        else:
            self.calls.append((None if target is None else self.key_of(target), f))
        return f

    def key_of(self, ip):
        return (self.peer_of[ip.peer.public_key.key_to_bin()], self.seeder_of[ip.seeder_pk])

    def make_ip(self, p, s, source):
        from ipv8.messaging.anonymization.tunnel import IntroductionPoint
        from ipv8.peer import Peer
        # a fresh object per sighting, as on_peers_response builds it from the wire
        return IntroductionPoint(Peer(self.peers[p].public_key, self.peers[p].address), self.seeders[s], source)

    def listed(self, p, s):
        for ip in self.sw.intro_points:
            if self.key_of(ip) == (p, s):
                return ip
        return None

    # ---- actions
    def step(self, name, args, variant=0):
        from ipv8.messaging.anonymization.caches import PeersRequestCache
        from ipv8.messaging.anonymization.tunnel import PEER_SOURCE_DHT, PEER_SOURCE_PEX, Hop
        sw, loop = self.sw, self.loop
        self.did = ""
        self.e2e_calls = []
        extra = {}
        if name == "AddIntroPoint":
            ip = self.make_ip(args[0], args[1], PEER_SOURCE_PEX if variant % 2 else PEER_SOURCE_DHT)
            was = self.listed(*args)
            got = sw.add_intro_point(ip)
            extra["returned_listed"] = got is (was or ip) and any(got is x for x in sw.intro_points)
        elif name == "RemoveIntroPoint":
            ip = self.make_ip(args[0], args[1], PEER_SOURCE_PEX)
            if variant % 2:
                sw.remove_intro_point(ip)
            else:   # the way the code gets there: a peers-request to this point timed out
                cache = loop.call(PeersRequestCache, self.ov, self.circ[min(self.circ)], self.ih, ip)
                cache.on_timeout()
                cache.future.cancel()
        elif name == "CleanUp":
            sw.remove_old_intro_points()
        elif name == "AddConnection":
            c, p, s = args
            ip = self.listed(p, s) or self.make_ip(p, s, PEER_SOURCE_PEX)
            sw.add_connection(self.circ[c], ip)
        elif name == "Linked":
            ci = self.circ[args[0]]
            ci.add_hop(Hop(self.peers[min(self.peers)]))
            ci.e2e = True
        elif name == "Transfer":
            ci = self.circ[args[0]]
            if args[1] == 1:
                ci.bytes_up += BYTE_UNIT
            else:
                ci.bytes_down += BYTE_UNIT
        elif name == "RemoveCircuit":
            loop.call(self.ov.remove_circuit, 1000 + args[0], "replay")
            loop.drain()
        elif name == "Discover":
            if self.task is not None and not self.task.done():
                raise MachineryError("Discover while the discovery task is still running")
            self.calls = []
            self.task = loop.call(asyncio.ensure_future, self.ov.do_peer_discovery())
            loop.drain()
        elif name == "LookupDone":
            keys, dht = sorted(args[0]), args[1]
            ips = [self.make_ip(p, s, PEER_SOURCE_DHT if (dht and i == 0) else PEER_SOURCE_PEX)
                   for i, (p, s) in enumerate(keys)]
            if not self.calls:
                raise MachineryError("LookupDone without an outstanding request")
            for i, (_tg, f) in enumerate(self.calls):
                if i == (variant % len(self.calls)):
                    f.set_result(ips + ips[:1] if variant % 3 == 0 else ips)   # answers may repeat an entry
                elif (variant + i) % 2:
                    f.set_result([])
                else:
                    f.set_exception(RuntimeError("Peers request timeout"))
            self.calls = []
            loop.drain()
            if not self.task.done():
                raise Mismatch("do_peer_discovery did not finish after the lookup returned")
            self._task_result()
        elif name == "LookupFail":
            (_tg, f), = self.calls
            f.set_exception(RuntimeError("Peers request timeout") if variant % 2 else RuntimeError("No circuit"))
            self.calls = []
            loop.drain()
            if not self.task.done():
                raise Mismatch("do_peer_discovery did not finish after the lookup failed")
            self._task_result()
        elif name == "ManualLookup":
            dht = args[0]
            p, s = min(self.peers), min(self.seeders)
            target = self.listed(p, s) or self.make_ip(p, s, PEER_SOURCE_PEX)
            self.manual = []
            t = loop.call(asyncio.ensure_future, sw.lookup(target))
            loop.drain()
            (tg, f), = self.manual
            self.manual = None
            answer = [self.make_ip(p, s, PEER_SOURCE_DHT if dht else PEER_SOURCE_PEX)]
            f.set_result(answer)
            loop.drain()
            extra["manual_ok"] = t.done() and t.result() is answer and tg is target
        elif name == "Tick":
            loop._vt += self.unit
        else:
            raise MachineryError("unknown action of part S: %s" % name)
        if name == "Discover" and self.task.done():
            self._task_result()
        return extra

    def _task_result(self):
        exc = self.task.exception()
        if exc is not None:
            raise Mismatch("do_peer_discovery raised %r" % (exc,))

    # ---- projection
    def project(self):
        from ipv8.messaging.anonymization.tunnel import CIRCUIT_STATE_CLOSING, CIRCUIT_STATE_READY
        sw, u = self.sw, self.unit
        ips = [(self.key_of(i) + (_ticks(i.last_seen, u, "last_seen"),)) for i in sw.intro_points]
        conn, circ, up, down = {}, {}, {}, {}
        by_id = {ci.circuit_id: c for c, ci in self.circ.items()}
        for cid, (ci, ip) in sw.connections.items():
            if cid not in by_id or self.circ[by_id[cid]] is not ci:
                raise Mismatch("connections holds a foreign circuit %r" % cid)
        for c, ci in self.circ.items():
            ent = sw.connections.get(ci.circuit_id)
            conn[c] = self.key_of(ent[1]) if ent else ()
            circ[c] = ("closing" if ci.state == CIRCUIT_STATE_CLOSING else
                       "ready" if (ci.state == CIRCUIT_STATE_READY and ci.e2e) else "ext")
            up[c] = _ticks(ci.bytes_up, BYTE_UNIT, "bytes_up")
            down[c] = _ticks(ci.bytes_down, BYTE_UNIT, "bytes_down")
        if self.calls and any(t is None for t, _ in self.calls):
            if len(self.calls) != 1:
                raise Mismatch("a DHT lookup together with other requests")
            pend = ("dht", frozenset())
        elif self.calls:
            tg = [t for t, _ in self.calls]
            if len(set(tg)) != len(tg):
                raise Mismatch("an introduction point was asked twice in one PEX lookup: %r" % (tg,))
            pend = ("pex", frozenset(tg))
        else:
            pend = ("none", frozenset())
        running = self.task is not None and not self.task.done()
        if running != bool(self.calls):
            raise Mismatch("discovery task running=%s with %d outstanding requests" % (running, len(self.calls)))
        for ih, _ip in self.e2e_calls:
            if ih != self.ih:
                raise Mismatch("create_e2e for another info hash")
        e2e = [self.key_of(ip) for _ih, ip in self.e2e_calls]
        return {
            "now": _ticks(self.loop.time(), u, "clock"),
            "seeding": bool(sw.seeding),
            "ips": frozenset(ips), "nips": len(sw.intro_points),
            "conn": conn, "circ": circ, "up": up, "down": down,
            "hist": (_ticks(sw.transfer_history[0], BYTE_UNIT, "history"),
                     _ticks(sw.transfer_history[1], BYTE_UNIT, "history")),
            "lastLookup": _ticks(sw.last_lookup, u, "last_lookup"),
            "lastDht": _ticks(sw.last_dht_response, u, "last_dht_response"),
            "pend": pend,
            "e2e": frozenset(e2e), "ne2e": len(e2e),
            "did": self.did,
        }

    def queries(self, st):
        """Read-only API of Swarm against what the specification's state implies (operators of Pex.tla part S)."""
        sw = self.sw
        problems = []
        conns = {c: k for c, k in st["conn"].items() if k != ()}
        active = [c for c in conns if st["circ"][c] == "ready"]
        exp = {
            "get_num_connections": len(active),
            "get_num_connections_incomplete": len(conns) - len(active),
            "get_num_seeders": len({k[1] for k in conns.values()} | {i[1] for i in st["ips"]}),
            "get_total_up": (st["hist"][0] + sum(st["up"][c] for c in active)) * BYTE_UNIT,
            "get_total_down": (st["hist"][1] + sum(st["down"][c] for c in active)) * BYTE_UNIT,
        }
        for k, v in exp.items():
            got = getattr(sw, k)()
            if got != v:
                problems.append("%s() = %r, specification %r" % (k, got, v))
        for s, pk in self.seeders.items():
            want = any(k[1] == s for k in conns.values())
            if sw.has_connection(pk) != want:
                problems.append("has_connection(seeder %d) = %r, specification %r" % (s, not want, want))
        return problems


def spec_state_s(st, circuits):
    """TLC state (part S variables) -> the shape of SwarmWorld.project()."""
    def fn(v):
        if isinstance(v, dict):
            return {int(k): x for k, x in v.items()}
        return {i + 1: x for i, x in enumerate(v)}
    conn = {c: tuple(x) for c, x in fn(st["conn"]).items()}
    return {
        "now": st["now"], "seeding": st["seeding"],
        "ips": frozenset((i["p"], i["s"], i["seen"]) for i in st["ips"]), "nips": st["nips"],
        "conn": conn, "circ": fn(st["circ"]), "up": fn(st["up"]), "down": fn(st["down"]),
        "hist": tuple(st["hist"]), "lastLookup": st["lastLookup"], "lastDht": st["lastDht"],
        "pend": (st["pend"]["m"], frozenset(tuple(k) for k in st["pend"]["tg"])),
        "e2e": frozenset(tuple(k) for k in st["e2e"]), "ne2e": len(st["e2e"]),
        "did": st["did"],
    }


def diff(spec, impl):
    return {k: {"spec": spec[k], "impl": impl[k]} for k in impl if k in spec and spec[k] != impl[k]}


# ======================================================================================================
# part P
# ======================================================================================================
class _Sampler:
    """Stands in for the `random` module inside ipv8.messaging.anonymization.pex: the behaviour being replayed says
    which sample random.sample() draws (the specification allows every injective sequence of the right length)."""

    def __init__(self):
        self.next = None
        self.used = 0

    def sample(self, population, k):
        self.used += 1
        if self.next is None:
            raise Mismatch("random.sample called outside a step that sends a message")
        out = list(self.next)
        if len(out) != k or len(set(out)) != len(out) or not set(out) <= set(population):
            raise Mismatch("sample of %d out of %d keys requested, the specification's step sends %d"
                           % (k, len(population), len(out)))
        return out


class PexWorld:
    MSG_REQ, MSG_RESP = (246, 234), (245, 233)      # old / new style introduction request, response

    def __init__(self, consts, unit, sampler=True):
        """consts: T0, Nodes, NSwarmA, PSeeders, PexCap."""
        import ipv8.messaging.anonymization.pex as pexmod
        from ipv8.messaging.anonymization.pex import PexCommunity

        from . import simnet
        from .nodes import Node
        self.c, self.unit = consts, unit
        self.loop = vloop.install(vloop.StepLoop(start=float(consts["T0"] * unit)))
        self.net = simnet.attach(self.loop, simnet.SimNet(self.loop, auto=False))
        self.pexmod = pexmod
        self.sampler = _Sampler() if sampler else None
        self.nodes, self.ov = {}, {}
        for n in sorted(consts["Nodes"]):
            node = Node(self.net)
            self.nodes[n] = node
            self.ov[n] = self.loop.call(node.add, PexCommunity, info_hash=IH_A if n <= consts["NSwarmA"] else IH_B)
            self.loop.call(self.ov[n].cancel_all_pending_tasks)
        self.loop.drain()
        self.node_of_key = {nd.my_peer.public_key.key_to_bin(): n for n, nd in self.nodes.items()}
        self.node_of_addr = {tuple(nd.address): n for n, nd in self.nodes.items()}
        self.seeders = {s: (b"seeder-key-%03d" % s).ljust(32, b".") for s in consts["PSeeders"]}
        self.seeder_of = {v: k for k, v in self.seeders.items()}
        self.observed = []       # (node, decoded keys) of every get_seeder_pks() call
        for n, ov in self.ov.items():
            self._spy(n, ov)
        self.reset()

    def _spy(self, n, ov):
        orig = ov.get_seeder_pks

        def get_seeder_pks():
            blob = orig()
            keys, _ = ov.serializer.unpack("varlenH-list", blob)
            self.observed.append((n, tuple(self.seeder_of[k] for k in keys)))
            return blob
        ov.get_seeder_pks = get_seeder_pks

    def reset(self):
        c = self.c
        self.loop._scheduled.clear()
        self.loop._ready.clear()
        self.loop._vt = float(c["T0"] * self.unit)
        self.net.inflight.clear()
        for ov in self.ov.values():
            ov.intro_points = deque(maxlen=c["PexCap"])    # the code's own deque, re-sized when the model's is smaller
            ov.intro_points_for = []
            ov.network.clear() if hasattr(ov.network, "clear") else None
        self.tags = {}           # datagram seq -> (src, dst, kind, pks)
        self.ret = (0, 0, ())
        self.observed = []

    # ---- helpers
    def _use(self, pks):
        if self.sampler is not None:
            self.pexmod.random = self.sampler
            self.sampler.next = None if pks is None else [self.seeders[s] for s in pks]

    def _done(self):
        if self.sampler is not None:
            import random as real_random
            self.pexmod.random = real_random
            self.sampler.next = None

    def _classify(self):
        """Tag new introduction requests/responses; everything else (puncture requests, punctures) is delivered at once."""
        progress = True
        while progress:
            progress = False
            for dg in list(self.net.inflight):
                if dg.seq in self.tags:
                    continue
                mid = dg.data[22] if len(dg.data) > 22 else -1
                src = self.node_of_addr.get(tuple(dg.src))
                dst = self.node_of_addr.get(tuple(dg.dst))
                if mid in self.MSG_REQ + self.MSG_RESP and src is not None and dst is not None:
                    if not self.observed:
                        raise Mismatch("an introduction message was sent without get_seeder_pks()")
                    n, pks = self.observed.pop(0)
                    if n != src:
                        raise Mismatch("get_seeder_pks of node %s but datagram from node %s" % (n, src))
                    self.tags[dg.seq] = (src, dst, "req" if mid in self.MSG_REQ else "resp", pks)
                else:
                    self.net.inflight.remove(dg)
                    self.net.deliver(dg)
                    self.loop.drain()
                    progress = True

    def _find(self, tag):
        for dg in self.net.inflight:
            if self.tags.get(dg.seq) == tag:
                return dg
        raise MachineryError("no datagram in flight for %r" % (tag,))

    # ---- actions
    def step(self, name, args):
        loop = self.loop
        self.ret = (0, 0, ())
        if name == "StartAnnounce":
            self.ov[args[0]].start_announce(self.seeders[args[1]])
        elif name == "StopAnnounce":
            self.ov[args[0]].stop_announce(self.seeders[args[1]])
        elif name == "Walk":
            n, m, pks = args
            self._use(pks)
            try:
                loop.call(self.ov[n].walk_to, self.nodes[m].address)
                loop.drain()
            finally:
                self._done()
            self._classify()
        elif name == "Deliver":
            msg, pks = args
            tag = (msg["src"], msg["dst"], msg["k"], tuple(msg["pks"]))
            dg = self._find(tag)
            self.net.inflight.remove(dg)
            # identical datagrams are one element of the specification's message set
            for other in [d for d in self.net.inflight if self.tags.get(d.seq) == tag]:
                self.net.inflight.remove(other)
            self._use(pks)
            try:
                loop.call(self.net.deliver, dg)
                loop.drain()
            finally:
                self._done()
            self._classify()
        elif name == "Lose":
            msg = args[0]
            tag = (msg["src"], msg["dst"], msg["k"], tuple(msg["pks"]))
            for other in [d for d in self.net.inflight if self.tags.get(d.seq) == tag]:
                self.net.inflight.remove(other)
        elif name == "GetIntroPoints":
            n = args[0]
            lst = self.ov[n].get_intro_points()
            self.ret = (n, _ticks(loop.time(), self.unit, "clock"), tuple(self._ip(i) for i in lst))
        elif name == "PTick":
            loop._vt += self.unit
        else:
            raise MachineryError("unknown action of part P: %s" % name)

    def _ip(self, ip):
        key = ip.peer.public_key.key_to_bin()
        if key not in self.node_of_key:
            raise Mismatch("introduction point of an unknown peer")
        if ip.seeder_pk not in self.seeder_of:
            raise Mismatch("introduction point for an unknown seeder key %r" % (ip.seeder_pk,))
        return (self.node_of_key[key], self.seeder_of[ip.seeder_pk], _ticks(ip.last_seen, self.unit, "last_seen"))

    def project(self):
        return {
            "now": _ticks(self.loop.time(), self.unit, "clock"),
            "pfor": {n: tuple(self.seeder_of[k] for k in ov.intro_points_for) for n, ov in self.ov.items()},
            "pips": {n: tuple(self._ip(i) for i in ov.intro_points) for n, ov in self.ov.items()},
            "msgs": frozenset(self.tags[d.seq] for d in self.net.inflight),
            "ret": self.ret,
        }


def spec_state_p(st):
    def fn(v):
        if isinstance(v, dict):
            return {int(k): x for k, x in v.items()}
        return {i + 1: x for i, x in enumerate(v)}
    return {
        "now": st["now"],
        "pfor": {n: tuple(q) for n, q in fn(st["pfor"]).items()},
        "pips": {n: tuple((i["p"], i["s"], i["seen"]) for i in q) for n, q in fn(st["pips"]).items()},
        "msgs": frozenset((m["src"], m["dst"], m["k"], tuple(m["pks"])) for m in st["msgs"]),
        "ret": (st["ret"]["n"], st["ret"]["t"], tuple((i["p"], i["s"], i["seen"]) for i in st["ret"]["lst"])),
    }


# ======================================================================================================
# hidden-services glue: PexCommunity overlays created / dropped by real HiddenTunnelCommunity nodes
# ======================================================================================================
class _FakeIPv8:
    """What HiddenTunnelCommunity needs from the IPv8 service object (as ipv8.test.mocking.ipv8.MockIPv8 offers):
    overlays, strategies, add_strategy. Strategies are not stepped: the driver does the walks of the PEX overlays."""

    def __init__(self, world, host):
        self.world, self.host = world, host
        self.overlays = []
        self.strategies = []

    def add_strategy(self, overlay, strategy, target_peers):
        if overlay not in self.overlays:
            self.overlays.append(overlay)
            self.world.new_pex(self.host, overlay)
        self.strategies.append((strategy, target_peers))


class GlueWorld:
    """Seeders S1,S2 - relays R1,R2 - introduction hosts E1..E3 - askers D1..D3 (one 1-hop circuit to the E of the same
    number), all real HiddenTunnelCommunity overlays with default settings on the simulated network (virtual clock).
    Specification node j + 3*(k-1) = the PEX overlay of host Ej for info hash k (1 = IH_A, 2 = IH_B)."""
    UNIT = 100
    NE = 3

    def __init__(self, t0=10):
        from ipv8.messaging.anonymization.hidden_services import HiddenTunnelCommunity
        from ipv8.messaging.anonymization.tunnel import (PEER_FLAG_EXIT_BT, PEER_FLAG_EXIT_IPV8, PEER_FLAG_RELAY,
                                                         PEER_FLAG_SPEED_TEST)

        from . import simnet
        from .nodes import Node, introduce_all
        self.t0 = t0
        self.loop = vloop.install(vloop.VLoop(start=float(t0 * self.UNIT)))
        self.net = simnet.attach(self.loop, simnet.SimNet(self.loop, auto=True))
        self.net.policy = self._policy
        self.held = []                   # PEX introduction requests / responses waiting for the driver
        self.tags = {}
        self.observed = []
        self.events = []
        self.ih = {1: IH_A, 2: IH_B}
        self.prefix_k = {}
        self.hosts = {}
        self.last_tick = t0

        def mk(name, flags, **kw):
            node = Node(self.net)
            ov = node.add(HiddenTunnelCommunity, peer_flags=flags, **kw)
            self.hosts[name] = ov
            return node
        relay = {PEER_FLAG_RELAY, PEER_FLAG_SPEED_TEST}
        exitf = {PEER_FLAG_RELAY, PEER_FLAG_EXIT_BT, PEER_FLAG_EXIT_IPV8, PEER_FLAG_SPEED_TEST}
        nodes = [mk("S1", relay), mk("S2", relay), mk("R1", relay), mk("R2", relay)]
        for j in range(1, self.NE + 1):
            nodes.append(mk("E%d" % j, exitf))
            self.hosts["E%d" % j].ipv8 = _FakeIPv8(self, j)
            self._spy_dht(self.hosts["E%d" % j])
        for j in range(1, self.NE + 1):
            nodes.append(mk("D%d" % j, relay, min_circuits=0, max_circuits=0))
        self.e_of_key = {self.hosts["E%d" % j].my_peer.public_key.key_to_bin(): j for j in range(1, self.NE + 1)}
        self.e_of_addr = {tuple(self.hosts["E%d" % j].my_peer.address): j for j in range(1, self.NE + 1)}
        self.seeder_idx = {}             # seeder public key -> index (order of first appearance)
        self.ip_circuit = {}             # (seeder host, E, k) -> circuit id at the seeder
        self.ask_circuit = {}
        introduce_all(nodes)
        self.loop.settle()
        introduce_all(nodes)
        self.loop.settle()
        for s in ("S1", "S2"):
            for k in (1, 2):
                self.hosts[s].join_swarm(self.ih[k], 1, None, True)
        self.saw_dht = False
        self.unreachable = 0
        for j in range(1, self.NE + 1):
            self._ask_circuit(j)

    # ---- plumbing
    def _spy_dht(self, eov):
        orig = eov.dht_lookup

        async def dht_lookup(info_hash):       # on_peers_request falls back to the DHT when it has no PEX overlay
            self.saw_dht = True
            return await orig(info_hash)
        eov.dht_lookup = dht_lookup

    def _ask_circuit(self, j):
        """Dj's 1-hop circuit to Ej (data circuits live for settings.max_time = 1 h: rebuilt when it is gone)."""
        d, e = self.hosts["D%d" % j], self.hosts["E%d" % j]
        c = self.ask_circuit.get(j)
        if c is None or d.circuits.get(c.circuit_id) is not c or c.state != "READY":
            c = d.create_circuit(1, required_exit=self._cand(d, e))
            self.loop.run_until_complete(c.ready)
            self.loop.settle()
            self._check_clock()
            self.ask_circuit[j] = c
            self.rebuilt = getattr(self, "rebuilt", 0) + 1
        return c

    def _cand(self, ov, other):
        key = other.my_peer.public_key.key_to_bin()
        for p in ov.candidates:
            if p.public_key.key_to_bin() == key:
                return p
        raise MachineryError("host does not know the candidate it needs")

    def _check_clock(self):
        if self.loop.time() % self.UNIT:
            raise MachineryError("the virtual clock left the tick grid: %r" % self.loop.time())

    def _policy(self, dg):
        if len(dg.data) > 22 and dg.data[:22] in self.prefix_k and dg.data[22] in (246, 234, 245, 233):
            self.held.append(dg)
            return []
        return None

    def node_id(self, j, k):
        return j + self.NE * (k - 1)

    def pex_of(self, n):
        j, k = (n - 1) % self.NE + 1, (n - 1) // self.NE + 1
        com = self.hosts["E%d" % j].pex.get(self.ih[k])
        if com is not None and com.done:
            return None          # announces nothing any more: remove_exit_socket is dropping it in this very call
        return com

    def sidx(self, pk):
        if pk not in self.seeder_idx:
            self.seeder_idx[pk] = len(self.seeder_idx) + 1
        return self.seeder_idx[pk]

    def seeder_index(self, s, k):
        return self.sidx(self.hosts[s].swarms[self.ih[k]].seeder_sk.pub().key_to_bin())

    def new_pex(self, j, com):
        k = 1 if com.community_id == (int.from_bytes(IH_A, "big") + 1).to_bytes(20, "big") else 2
        n = self.node_id(j, k)
        self.prefix_k[bytes(com.get_prefix())] = k
        start, stop, get, pks = com.start_announce, com.stop_announce, com.get_intro_points, com.get_seeder_pks

        def start_announce(pk):
            start(pk)
            self._event("StartAnnounce", n=n, s=self.sidx(pk))

        def stop_announce(pk):
            had = pk in com.intro_points_for
            stop(pk)
            if had:
                self._event("StopAnnounce", n=n, s=self.sidx(pk))

        def get_intro_points():
            lst = get()
            self.last_answer = [self._ip(i, k) for i in lst]
            self._event("GetIntroPoints", n=n, lst=[list(x) for x in self.last_answer])
            return lst

        def get_seeder_pks():
            blob = pks()
            keys, _ = com.serializer.unpack("varlenH-list", blob)
            self.observed.append((n, tuple(self.sidx(x) for x in keys)))
            return blob
        com.start_announce, com.stop_announce = start_announce, stop_announce
        com.get_intro_points, com.get_seeder_pks = get_intro_points, get_seeder_pks

    def _ip(self, ip, k):
        key = ip.peer.public_key.key_to_bin()
        if key not in self.e_of_key:
            raise Mismatch("introduction point of a peer that is no introduction host")
        return (self.node_id(self.e_of_key[key], k), self.sidx(ip.seeder_pk), _ticks(ip.last_seen, self.UNIT, "last_seen"))

    def _now(self):
        return int(self.loop.time() // self.UNIT)

    def project(self):
        pfor, pips = [], []
        for n in range(1, 2 * self.NE + 1):
            com = self.pex_of(n)
            k = (n - 1) // self.NE + 1
            pfor.append([self.sidx(x) for x in com.intro_points_for] if com else [])
            pips.append([list(self._ip(i, k)) for i in com.intro_points] if com else [])
        return pfor, pips

    def _flush_ticks(self):
        while self.last_tick < self._now():
            self.last_tick += 1
            pfor, pips = self.project()
            self.events.append({"a": "PTick", "now": self.last_tick, "sent": [], "pfor": pfor, "pips": pips})

    def _event(self, a, sent=(), **kw):
        self._flush_ticks()
        pfor, pips = self.project()
        ev = {"a": a, "now": self._now(), "sent": [[t[0], t[1], t[2], list(t[3])] for t in sent], "pfor": pfor,
              "pips": pips}
        ev.update(kw)
        self.events.append(ev)

    def _tag_new(self):
        new = []
        for dg in self.held:
            if dg.seq in self.tags:
                continue
            k = self.prefix_k[dg.data[:22]]
            src, dst = self.e_of_addr.get(tuple(dg.src)), self.e_of_addr.get(tuple(dg.dst))
            if src is None or dst is None or not self.observed:
                raise Mismatch("unexpected PEX datagram %r" % (dg,))
            n, pks = self.observed.pop(0)
            if n != self.node_id(src, k):
                raise Mismatch("get_seeder_pks of node %s, datagram of node %s" % (n, self.node_id(src, k)))
            self.tags[dg.seq] = (n, self.node_id(dst, k), "req" if dg.data[22] in (246, 234) else "resp", pks)
            new.append(self.tags[dg.seq])
        return new

    def inflight(self):
        return sorted({self.tags[d.seq] for d in self.held})

    # ---- driver operations
    def establish(self, s, j, k):
        """Seeder host s makes Ej an introduction point for its key in swarm k."""
        sov, eov = self.hosts[s], self.hosts["E%d" % j]
        if (s, j, k) in self.ip_circuit:
            return False
        before = set(sov.circuits)
        self.loop.run_until_complete(sov.create_introduction_point(self.ih[k], required_ip=self._cand(sov, eov)))
        self.loop.settle()
        new = [c for c in set(sov.circuits) - before if sov.circuits[c].ctype == "IP_SEEDER"]
        if len(new) != 1:
            raise MachineryError("introduction circuit was not created")
        self.ip_circuit[(s, j, k)] = new[0]
        self._check_clock()
        return True

    def teardown(self, s, j, k):
        sov = self.hosts[s]
        cid = self.ip_circuit.pop((s, j, k))
        sov.remove_circuit(cid, "driver", destroy=2)
        self.loop.settle()
        self._check_clock()

    def walk(self, n, m):
        com = self.pex_of(n)
        if com is None:
            return False
        j = (m - 1) % self.NE + 1
        com.walk_to(self.hosts["E%d" % j].my_peer.address)
        self.loop.settle()
        sent = self._tag_new()
        self._event("Walk", sent=sent, n=n, m=m)
        return True

    def deliver(self, tag, lose=False):
        dgs = [d for d in self.held if self.tags[d.seq] == tag]
        for d in dgs:
            self.held.remove(d)
        msg = [tag[0], tag[1], tag[2], list(tag[3])]
        if lose:
            self._event("Lose", msg=msg)
            return
        self.net.deliver(dgs[0])
        self.loop.settle()
        sent = self._tag_new()
        self._event("Deliver", sent=sent, msg=msg)

    def ask(self, j, k):
        """Dj sends a peers-request for swarm k over its circuit; Ej answers from its PEX overlay (if it has one)."""
        d = self.hosts["D%d" % j]
        self._ask_circuit(j)
        self.last_answer = None
        self.saw_dht = False
        nev = len(self.events)
        fut = d.send_peers_request(self.ih[k], None, 1)
        self.loop.settle()
        answered = self.last_answer is not None
        problems = []
        if answered:
            if not fut.done() or fut.exception():
                problems.append("the peers-request was answered by the PEX overlay but no response arrived")
            else:
                got = [(self._ip(i, k)[0], self._ip(i, k)[1]) for i in fut.result()]
                have = [(x[0], x[1]) for x in self.last_answer]
                if len(got) != min(7, len(have)) or len(set(got)) != len(got) or not set(got) <= set(have):
                    problems.append("peers-response %r is not a sample of get_intro_points() = %r" % (got, have))
                if len(self.events) != nev + 1:
                    problems.append("one peers-request produced %d PEX events" % (len(self.events) - nev))
        elif self.saw_dht:
            if self.pex_of(self.node_id(j, k)) is not None:
                problems.append("E%d has a PEX overlay for swarm %d but went to the DHT instead of answering from it"
                                % (j, k))
        else:
            self.unreachable += 1     # the request did not reach on_peers_request (circuit trouble): not a PEX matter
        if not fut.done():
            fut.cancel()
        return problems

    def tick(self):
        self.loop.advance(self.UNIT)
        self._check_clock()
        self._flush_ticks()
