"""Value conversion between the value model of specs/Wire.tla and the Python objects the real Serializer takes.

Nothing here knows what the bytes should be: names, field order and component layout come from the tables that TLC
exports from Wire.tla (WireTable.tla -> JSON); this module only turns limbs into ints, byte sequences into bytes,
address records into (host, port) tuples, field records into instances of the real classes - and back ("projection")."""
from __future__ import annotations

import importlib
import ipaddress
import json
import os
import pkgutil
import shutil
import struct

from .tlc import MachineryError, run_tlc, scratch_dir

JAVA_OPTS = ("-Xss64m",)


def canon(v):
    """lists/tuples -> tuples, dicts -> plain dicts; so that JSON values, parsed TLA+ values and projections compare."""
    if isinstance(v, (list, tuple)):
        return tuple(canon(x) for x in v)
    if isinstance(v, dict):
        return {k: canon(x) for k, x in v.items()}
    return v


def plain(v):
    """the same, JSON-serialisable (tuples -> lists)."""
    if isinstance(v, (list, tuple)):
        return [plain(x) for x in v]
    if isinstance(v, dict):
        return {k: plain(x) for k, x in v.items()}
    return v


def limbs(x, n):
    """unsigned int -> n//2 16-bit limbs, most significant first (harness side of the wide-integer convention)."""
    cnt = n // 2
    if x < 0 or x >= 1 << (16 * cnt):
        raise ValueError("out of range")
    return tuple((x >> (16 * (cnt - 1 - i))) & 0xFFFF for i in range(cnt))


def unlimbs(ls):
    x = 0
    for limb in ls:
        x = (x << 16) | int(limb)
    return x


def load_tables():
    """Run TLC on WireTable.tla and return the exported tables."""
    tmp = scratch_dir("wiretab-")
    try:
        out = os.path.join(tmp, "table.json")
        r = run_tlc("WireTable.tla", "WireTable.cfg", env={"WIRE_TABLE_OUT": out}, coverage=False, workers=1,
                    java_opts=JAVA_OPTS)
        if not r.ok or not os.path.exists(out):
            raise MachineryError("WireTable.tla did not export the tables:\n" + r.output[-1500:])
        with open(out, encoding="utf-8") as f:
            return json.load(f)
    finally:
        shutil.rmtree(tmp, ignore_errors=True)


def import_all_ipv8():
    """Import every non-test module of the ipv8 package (optional platform modules may be missing)."""
    import ipv8
    failed = []
    for m in pkgutil.walk_packages(ipv8.__path__, "ipv8."):
        if ".test" in m.name:
            continue
        try:
            importlib.import_module(m.name)
        except Exception as e:  # noqa: BLE001
            failed.append((m.name, type(e).__name__))
    return failed


def class_key(c):
    return c.__module__[len("ipv8."):] + "." + c.__name__


def discover_serializables():
    """key -> class for every Serializable subclass defined in a non-test ipv8 module."""
    from ipv8.messaging.serialization import Serializable
    out = {}

    def walk(c):
        for s in c.__subclasses__():
            if s.__module__.startswith("ipv8.") and ".test" not in s.__module__:
                out.setdefault(class_key(s), s)
            walk(s)
    walk(Serializable)
    return out


def discover_packers():
    """One Serializer holding every packer that the default Serializer or any overlay's get_serializer registers."""
    from ipv8.messaging.serialization import Serializer
    from ipv8.overlay import Overlay
    merged = Serializer()
    owners = {name: "Serializer" for name in merged.get_available_formats()}

    def walk(c):
        for s in c.__subclasses__():
            yield s
            yield from walk(s)
    for oc in sorted(set(walk(Overlay)), key=lambda c: (c.__module__, c.__name__)):
        if not oc.__module__.startswith("ipv8.") or ".test" in oc.__module__ or "get_serializer" not in oc.__dict__:
            continue
        try:
            ser = oc.get_serializer(object.__new__(oc))
        except Exception as e:  # noqa: BLE001
            raise MachineryError("cannot obtain the serializer of %s: %r" % (oc.__name__, e)) from e
        for name in ser.get_available_formats():
            if name not in owners:
                owners[name] = oc.__name__
                merged.add_packer(name, ser.get_packer_for(name))
    return merged, owners


class Codec:
    """to_py: specification value -> argument for the real code; to_norm: what the real code holds -> specification value."""

    def __init__(self, tables, classes):
        self.reg = tables["reg"]
        self.msg = tables["msg"]
        self.classes = classes          # key -> real class
        self.extra_classes = {}         # key -> (class, fields) for definitions that are not in the table (C20)

    # ---------------------------------------------------------------- components of struct formats
    def _comp_py(self, c, v, fmt):
        t, n = c["t"], c["n"]
        if t == "u":
            return int(v) if n <= 2 else unlimbs(v)
        if t == "s":
            m = unlimbs(v["mag"])
            return -m if v["neg"] else m
        if t == "bool":
            return bool(v)
        b = bytes(v)
        if fmt in ("f", "d") or fmt == "arrayH-d":
            return struct.unpack(">f" if n == 4 else ">d", b)[0]
        return b

    def _comp_norm(self, c, x, fmt):
        t, n = c["t"], c["n"]
        try:
            if t == "u":
                if isinstance(x, bool) or not isinstance(x, int):
                    return ("BAD", repr(x))
                return x if n <= 2 else limbs(x, n)
            if t == "s":
                if isinstance(x, bool) or not isinstance(x, int):
                    return ("BAD", repr(x))
                return {"neg": x < 0, "mag": limbs(abs(x), n)}
            if t == "bool":
                return x if isinstance(x, bool) else ("BAD", repr(x))
            if fmt in ("f", "d") or fmt == "arrayH-d":
                return tuple(struct.pack(">f" if n == 4 else ">d", x))
            if not isinstance(x, (bytes, bytearray)):
                return ("BAD", repr(x))
            return tuple(x)
        except Exception:  # noqa: BLE001
            return ("BAD", repr(x))

    # ---------------------------------------------------------------- addresses
    @staticmethod
    def _addr_py(a):
        if a["kind"] == "v4":
            return (".".join(str(b) for b in a["ip"]), int(a["port"]))
        if a["kind"] == "v6":
            return (str(ipaddress.IPv6Address(bytes(a["ip"]))), int(a["port"]))
        return ("".join(chr(c) for c in a["host"]), int(a["port"]))

    @staticmethod
    def _addr_norm(x):
        try:
            host, port = x[0], x[1]
            if not isinstance(host, str) or isinstance(port, bool) or not isinstance(port, int):
                return ("BAD", repr(x))
            try:
                ip = ipaddress.ip_address(host)
            except ValueError:
                return {"kind": "dom", "host": tuple(ord(ch) for ch in host), "port": port}
            if ip.version == 4:
                return {"kind": "v4", "ip": tuple(ip.packed), "port": port}
            return {"kind": "v6", "ip": tuple(ip.packed), "port": port}
        except Exception:  # noqa: BLE001
            return ("BAD", repr(x))

    # ---------------------------------------------------------------- spec value -> python
    def to_py(self, t, v, cls=""):
        if t == "bit":
            return int(v)
        if t == "bool":
            return bool(v)
        if t == "conntype":
            return str(v)
        if t == "list20":
            return [bytes(x) for x in v]
        if t == "tblist":
            return [(bytes(x[0]), unlimbs(x[1])) for x in v]
        if t == "payload":
            return self.make(cls, v)
        if t == "payload-list":
            return [self.make(cls, x) for x in v]
        g = self.reg.get(t)
        if g is None:
            raise MachineryError("type %r is not known to Wire.tla" % (t,))
        k = g["k"]
        if k == "struct":
            c = g["c"]
            return self._comp_py(c[0], v, t) if len(c) == 1 else tuple(self._comp_py(ci, vi, t) for ci, vi in zip(c, v))
        if k == "bits":
            return tuple(int(b) for b in v)
        if k in ("ipv4", "addr"):
            return self._addr_py(v)
        if k == "raw":
            return bytes(v)
        if k == "varlen":
            return "".join(chr(c) for c in v) if g["utf8"] else bytes(v)
        if k == "list":
            if g["of"] == "varlenH":
                return [bytes(x) for x in v]
            if g["of"] == "node":
                from ipv8.dht.routing import Node
                return [Node(bytes(x["key"]), address=self._addr_py(x["address"])) for x in v]
        if k == "array":
            return [self._comp_py(g["it"], x, t) for x in v]
        if k == "flags":
            return [1 << int(e) for e in v]
        raise MachineryError("no conversion for format %r (%s)" % (t, k))

    # ---------------------------------------------------------------- python -> spec value (projection)
    def to_norm(self, t, x, cls=""):
        try:
            return self._to_norm(t, x, cls)
        except MachineryError:
            raise
        except Exception:  # noqa: BLE001
            return ("BAD", repr(x)[:200])

    def _to_norm(self, t, x, cls):
        if t == "bit":
            return int(bool(x)) if x in (0, 1, True, False) else ("BAD", repr(x))
        if t == "bool":
            return bool(x) if x in (0, 1, True, False) else ("BAD", repr(x))
        if t == "conntype":
            return x if isinstance(x, str) else ("BAD", repr(x))
        if t == "list20":
            return tuple(tuple(b) if isinstance(b, bytes) else ("BAD", repr(b)) for b in x)
        if t == "tblist":
            return tuple((tuple(a), limbs(b, 4)) for a, b in x)
        if t == "payload":
            return self.project(cls, x)
        if t == "payload-list":
            return tuple(self.project(cls, y) for y in x)
        g = self.reg.get(t)
        if g is None:
            raise MachineryError("type %r is not known to Wire.tla" % (t,))
        k = g["k"]
        if k == "struct":
            c = g["c"]
            if len(c) == 1:
                return self._comp_norm(c[0], x, t)
            if not isinstance(x, (tuple, list)) or len(x) != len(c):
                return ("BAD", repr(x))
            return tuple(self._comp_norm(ci, xi, t) for ci, xi in zip(c, x))
        if k == "bits":
            return tuple(int(bool(b)) for b in x)
        if k in ("ipv4", "addr"):
            return self._addr_norm(x)
        if k == "raw":
            return tuple(x) if isinstance(x, (bytes, bytearray)) else ("BAD", repr(x))
        if k == "varlen":
            if g["utf8"]:
                return tuple(ord(ch) for ch in x) if isinstance(x, str) else ("BAD", repr(x))
            return tuple(x) if isinstance(x, (bytes, bytearray)) else ("BAD", repr(x))
        if k == "list":
            if g["of"] == "varlenH":
                return tuple(tuple(b) if isinstance(b, (bytes, bytearray)) else ("BAD", repr(b)) for b in x)
            if g["of"] == "node":
                return tuple({"address": self._addr_norm(n.address), "key": tuple(n.public_key.key_to_bin())} for n in x)
        if k == "array":
            return tuple(self._comp_norm(g["it"], y, t) for y in x)
        if k == "flags":
            return tuple((int(f).bit_length() - 1) if int(f) > 0 and int(f) & (int(f) - 1) == 0 else -int(f) - 1 for f in x)
        raise MachineryError("no projection for format %r (%s)" % (t, k))

    # ---------------------------------------------------------------- messages
    def row(self, cls):
        if cls in self.extra_classes:
            return self.extra_classes[cls][1]
        if cls not in self.msg:
            raise MachineryError("class %s is not in the MsgTable of Wire.tla" % cls)
        return self.msg[cls]

    def klass(self, cls):
        if cls in self.extra_classes:
            return self.extra_classes[cls][0]
        return self.classes[cls]

    def make(self, cls, fields):
        row = self.row(cls)
        kwargs = {f["name"]: self.to_py(f["type"], fields[f["name"]], f["cls"]) for f in row["fields"]}
        return self.klass(cls)(**kwargs)

    def project(self, cls, obj):
        row = self.row(cls)
        out = {}
        for f in row["fields"]:
            if not hasattr(obj, f["name"]):
                out[f["name"]] = ("MISSING",)
            else:
                out[f["name"]] = self.to_norm(f["type"], getattr(obj, f["name"]), f["cls"])
        return out

    # ---------------------------------------------------------------- packer level
    def pack_args(self, fmt, pyv):
        """how a value is handed to Packer.pack: multi-component struct formats and bits take their parts as *args."""
        g = self.reg[fmt]
        if (g["k"] == "struct" and len(g["c"]) > 1) or g["k"] == "bits":
            return tuple(pyv)
        return (pyv,)

    def unpacked_value(self, fmt, lst):
        """what Packer.unpack appended -> python value of the format (bits append eight entries)."""
        if self.reg[fmt]["k"] == "bits":
            return tuple(lst)
        if len(lst) != 1:
            raise ValueError("unpack appended %d values" % len(lst))
        return lst[0]


# --------------------------------------------------------------------------------------------------------
# value generation in the value model of the specification (seeded; boundary + random)
# --------------------------------------------------------------------------------------------------------
class Gen:
    def __init__(self, codec, rng, keys, big=False):
        self.c = codec
        self.rng = rng
        self.keys = keys          # tuples of real public-key bytes (for DHT nodes)
        self.big = big            # allow maximal lengths (65535 byte strings)

    def rbytes(self, n):
        return tuple(self.rng.getrandbits(8) for _ in range(n))

    def uint(self, n):
        r = self.rng
        top = (1 << (8 * n)) - 1
        x = r.choice([0, 1, top, top - 1, 1 << (8 * n - 1), (1 << (8 * n - 1)) - 1, r.randrange(top + 1), r.randrange(top + 1),
                      r.randrange(256), int.from_bytes(bytes(range(1, n + 1)), "big")])
        return x if n <= 2 else limbs(x, n)

    def sint(self, n):
        r = self.rng
        lo, hi = -(1 << (8 * n - 1)), (1 << (8 * n - 1)) - 1
        x = r.choice([0, 1, -1, lo, hi, lo + 1, hi - 1, r.randrange(lo, hi + 1), r.randrange(lo, hi + 1), r.randrange(-300, 300)])
        return {"neg": x < 0, "mag": limbs(abs(x), n)}

    def length(self, cap):
        r = self.rng
        pool = [0, 0, 1, 2, 3, 19, 20, 21, 74, 127, 128, 255, 256, 257, r.randrange(0, 64), r.randrange(0, 400), r.randrange(0, 1500)]
        if self.big:
            pool += [65535, 65534, 32768]
        return min(cap, r.choice(pool))

    def comp(self, c, fmt):
        t, n = c["t"], c["n"]
        if t == "u":
            return self.uint(n)
        if t == "s":
            return self.sint(n)
        if t == "bool":
            return self.rng.random() < 0.5
        if fmt in ("f", "d") or fmt == "arrayH-d":
            x = self.rng.choice([0.0, -0.0, 1.0, -1.5, 3.141592653589793, 1e30, float("inf"), float("-inf"), self.rng.uniform(-1e6, 1e6)])
            if n == 4:
                x = struct.unpack(">f", struct.pack(">f", x))[0]
            return tuple(struct.pack(">f" if n == 4 else ">d", x))
        return self.rbytes(n)

    def text(self, maxbytes):
        r = self.rng
        n = min(self.length(2000), 2000)
        pool = [0x41, 0x7A, 0x20, 0x00, 0x7F, 0x80, 0xE9, 0x7FF, 0x800, 0x20AC, 0xD7FF, 0xE000, 0xFFFF, 0x10000, 0x1F600, 0x10FFFF]
        out, size = [], 0
        for _ in range(n):
            cp = r.choice(pool) if r.random() < 0.5 else r.randrange(0x20, 0x7F)
            w = 1 if cp < 0x80 else 2 if cp < 0x800 else 3 if cp < 0x10000 else 4
            if size + w > maxbytes:
                break
            out.append(cp)
            size += w
        return tuple(out)

    def addr(self, kinds):
        r = self.rng
        kind = r.choice(kinds)
        port = r.choice([0, 1, 80, 255, 256, 8090, 65534, 65535, r.randrange(65536)])
        if kind == "v4":
            ip = r.choice([(0, 0, 0, 0), (255, 255, 255, 255), (127, 0, 0, 1), (192, 168, 1, 255), self.rbytes(4), self.rbytes(4)])
            return {"kind": "v4", "ip": tuple(ip), "port": port}
        if kind == "v6":
            ip = r.choice([(0,) * 16, (0,) * 15 + (1,), (255,) * 16, (0,) * 10 + (255, 255, 1, 2, 3, 4), self.rbytes(16), self.rbytes(16),
                           (0x20, 0x01, 0x0d, 0xb8) + (0,) * 4 + self.rbytes(8)])
            return {"kind": "v6", "ip": tuple(ip), "port": port}
        host = r.choice(["a", "localhost", "tribler.org", "bücher.example", "x" * 253, "sub.domain.example.com", "host-%d.test" % r.randrange(1000)])
        return {"kind": "dom", "host": tuple(ord(ch) for ch in host), "port": port}

    def value(self, t, cls="", depth=0):
        r = self.rng
        if t == "bit":
            return r.randrange(2)
        if t == "bool":
            return r.random() < 0.5
        if t == "conntype":
            return r.choice(["unknown", "public", "symmetric-NAT"])
        if t == "list20":
            return tuple(self.rbytes(20) for _ in range(r.choice([0, 1, 2, 3, 12])))
        if t == "tblist":
            return tuple((self.rbytes(20), self.uint(4)) for _ in range(r.choice([0, 1, 2, 5])))
        if t == "payload":
            return self.fields(cls, depth + 1)
        if t == "payload-list":
            return tuple(self.fields(cls, depth + 1) for _ in range(r.choice([0, 1, 2, 3, 7])))
        g = self.c.reg.get(t)
        if g is None:
            raise MachineryError("type %r is not known to Wire.tla" % (t,))
        k = g["k"]
        if k == "struct":
            c = g["c"]
            return self.comp(c[0], t) if len(c) == 1 else tuple(self.comp(ci, t) for ci in c)
        if k == "bits":
            return tuple(r.randrange(2) for _ in range(8))
        if k == "ipv4":
            return self.addr(["v4"])
        if k == "addr":
            return self.addr(["v4", "v6", "dom"] if g["dom"] else ["v4", "v6"])
        if k == "raw":
            return self.rbytes(self.length(1400 if not self.big else 70000))
        if k == "varlen":
            cap = (256 ** g["lw"] - 1) if g["lw"] < 4 else 70000
            if g["utf8"]:
                return self.text(min(cap, 65535))
            cnt = self.length(min(cap, 65535 // g["unit"] if g["lw"] == 2 else cap))
            if g["unit"] > 1:
                cnt = min(cnt, 300 if not self.big else cap)
            return self.rbytes(cnt * g["unit"])
        if k == "list":
            cnt = r.choice([0, 1, 2, 3, 8] + ([255] if depth == 0 else []))
            if g["of"] == "varlenH":
                return tuple(self.rbytes(min(self.length(400), 400 if cnt < 50 else 3)) for _ in range(cnt))
            if g["of"] == "node":
                cnt = min(cnt, 20)
                return tuple({"address": self.addr(["v4", "v6"]), "key": r.choice(self.keys)} for _ in range(cnt))
        if k == "array":
            cnt = r.choice([0, 1, 2, 5, 40, 300])
            return tuple(self.comp(g["it"], t) for _ in range(cnt))
        if k == "flags":
            return tuple(sorted(r.sample(range(16), r.choice([0, 1, 1, 2, 3, 16]))))
        raise MachineryError("no generator for format %r (%s)" % (t, k))

    def fields(self, cls, depth=0):
        row = self.c.row(cls)
        return {f["name"]: self.value(f["type"], f["cls"], depth) for f in row["fields"]}
