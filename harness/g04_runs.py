"""G04 - recorded runs of the real service (binding T for specs/LifecycleTrace.tla).

A real ipv8_service.IPv8 (built by its own __init__ from a configuration: two overlays, each with a real RandomWalk and
a recording strategy and a real DispersyBootstrapper that points at a tracker node) runs under the run-mode virtual
clock on the simulated network next to a tracker and three ordinary nodes.  A user task makes API calls at random
instants (add_strategy, unload_overlay with an unload that takes random time, removal of peers, stop).
Observation without source hooks: ipv8_service's module global `sleep` is re-bound to a spy (marks the end of one run
of the ticker task and gives the requested pause), take_step / get_peer_count / unload / endpoint.close are wrapped on
the instances."""
from __future__ import annotations

import asyncio
import base64
import random

from . import nodes, simnet, vloop
from .g04_world import key, overlay_class

OV = (1, 2, 3)
OVOF = {1: 1, 2: 1, 3: 2, 4: 2, 5: 3, 6: 2}
TARGET = {1: 2, 2: -1, 3: 1, 4: 3, 5: -1, 6: -1}
REAL_WALK = (1, 3, 6)
TRACKER = ("80.7.0.1", 6421)


class Recorder:
    def __init__(self, wi):
        self.wi = wi
        self.events = []
        self.buf = []
        self.in_run = False
        self.first_run = True
        self.seen_peers = {o: 0 for o in OV}
        self.ucalls = {o: 0 for o in OV}
        self.done = {o: False for o in OV}
        self.steps = []        # what the Rec strategies append to (not used here)
        self.hooks = []
        self.ipv8 = None
        self.inst = {}
        self.me = None
        self.opened = False
        self.stop_called = self.stopped = False

    def emit(self, op, a=0, k=0, steps=(), d=0, check=None):
        e = {"op": op, "a": a, "k": k, "steps": list(steps), "d": d,
             "ovl": [], "strs": [], "ovst": [], "ucalls": [], "ep": "", "svc": ""}
        if check:
            e.update(check)
        self.events.append(e)

    # -- ticker observation
    def consider(self):
        if not self.in_run:
            self.in_run = True
            for o in OV:
                n = len(self.inst[o].get_peers())
                if n != self.seen_peers[o]:
                    self.seen_peers[o] = n
                    self.emit("SetPeers", a=o, k=n)

    def end_run(self, d):
        self.emit("Start" if self.first_run else "Wake", steps=self.buf, d=int(round(d * 1000)))
        self.first_run = False
        self.buf = []
        self.in_run = False

    def instrument(self, strategy, sid):
        real_count, real_step = strategy.get_peer_count, strategy.take_step
        rec = self

        def get_peer_count():
            rec.consider()
            return real_count()

        def take_step():
            rec.consider()
            rec.buf.append(sid)
            return real_step()
        strategy.get_peer_count = get_peer_count
        strategy.take_step = take_step

    def check(self):
        ipv8 = self.ipv8
        ids = {id(v): k for k, v in self.inst.items()}
        sids = self.sids
        ovst = []
        for o in OV:
            inst = self.inst[o]
            if any(x is inst for x in ipv8.overlays):
                ovst.append("loaded")
            elif self.done[o]:
                ovst.append("unloaded" if inst._shutdown else "unloaded-but-alive")
            elif self.ucalls[o]:
                ovst.append("unloading")
            else:
                ovst.append("fresh")
        ep = "open" if self.me._open else ("closed" if self.opened else "unopened")
        svc = "stopped" if self.stopped else ("stopping" if self.stop_called else
                                              ("running" if ipv8.state_machine_task is not None else "new"))
        self.emit("Check", check={"ovl": [ids.get(id(x), 0) for x in ipv8.overlays],
                                  "strs": [sids.get(id(s), 0) for s, _t in ipv8.strategies],
                                  "ovst": ovst, "ucalls": [self.ucalls[o] for o in OV], "ep": ep, "svc": svc})


def record_run(rng, wi, max_ops=14):
    """One run -> list of events."""
    import ipv8_service
    loop = vloop.install(vloop.VLoop())
    real_sleep = ipv8_service.sleep
    rec = Recorder(wi)
    try:
        random.seed(rng.random())
        net = simnet.attach(loop, simnet.SimNet(loop))
        classes = {"Ov%d" % o: overlay_class(o) for o in OV}
        tracker = nodes.Node(net, key=key("t-tracker"), ip=TRACKER[0], port=TRACKER[1])
        others = [nodes.Node(net, key=key("t-node%d" % i)) for i in range(3)]
        for nd in [tracker, *others]:
            nd.add(classes["Ov1"])
            nd.add(classes["Ov2"])
        for i in (0, 1):
            for nd in others:
                nd.overlays[i].walk_to(tracker.address)
        loop.advance(1.0)
        me = net.endpoint(ip="80.7.1.1", port=8090)
        me._open = False
        rec.me = me
        boot = {"class": "DispersyBootstrapper", "init": {"ip_addresses": [TRACKER], "dns_addresses": [],
                                                            "bootstrap_timeout": 30.0}}

        def walkers(o):
            out = []
            for s in (1, 2, 3, 4):
                if OVOF[s] == o:
                    if s in REAL_WALK:
                        out.append({"strategy": "RandomWalk", "peers": TARGET[s], "init": {"timeout": 3.0}})
                    else:
                        out.append({"strategy": "Rec", "peers": TARGET[s], "init": {"sid": s, "world": rec,
                                                                                      "raises": s == 2}})
            return out
        conf = {"logger": {"level": "CRITICAL"},
                "keys": [{"alias": "k", "bin": base64.b64encode(key("me").key_to_bin()).decode(), "file": ""}],
                "walker_interval": float(wi),
                "overlays": [{"class": "Ov%d" % o, "key": "k", "walkers": walkers(o), "bootstrappers": [dict(boot)],
                              "initialize": {}, "on_start": [("hook", o)]} for o in (1, 2)]}
        ipv8 = ipv8_service.IPv8(conf, endpoint_override=me, extra_communities=classes)
        rec.ipv8 = ipv8
        rec.inst = {1: ipv8.overlays[0], 2: ipv8.overlays[1]}
        cl3 = classes["Ov3"]
        rec.inst[3] = cl3(cl3.settings_class(my_peer=ipv8.keys["k"], endpoint=me, network=ipv8.network))
        from ipv8.peerdiscovery.discovery import RandomWalk
        strat = {s: st for s, (st, _t) in zip((1, 2, 3, 4), ipv8.strategies)}
        strat[5] = cl3.Rec(rec.inst[3], 5, rec)
        strat[6] = RandomWalk(rec.inst[2], timeout=3.0)
        rec.sids = {id(v): k for k, v in strat.items()}
        for s, st in strat.items():
            rec.instrument(st, s)
        unload_delay = {o: rng.choice([0.0, 0.0, rng.uniform(0.1, 1.5 * wi)]) for o in OV}
        for o, inst in rec.inst.items():
            inst.g04_world = rec
            inst.my_estimated_lan = me.addr
            inst.my_estimated_wan = me.addr
            real_unload = inst.unload

            def unload(o=o, real_unload=real_unload):
                rec.ucalls[o] += 1

                async def run():
                    if unload_delay[o]:
                        await asyncio.sleep(unload_delay[o])
                    await real_unload()
                    rec.done[o] = True
                    rec.emit("UnloadRun", a=o)
                return run()
            inst.unload = unload
        vloop.patch_ipv8_time(loop)
        real_open, real_close = me.open, me.close

        async def open_():
            rec.opened = True
            return await real_open()

        def close(*a, **k):
            rec.emit("Close")
            return real_close(*a, **k)
        me.open, me.close = open_, close

        async def sleep_spy(delay, result=None):
            if delay > 0 and ipv8.state_machine_task is not None and asyncio.current_task() is ipv8.state_machine_task:
                rec.end_run(delay)
            return await real_sleep(delay, result)
        ipv8_service.sleep = sleep_spy

        async def user():
            pending = []
            added = set()
            await ipv8.start()
            await asyncio.sleep(0.01)
            rec.check()
            for _ in range(rng.randrange(4, max_ops)):
                loaded = [o for o in OV if any(x is rec.inst[o] for x in ipv8.overlays)]
                ops = ["wait", "wait", "wait", "kick"]
                ops += ["add%d" % s for s in (5, 6) if s not in added and not rec.ucalls[OVOF[s]]]
                ops += ["unload"] if loaded else []
                op = rng.choice(ops)
                if op == "wait":
                    await asyncio.sleep(rng.choice([rng.uniform(0.05, 1.0), rng.uniform(0.5, 1.5 * wi), float(wi) / 2]))
                elif op == "kick":
                    peers = sorted(ipv8.network.verified_peers, key=lambda p: tuple(p.address))
                    if peers:
                        ipv8.network.remove_peer(rng.choice(peers))
                elif op.startswith("add"):
                    s = int(op[3:])
                    added.add(s)
                    rec.emit("AddStrategy", a=s)
                    ipv8.add_strategy(rec.inst[OVOF[s]], strat[s], TARGET[s])
                else:
                    o = rng.choice(loaded)
                    rec.emit("UnloadOverlay", a=o)
                    pending.append(asyncio.ensure_future(ipv8.unload_overlay(rec.inst[o])))
                    if rng.random() < 0.4:
                        await pending[-1]
                rec.check()
            for t in pending:
                await t
            rec.check()
            rec.stop_called = True
            rec.emit("Stop")
            await ipv8.stop()
            rec.stopped = True
            rec.check()
        loop.run_until_complete(asyncio.wait_for(user(), 3600))
        return rec.events
    finally:
        ipv8_service.sleep = real_sleep
        try:
            for t in asyncio.all_tasks(loop):
                t.cancel()
            loop.run_until_complete(asyncio.sleep(0))
        except Exception:  # noqa: BLE001
            pass
        vloop.uninstall()
        loop.close()
