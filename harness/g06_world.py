"""G06 - real HiddenTunnelCommunity nodes in the step-mode tunnel world (harness/onion.py) for specs/HiddenServices.tla.

The world of C04/C05/C08/C09 is reused as it is (manual simulated network, step loop, virtual time, one driver step =
one datagram / one timer / one API call); on top of it:
 * the nodes run a subclass of HiddenTunnelCommunity that notes which hidden-services handler ran with which decoded
   payload (no source hook: the handlers are overridden in the harness' subclass and call the real ones);
 * the exit sockets' outside transports are bridged to the simulated network, so that a packet leaving an exit socket
   for an IPv8 address (create-e2e to an introduction point, created-e2e back, peers-request/response over the socket)
   is an in-flight datagram like every other and the answer finds the outside socket;
 * a DHT provider shared by all nodes (a dictionary) and a service object that only records strategies (PexCommunity is
   really created/unloaded by the introduction point, nobody walks in it);
 * `project()` reads the hidden-services state of every node (swarms, connections, introduction/rendezvous tables,
   rendezvous links, the five request caches, circuits by role, exit sockets) with circuit ids, identifiers, cookies
   and keys renamed by order of first appearance;
 * every driver step is logged as ONE event of specs/HiddenServicesTrace.tla: what the step was (handler that ran, timer,
   API call, circuit-layer change) + the projected state after it."""
from __future__ import annotations

import asyncio
import json

from .onion import EXIT_BT, EXIT_IPV8, EXITF, RELAY, SPEED, Gone, OnionWorld  # noqa: F401
from .simnet import Datagram

HS_HANDLERS = ("on_establish_intro", "on_intro_established", "on_establish_rendezvous", "on_rendezvous_established",
               "on_create_e2e", "on_created_e2e", "on_link_e2e", "on_linked_e2e", "on_peers_request", "on_peers_response")
CTYPE = {"DATA": "DATA", "IP_SEEDER": "IP", "RP_SEEDER": "RPS", "RP_DOWNLOADER": "RPD"}


class SharedDht:
    """what HiddenTunnelCommunity needs of a DHT provider: announce / lookup of introduction points per info hash"""

    def __init__(self, world):
        self.world = world
        self.store = {}
        self.fail = False

    def view(self, node_name):
        outer = self

        class View:
            async def announce(self, info_hash, intro_point):
                outer.store.setdefault(info_hash, [])
                if intro_point not in outer.store[info_hash]:
                    outer.store[info_hash].append(intro_point)

            async def lookup(self, info_hash):
                from ipv8.messaging.anonymization.tunnel import PEER_SOURCE_DHT, IntroductionPoint
                if outer.fail:
                    raise RuntimeError("simulated DHT failure")
                return info_hash, [IntroductionPoint(ip.peer, ip.seeder_pk, PEER_SOURCE_DHT)
                                   for ip in outer.store.get(info_hash, [])]

            async def peer_lookup(self, mid, peer=None):
                return None
        return View()


class FakeService:
    """the IPv8 service object as far as HiddenTunnelCommunity uses it (overlays, strategies, add_strategy)"""

    def __init__(self, address=None):
        self.overlays = []
        self.strategies = []
        self.address = address

    def add_strategy(self, overlay, strategy, target_peers):
        if overlay not in self.overlays:
            self.overlays.append(overlay)
            if self.address is not None:
                # nobody walks in the PEX community here: it knows its own address as nodes.Node.add tells every overlay
                overlay.my_estimated_lan = overlay.my_estimated_wan = self.address
        self.strategies.append((strategy, target_peers))


class HsWorld(OnionWorld):
    def __init__(self, seed=0, clients=("S", "D"), infra=("A", "B", "C"), settings=None, with_service=True):
        self.handler_log = []     # hidden-services handlers that ran in the current step
        self.send_log = []        # hidden-services messages sent in the current step
        self.forging = False
        self.alias = {}           # real circuit id at a later hop -> real circuit id one hop closer to the originator
        self.id_map = {}          # identifier (16 bit number) -> small int
        self.id_owner = {}
        self.tag_map = {}
        self.prev = None
        self.quiet_steps = 0
        self.cb_log = []          # e2e callbacks: (node, info hash name, circuit id)
        self.cookie_map = {}
        self.key_map = {}         # swarm public keys (and forged ones) -> small ints
        self.eph_map = {}
        self.ih_map = {}
        self.clients = list(clients)
        self.infra = list(infra)
        names = tuple(clients) + tuple(infra)
        super().__init__(seed=seed, names=names, exits=tuple(infra), origins=names, settings=settings,
                         overlay_factory=self._factory)
        self.dht = SharedDht(self)
        for nm in self.names:
            ov = self.ov[nm]
            ov.dht_provider = self.dht.view(nm)
            ov.ipv8 = FakeService(self.nodes[nm].address) if with_service else None
            # who knows whom: clients know the infrastructure nodes only; infrastructure nodes know each other
            for p in list(ov.candidates):
                ov.candidates.pop(p)
            for other in self.infra:
                if other == nm:
                    continue
                p = self.Peer(self.nodes[other].my_peer.public_key, self.nodes[other].address)
                ov.network.add_verified_peer(p)
                ov.network.discover_services(p, [ov.community_id])
                ov.candidates[p] = [RELAY, EXIT_BT, EXIT_IPV8, SPEED]
        self.net.on_outside = self._outside_send
        self._orig_deliver = self.net.deliver
        self.net.deliver = self._deliver
        self.auto_transports = True
        self.sent_ever = set()    # every symbolic message the nodes (or the attacker) ever sent
        self.seen_cd = []         # (node, circuit, payload) of created-e2e messages that reached a downloader
        for name in ("join_swarm", "leave_swarm", "create_intro", "peer_discovery", "api_remove_circuit", "forge_reply",
                     "forge_link", "forge_created"):
            setattr(self, name, self._stepper(getattr(self, name)))

    # ------------------------------------------------------------------ the nodes' class
    def _factory(self, world, base):
        from ipv8.messaging.anonymization import payload as pl
        from ipv8.messaging.anonymization.hidden_services import HiddenTunnelCommunity
        hs_payloads = (pl.EstablishIntroPayload, pl.IntroEstablishedPayload, pl.EstablishRendezvousPayload,
                       pl.RendezvousEstablishedPayload, pl.CreateE2EPayload, pl.CreatedE2EPayload, pl.LinkE2EPayload,
                       pl.LinkedE2EPayload, pl.PeersRequestPayload, pl.PeersResponsePayload)
        world.pl = pl

        def make(hname):
            def handler(self, source_address, data, circuit_id=None):
                world._note_handler(self, hname, source_address, data, circuit_id)
                return getattr(HiddenTunnelCommunity, hname)(self, source_address, data, circuit_id)
            handler.__name__ = hname
            return handler
        ns = {h: make(h) for h in HS_HANDLERS}

        def send_cell(self, target_addr, payload):
            if isinstance(payload, hs_payloads):
                world._note_send(self, "cell", payload, None, target_addr)
            return HiddenTunnelCommunity.send_cell(self, target_addr, payload)

        def tunnel_data(self, circuit, destination, payload):
            world._note_send(self, "tunnel", payload, circuit, destination)
            return HiddenTunnelCommunity.tunnel_data(self, circuit, destination, payload)

        def send_packet(self, target, packet):
            if len(packet) > 23 and packet[22] == pl.PeersResponsePayload.msg_id and packet[:22] == self.get_prefix():
                payload, _ = self.serializer.unpack_serializable(pl.PeersResponsePayload, packet, offset=23)
                world._note_send(self, "packet", payload, None, target)
            return HiddenTunnelCommunity.send_packet(self, target, packet)
        ns.update(send_cell=send_cell, tunnel_data=tunnel_data, send_packet=send_packet)
        return type("HiddenTunnelCommunity", (HiddenTunnelCommunity,), ns)

    def _node_of(self, ov):
        return next((n for n, o in self.ov.items() if o is ov), "?")

    def _note_handler(self, ov, hname, source_address, data, circuit_id):
        self.handler_log.append({"n": self._node_of(ov), "h": hname, "data": bytes(data), "cid": circuit_id,
                                 "src": (source_address[0], source_address[1])})

    def _note_send(self, ov, how, payload, circuit, dest):
        self.send_log.append({"n": self._node_of(ov), "how": how, "payload": payload, "circuit": circuit,
                              "dest": (dest[0], dest[1]) if dest is not None else None, "forged": self.forging})

    # ------------------------------------------------------------------ outside sockets on the simulated network
    def _transport_owner(self, tr):
        sock = getattr(getattr(tr.protocol, "received_cb", None), "__self__", None)
        if sock is None:
            return None, None
        nm = next((k for k, v in self.ov.items() if v is sock.overlay), None)
        return nm, sock

    def _transport_addr(self, tr):
        nm, _sock = self._transport_owner(tr)
        if nm is None:
            return None
        return (self.nodes[nm].address[0], tr.port)

    def _outside_send(self, tr, data, addr):
        dst = (addr[0], addr[1])
        src = self._transport_addr(tr)
        if src is None:
            return
        self.net.seq += 1
        dg = Datagram(self.net.seq, src, dst, bytes(data), None)
        dg.note = "outside"
        self.net.wire.append(dg)
        self.net.inflight.append(dg)

    def _deliver(self, dg):
        for tr in self.net.transports:
            if not tr.closed and tr.family == 2 and self._transport_addr(tr) == dg.dst:
                dg.fate = "delivered"
                tr.inject(dg.data, dg.src)
                return True
        return self._orig_deliver(dg)

    def name_of_addr(self, addr):
        a = (addr[0], addr[1])
        if a in self.addr_name:
            return self.addr_name[a]
        for tr in self.net.transports:
            if self._transport_addr(tr) == a:
                nm, sock = self._transport_owner(tr)
                return "%s!%d" % (nm, self.cid(sock.circuit_id))
        return "?%s:%s" % a

    # ------------------------------------------------------------------ names
    IH = {1: b"\x11" * 20, 2: b"\x22" * 20}

    def ih_name(self, info_hash):
        for k, v in self.IH.items():
            if v == info_hash:
                return k
        return 0

    def _learn_aliases(self):
        for nm in self.names:
            ov = self.ov[nm]
            for cache in list(ov.request_cache._identifiers.values()):
                if type(cache).__name__ == "CreateRequestCache":
                    self.alias.setdefault(cache.to_circuit_id, cache.from_circuit_id)
            for rc, ro in ov.relay_from_to.items():
                if not ro.rendezvous_relay and ro.direction == 0:
                    self.alias.setdefault(ro.circuit_id, rc)

    def canon(self, real):
        seen = set()
        while real in self.alias and real not in seen:
            seen.add(real)
            real = self.alias[real]
        return real

    def ccid(self, real):
        """spec name of the circuit a real circuit id (at whatever hop) belongs to"""
        return self.cid(self.canon(real))

    def _named(self, table, value):
        if value not in table:
            table[value] = len(table) + 1
        return table[value]

    def idn(self, number):
        return self._named(self.id_map, number)

    def ckn(self, cookie):
        return self._named(self.cookie_map, bytes(cookie))

    def keyn(self, pk):
        return self._named(self.key_map, bytes(pk))

    def ephn(self, e):
        return self._named(self.eph_map, bytes(e))

    def tagn(self, auth, enc):
        return self._named(self.tag_map, (bytes(auth), bytes(enc)))

    def outside_name(self, addr):
        """[exit node, circuit] of the outside socket with that address"""
        a = (addr[0], addr[1])
        for tr in self.net.transports:
            if self._transport_addr(tr) == a:
                nm, sock = self._transport_owner(tr)
                return [nm, self.ccid(sock.circuit_id)]
        return [self.addr_name.get(a, "adv"), 0]

    # ------------------------------------------------------------------ projection
    def _closing_exits(self, ov):
        """real circuit id -> number of remove_exit_socket calls that are waiting for remove_tunnel_delay"""
        out = {}
        for key, t in list(ov._pending_tasks.items()):
            if isinstance(key, str) and key.startswith("remove_exit_socket") and hasattr(t, "get_coro") and not t.done():
                fr = t.get_coro().cr_frame
                if fr is not None and "circuit_id" in fr.f_locals:
                    out[fr.f_locals["circuit_id"]] = out.get(fr.f_locals["circuit_id"], 0) + 1
        return out

    def project(self):
        self._learn_aliases()
        for nm in self.names:                      # circuits are named in the order the nodes created them
            for rc in self.ov[nm].circuits:
                self.cid(rc)
        st = {"swarm": {}, "conns": {}, "ips": {}, "circ": {}, "exits": {}, "intro": {}, "rdv": {}, "links": {}, "pex": {},
              "pexOn": {}, "caches": {}, "cbs": {}}
        kinds = {"IPRequestCache": "ip", "RPRequestCache": "rp", "PeersRequestCache": "peers", "E2ERequestCache": "e2e",
                 "LinkRequestCache": "link"}
        for nm in self.names:
            ov = self.ov[nm]
            sw, conns, ips = [], [], []
            for ih, s in ov.swarms.items():
                h = self.ih_name(ih)
                sw.append({"ih": h, "seeding": bool(s.seeding), "key": self.keyn(s.seeder_sk.pub().key_to_bin()) if s.seeder_sk else 0})
                for rc, (circuit, ip) in s.connections.items():
                    conns.append({"c": self.cid(rc), "ih": h, "pk": self.keyn(ip.seeder_pk), "node": self.name_of_peer(ip.peer)})
                for ip in s.intro_points:
                    ips.append({"ih": h, "node": self.name_of_peer(ip.peer), "pk": self.keyn(ip.seeder_pk)})
            st["swarm"][nm], st["conns"][nm], st["ips"][nm] = sw, conns, ips
            circ = []
            for rc, c in ov.circuits.items():
                done = len(c.hops) >= c.goal_hops
                circ.append({"id": self.cid(rc), "ct": CTYPE.get(c.ctype, c.ctype), "ih": self.ih_name(c.info_hash) if c.info_hash else 0,
                             "st": "closing" if c._closing else ("ready" if done else "new"),
                             "x": self.name_of_peer(c.hops[-1].peer) if done and c.hops else "none",
                             "req": self.name_of_peer(c.required_exit) if c.required_exit else "none",
                             "e2e": bool(c.e2e), "hs": c.hs_session_keys is not None})
            st["circ"][nm] = circ
            closing = self._closing_exits(ov)
            exits = []
            for rc, ex in ov.exit_sockets.items():
                ro = ov.relay_from_to.get(rc)
                if ro is not None and not ro.rendezvous_relay:
                    continue                        # turned into a relay: cells are forwarded, the socket only lingers
                exits.append({"id": self.ccid(rc), "en": bool(ex.enabled), "cl": rc in closing})
                st.setdefault("_removals", {}).setdefault(nm, {})[str(self.ccid(rc))] = closing.get(rc, 0)
            if len({e["id"] for e in exits}) != len(exits):
                # a duplicated / retried extend made this node join the same circuit twice (two exit sockets, one of them
                # never used): the circuit layer's business (Onion.tla), outside the vocabulary of HiddenServices.tla
                raise Gone("node %s joined one circuit twice" % nm)
            st["exits"][nm] = exits
            st["intro"][nm] = [{"pk": self.keyn(pk), "c": self.ccid(sock.circuit_id), "ih": self.ih_name(ih)}
                               for pk, (sock, ih) in ov.intro_point_for.items()]
            st["rdv"][nm] = [{"ck": self.ckn(ck), "c": self.ccid(sock.circuit_id)} for ck, sock in ov.rendezvous_point_for.items()]
            st["links"][nm] = [[self.ccid(rc), self.ccid(ro.circuit_id)] for rc, ro in ov.relay_from_to.items() if ro.rendezvous_relay]
            st["pex"][nm] = [{"ih": self.ih_name(ih), "pk": self.keyn(pk)} for ih, p in ov.pex.items() for pk in p.intro_points_for]
            st["pexOn"][nm] = [self.ih_name(ih) for ih in ov.pex]
            caches = []
            for cache in ov.request_cache._identifiers.values():
                k = kinds.get(type(cache).__name__)
                if k is None:
                    continue
                owner = self.id_owner.setdefault(cache.number, (nm, k, cache))
                if owner[2] is not cache:
                    # 16 bit identifiers: drawn again by another cache (now or later). The specification's identifiers are
                    # never re-used; the run ends here (what was recorded so far is still validated)
                    raise Gone("two request caches drew the same identifier %d" % cache.number)
                circuit = cache.rp.circuit if k == "rp" else getattr(cache, "circuit", None)
                caches.append({"k": k, "id": self.idn(cache.number), "c": self.cid(circuit.circuit_id) if circuit is not None else 0})
            st["caches"][nm] = caches
            st["cbs"][nm] = [{"ih": h, "c": c} for (n2, h, c) in self.cb_log if n2 == nm]
        st["dht"] = [{"ih": self.ih_name(ih), "node": self.name_of_peer(ip.peer), "pk": self.keyn(ip.seeder_pk)}
                     for ih, lst in self.dht.store.items() for ip in lst]
        for var, val in st.items():                 # sets: a canonical order, so that equal projections compare equal
            if var in ("cbs", "_removals"):
                continue
            if isinstance(val, dict):
                for nm in val:
                    val[nm] = sorted(val[nm], key=lambda x: json.dumps(x, sort_keys=True))
            else:
                st[var] = sorted(val, key=lambda x: json.dumps(x, sort_keys=True))
        return st

    # ------------------------------------------------------------------ symbolic messages
    def sym_sent(self, rec):
        """the message of the specification a logged send amounts to"""
        p, nm = rec["payload"], rec["n"]
        cn = type(p).__name__
        if rec["how"] in ("cell", "packet"):
            c = self.ccid(p.circuit_id)
            if cn == "EstablishIntroPayload":
                return {"t": "EI", "c": c, "id": self.idn(p.identifier), "ih": self.ih_name(p.info_hash), "pk": self.keyn(p.public_key)}
            if cn == "IntroEstablishedPayload":
                return {"t": "IE", "c": c, "id": self.idn(p.identifier)}
            if cn == "EstablishRendezvousPayload":
                return {"t": "ER", "c": c, "id": self.idn(p.identifier), "ck": self.ckn(p.cookie)}
            if cn == "RendezvousEstablishedPayload":
                return {"t": "RE", "c": c, "id": self.idn(p.identifier), "addr": self.name_of_addr(p.rendezvous_point_addr)}
            if cn == "LinkE2EPayload":
                return {"t": "LK", "c": c, "id": self.idn(p.identifier), "ck": self.ckn(p.cookie)}
            if cn == "LinkedE2EPayload":
                return {"t": "LD", "c": c, "id": self.idn(p.identifier)}
            if cn == "PeersRequestPayload":
                return {"t": "PQ", "c": c, "id": self.idn(p.identifier), "ih": self.ih_name(p.info_hash)}
            if cn == "PeersResponsePayload":
                return {"t": "PR", "c": c, "id": self.idn(p.identifier), "ih": self.ih_name(p.info_hash), "peers": self._peers(p)}
        else:
            circuit = rec["circuit"]
            is_exit = type(circuit).__name__ == "TunnelExitSocket"
            if cn == "PeersRequestPayload":
                return {"t": "PQs", "to": self.name_of_addr(rec["dest"]), "src": [self.name_of_peer(circuit.hops[-1].peer), self.cid(circuit.circuit_id)],
                        "id": self.idn(p.identifier), "ih": self.ih_name(p.info_hash)}
            if cn == "CreateE2EPayload" and not is_exit:
                return {"t": "CE", "to": self.name_of_addr(rec["dest"]), "src": [self.name_of_peer(circuit.hops[-1].peer), self.cid(circuit.circuit_id)],
                        "id": self.idn(p.identifier), "ih": self.ih_name(p.info_hash), "pk": self.keyn(p.node_public_key), "e1": self.ephn(p.key)}
            if cn == "CreateE2EPayload":
                return {"t": "CEf", "c": self.ccid(circuit.circuit_id), "src": self.outside_name(rec["dest"]),
                        "id": self.idn(p.identifier), "ih": self.ih_name(p.info_hash), "pk": self.keyn(p.node_public_key), "e1": self.ephn(p.key)}
            if cn == "CreatedE2EPayload":
                return {"t": "CD", "c": rec["cd_for"] if "cd_for" in rec else self.outside_name(rec["dest"])[1], "id": self.idn(p.identifier), "e2": self.ephn(p.key),
                        "tag": self.tagn(p.auth, p.rp_info_enc)}
        return {"t": "?" + cn}

    def _peers(self, p):
        out = []
        for peer in p.peers:
            if tuple(peer.address) == ("0.0.0.0", 0):
                continue
            rec = {"node": self.key_name.get(peer.key.key_to_bin() if hasattr(peer.key, "key_to_bin") else bytes(peer.key), "?key"),
                   "pk": self.keyn(peer.seeder_pk)}
            if rec not in out:
                out.append(rec)
        return out

    def sym_received(self, h):
        """the message of the specification a handler invocation consumed"""
        ov = self.ov[h["n"]]
        pl = self.pl
        cls = {"on_establish_intro": pl.EstablishIntroPayload, "on_intro_established": pl.IntroEstablishedPayload,
               "on_establish_rendezvous": pl.EstablishRendezvousPayload, "on_rendezvous_established": pl.RendezvousEstablishedPayload,
               "on_create_e2e": pl.CreateE2EPayload, "on_created_e2e": pl.CreatedE2EPayload, "on_link_e2e": pl.LinkE2EPayload,
               "on_linked_e2e": pl.LinkedE2EPayload, "on_peers_request": pl.PeersRequestPayload,
               "on_peers_response": pl.PeersResponsePayload}[h["h"]]
        p, _ = ov.serializer.unpack_serializable(cls, h["data"], offset=23)
        via = self.ccid(h["cid"]) if h["cid"] is not None else 0
        hn = h["h"]
        if hn == "on_establish_intro":
            return "OnEstablishIntro", {"t": "EI", "c": via, "id": self.idn(p.identifier), "ih": self.ih_name(p.info_hash), "pk": self.keyn(p.public_key)}
        if hn == "on_intro_established":
            return "OnIntroEstablished", {"t": "IE", "c": via, "id": self.idn(p.identifier)}
        if hn == "on_establish_rendezvous":
            return "OnEstablishRendezvous", {"t": "ER", "c": via, "id": self.idn(p.identifier), "ck": self.ckn(p.cookie)}
        if hn == "on_rendezvous_established":
            return "OnRendezvousEstablished", {"t": "RE", "c": via, "id": self.idn(p.identifier), "addr": self.name_of_addr(p.rendezvous_point_addr)}
        if hn == "on_link_e2e":
            return "OnLinkE2E", {"t": "LK", "c": via, "id": self.idn(p.identifier), "ck": self.ckn(p.cookie)}
        if hn == "on_linked_e2e":
            return "OnLinkedE2E", {"t": "LD", "c": via, "id": self.idn(p.identifier)}
        if hn == "on_create_e2e":
            body = {"id": self.idn(p.identifier), "ih": self.ih_name(p.info_hash), "pk": self.keyn(p.node_public_key), "e1": self.ephn(p.key)}
            if h["cid"] is None:
                return "OnCreateE2ESock", dict({"t": "CE", "to": h["n"], "src": self.outside_name(h["src"])}, **body)
            return "OnCreateE2ECirc", dict({"t": "CEf", "c": via, "src": self.outside_name(h["src"])}, **body)
        if hn == "on_created_e2e":
            if not any(d == h["data"] for (_n, _c, d) in self.seen_cd):
                self.seen_cd.append((h["n"], h["cid"], h["data"]))
            return "OnCreatedE2E", {"t": "CD", "c": via, "id": self.idn(p.identifier), "e2": self.ephn(p.key), "tag": self.tagn(p.auth, p.rp_info_enc)}
        if hn == "on_peers_request":
            if h["cid"] is None:
                return "OnPeersRequestSock", {"t": "PQs", "to": h["n"], "src": self.outside_name(h["src"]), "id": self.idn(p.identifier),
                                              "ih": self.ih_name(p.info_hash)}
            return "OnPeersRequestCell", {"t": "PQ", "c": via, "id": self.idn(p.identifier), "ih": self.ih_name(p.info_hash)}
        if hn == "on_peers_response":
            return "OnPeersResponse", {"t": "PR", "c": via, "id": self.idn(p.identifier), "ih": self.ih_name(p.info_hash), "peers": self._peers(p)}
        raise KeyError(hn)

    # ------------------------------------------------------------------ one step -> events of HiddenServicesTrace.tla
    def log(self, action, **args):
        self._settle()
        after = self.project()
        before = self.prev if self.prev is not None else self._empty()
        evs = self._derive(action, args, before, after)
        self.handler_log, self.send_log = [], []
        self.prev = after
        if not evs:
            return {"a": "quiet"}
        evs[-1]["post"] = after
        for e in evs:
            e["now"] = self.now_ms()
            e["step"] = action
        self.events.extend(evs)
        if self.on_step is not None:
            self.on_step(self, evs[-1])
        return evs[-1]

    def _empty(self):
        st = {k: {n: [] for n in self.names} for k in ("swarm", "conns", "ips", "circ", "exits", "intro", "rdv", "links", "pex",
                                                         "pexOn", "caches", "cbs")}
        st["dht"] = []
        return st

    def _sent(self, forged=False):
        return [self.sym_sent(r) for r in self.send_log if bool(r["forged"]) == forged]

    def _new_circ(self, n, before, after):
        old = {c["id"] for c in before["circ"][n]}
        return [c for c in after["circ"][n] if c["id"] not in old]

    def _derive(self, action, args, before, after):
        sent = self._sent()
        evs = []
        if action == "Forge":
            out = []
            for m in self._sent(forged=True):
                key = json.dumps(m, sort_keys=True)
                if key in self.sent_ever:
                    out.append(dict(a="Skip"))        # a copy of a message that exists already: not a forgery
                else:
                    self.sent_ever.add(key)
                    out.append(dict(a="Forge", m=m, b=args.get("b") or self.NOBLOB))
            return out or [dict(a="Skip")]
        for m in sent:
            self.sent_ever.add(json.dumps(m, sort_keys=True))
        if action in ("JoinSwarm", "LeaveSwarm"):
            return [dict(a=action, **args)]
        if action == "CreateIntroPoint":
            new = self._new_circ(args["n"], before, after)
            if not new:
                return [dict(a="Skip")]
            return [dict(a=action, n=args["n"], ih=args["ih"], c=new[0]["id"], req=new[0]["req"])]
        if action == "Discovery":
            evs = self._lookup_events(args["n"], before, after, sent)
            if evs:
                return evs
        if action == "HsTimeout":
            n, k, ident = args["n"], args["k"], args["id"]
            if k == "ip":
                return [dict(a="IPTimeout", n=n, id=ident)]
            if k == "rp":
                return [dict(a="RPTimeout", n=n, id=ident)]
            if k == "peers":
                rest = [m for m in sent if m["t"] not in ("PQ", "PQs")]
                return [dict(a="PeersTimeout", n=n, id=ident, new=self._new_e2e(sent), sent=rest)] + \
                    self._lookup_events(n, self._ips_after_timeout(n, before, args.get("tgt")), after, sent)
            return [dict(a="QuietTimeout", n=n, k=k, id=ident)]
        for h in self.handler_log:
            name, m = self.sym_received(h)
            if name in ("OnEstablishIntro", "OnEstablishRendezvous", "OnLinkE2E", "OnPeersRequestCell") and \
                    h["cid"] in self.ov[h["n"]].circuits and h["cid"] not in self.ov[h["n"]].exit_sockets:
                name = "WrongEnd"
            e = dict(a=name, n=h["n"], m=m)
            if name == "OnRendezvousEstablished":
                cd = [s for s in sent if s["t"] == "CD"]
                e["e2"], e["tag"] = (cd[0]["e2"], cd[0]["tag"]) if cd else (0, 0)
            elif name in ("OnCreateE2ECirc", "OnCreatedE2E"):
                new = self._new_circ(h["n"], before, after)
                e["c"] = new[0]["id"] if new else 0
                if name == "OnCreateE2ECirc":
                    e["req"] = new[0]["req"] if new else "none"
            elif name in ("OnPeersRequestCell", "OnPeersRequestSock"):
                pr = [x for x in sent if x["t"] == "PR"]
                e["ps"] = pr[0]["peers"] if pr else []
            elif name == "OnPeersResponse":
                e["new"] = self._new_e2e(sent)
                # do_peer_discovery goes on with its next swarm in the same step
                more = self._lookup_events(h["n"], before, after, sent)
                if more:
                    e["sent"] = [m for m in sent if m["t"] not in ("PQ", "PQs")]
                    evs.append(e)
                    evs.extend(more)
                    return evs
            evs.append(e)
        if evs:
            evs[-1]["sent"] = sent
            return evs
        evs = self._env_events(before, after, sent)
        if not evs:
            if action == "Tick" or (before == after and not sent):
                # nothing the specification can see happened and the projection is the one already compared: no event
                self.quiet_steps += 1
                return []
            evs = [dict(a="Skip")]
        evs[-1]["sent"] = sent
        return evs

    def _ips_after_timeout(self, n, before, tgt):
        """(the introduction point a timed-out request removed is not 'aged' by a following lookup)"""
        if tgt is None:
            return before
        b = dict(before)
        b["ips"] = dict(before["ips"])
        b["ips"][n] = [i for i in before["ips"][n] if i != tgt]
        return b

    def _new_e2e(self, sent):
        return [{"node": s["to"], "pk": s["pk"], "id": s["id"], "e1": s["e1"], "c": s["src"][1]} for s in sent if s["t"] == "CE"]

    def _lookup_events(self, n, before, after, sent):
        """do_peer_discovery of node n went through its swarms: one Lookup per swarm that was looked up"""
        ov = self.ov[n]
        per = {}
        for s in sent:
            if s["t"] in ("PQ", "PQs"):
                cache = next((c for c in ov.request_cache._identifiers.values()
                              if type(c).__name__ == "PeersRequestCache" and self.idn(c.number) == s["id"]), None)
                tgt = cache.target if cache is not None else None
                per.setdefault(s["ih"], {"reqs": [], "sent": []})
                per[s["ih"]]["reqs"].append({"node": self.name_of_peer(tgt.peer) if tgt is not None else "none",
                                             "pk": self.keyn(tgt.seeder_pk) if tgt is not None else 0, "id": s["id"],
                                             "c": s["c"] if s["t"] == "PQ" else s["src"][1], "cell": s["t"] == "PQ"})
                per[s["ih"]]["sent"].append(s)
        gone = [i for i in before["ips"][n] if i not in after["ips"][n]]
        for i in gone:
            per.setdefault(i["ih"], {"reqs": [], "sent": []})
        ready = any(c["ct"] == "DATA" and c["st"] == "ready" for c in before["circ"][n])
        evs = []
        for ih in [self.ih_name(h) for h in ov.swarms if self.ih_name(h) in per] + [h for h in per if self.IH.get(h) not in ov.swarms]:
            reqs = per[ih]["reqs"]
            dht = any(r["node"] == "none" for r in reqs) if reqs else not ready
            evs.append(dict(a="Lookup", n=n, ih=ih, aged=[i for i in gone if i["ih"] == ih], reqs=reqs, dhtmode=dht,
                            sent=per[ih]["sent"]))
        return evs

    def _env_events(self, before, after, sent):
        """what the circuit layer did in this step, as far as the hidden-services specification sees it"""
        evs = []
        for n in self.names:
            b = {c["id"]: c for c in before["circ"][n]}
            a = {c["id"]: c for c in after["circ"][n]}
            for c, rec in a.items():
                if c not in b:
                    if rec["ct"] != "DATA":
                        evs.append(dict(a="Unexplained", what="circuit %s of type %s appeared" % (c, rec["ct"])))
                    evs.append(dict(a="DataCircuit", n=n, c=c, req=rec["req"]))
        for n in self.names:
            b = {e["id"]: e for e in before["exits"][n]}
            a = {e["id"]: e for e in after["exits"][n]}
            for c in a:
                if c not in b:
                    evs.append(dict(a="ExitNew", n=n, c=c))
            for c, rec in a.items():
                old = b.get(c, {"en": False, "cl": False})
                if rec["en"] and not old["en"]:
                    evs.append(dict(a="ExitEnable", n=n, c=c))
                was = before.get("_removals", {}).get(n, {}).get(str(c), 0)
                now = after.get("_removals", {}).get(n, {}).get(str(c), 0)
                if (rec["cl"] and not old["cl"]) or now > was:
                    # remove_exit_socket was called (again): the hidden-services tables forget the circuit (again)
                    evs.append(dict(a="ExitClose", n=n, c=c))
            for c, rec in b.items():
                if c not in a:
                    evs.append(dict(a="ExitPop" if rec["cl"] else "ExitConvert", n=n, c=c))
        for n in self.names:
            b = {c["id"]: c for c in before["circ"][n]}
            a = {c["id"]: c for c in after["circ"][n]}
            for c, rec in a.items():
                old = b.get(c)
                was = old["st"] if old else "new"
                if rec["st"] in ("ready", "closing") and was == "new" and rec["x"] != "none":
                    msg = next((s for s in sent if s["t"] in ("EI", "ER", "LK") and s["c"] == c), None)
                    evs.append(dict(a="CircuitReady", n=n, c=c, x=rec["x"], id=msg["id"] if msg else 0,
                                    ck=msg.get("ck", 0) if msg else 0))
                    was = "ready"
                if rec["st"] == "closing" and was != "closing":
                    evs.append(dict(a="CircClose", n=n, c=c))
            for c, rec in b.items():
                if c not in a:
                    if rec["st"] != "closing":
                        evs.append(dict(a="CircClose", n=n, c=c))
                    evs.append(dict(a="CircPop", n=n, c=c))
        for n in self.names:
            gone = {l[0] for l in before["links"][n]} - {l[0] for l in after["links"][n]}
            for c in sorted(gone):
                evs.append(dict(a="RelayGone", n=n, c=c))
        return evs

    # ------------------------------------------------------------------ API steps
    def join_swarm(self, n, ih, seeding):
        ov = self.ov[n]
        info_hash = self.IH[ih]

        def callback(addr, n=n, ih=ih):
            self.cb_log.append((n, ih, self.cid(ov.ip_to_circuit_id(addr[0]))))
        self.loop.call(ov.join_swarm, info_hash, 1, callback, seeding)
        self._settle()
        sw = ov.swarms[info_hash]
        k = self.keyn(sw.seeder_sk.pub().key_to_bin()) if sw.seeder_sk else 0
        return self.log("JoinSwarm", n=n, ih=ih, seeding=bool(seeding), k=k)

    def leave_swarm(self, n, ih):
        self.loop.call(self.ov[n].leave_swarm, self.IH[ih])
        return self.log("LeaveSwarm", n=n, ih=ih)

    def create_intro(self, n, ih):
        ov = self.ov[n]
        self.loop.call(lambda: asyncio.ensure_future(ov.create_introduction_point(self.IH[ih])))
        return self.log("CreateIntroPoint", n=n, ih=ih)

    def discovery_pending(self, n):
        """do_peer_discovery of node n is waiting for answers"""
        ov = self.ov[n]
        return any(type(c).__name__ == "PeersRequestCache" and not c.future.done() for c in ov.request_cache._identifiers.values())

    def peer_discovery(self, n):
        ov = self.ov[n]
        if self.discovery_pending(n):
            return None
        self.loop.call(lambda: asyncio.ensure_future(ov.do_peer_discovery()))
        return self.log("Discovery", n=n)

    def api_remove_circuit(self, n, spec_cid, destroy=True):
        ov = self.ov[n]
        self.loop.call(ov.remove_circuit, self.real_cid(spec_cid), "driver", False, 1 if destroy else False)
        return self.log("RemoveCircuit", n=n, c=spec_cid)

    # ------------------------------------------------------------------ timers
    def _idle(self, n):
        return super()._idle(n) and not self.ov[n].swarms

    def identify_timer(self, h):
        fut = h._args[0] if h._args else None
        task = None
        for t in asyncio.all_tasks(self.loop):
            if getattr(t, "_fut_waiter", None) is fut:
                task = t
                break
        kinds = {"IPRequestCache": "ip", "RPRequestCache": "rp", "PeersRequestCache": "peers", "E2ERequestCache": "e2e",
                 "LinkRequestCache": "link"}
        if task is not None:
            for nm in self.names:
                ov = self.ov[nm]
                for key, t in list(ov.request_cache._pending_tasks.items()):
                    if t is task and type(key).__name__ in kinds:
                        tgt = getattr(key, "target", None)
                        return ("HsTimeout", {"n": nm, "k": kinds[type(key).__name__], "id": self.idn(key.number),
                                              "tgt": {"ih": self.ih_name(key.info_hash), "node": self.name_of_peer(tgt.peer),
                                                      "pk": self.keyn(tgt.seeder_pk)} if tgt is not None else None})
                for key, t in list(ov._pending_tasks.items()):
                    if t is task and key == "do_peer_discovery":
                        if self.discovery_pending(nm):
                            return ("Noop", {"what": "discovery still waiting"})
                        return ("Discovery", {"n": nm})
        return super().identify_timer(h)

    # ------------------------------------------------------------------ a participant on the path fabricates messages
    NOBLOB = {"tag": 0, "ok": False, "e1": 0, "e2": 0, "st": 0, "ck": 0, "rp": "none"}

    def _exit_real(self, x, spec_cid):
        ov = self.ov[x]
        for rc in ov.exit_sockets:
            if self.ccid(rc) == spec_cid:
                return rc
        raise KeyError(("exit socket", x, spec_cid))

    def _some_number(self, owner, mode, not_kind):
        """an identifier for a forged answer: 'unknown' (nobody waits for it) or 'other' (the owner of the circuit waits for
        it, but with a request of another kind)"""
        if mode == "other":
            kinds = {"IPRequestCache": "ip", "RPRequestCache": "rp", "PeersRequestCache": "peers", "E2ERequestCache": "e2e",
                     "LinkRequestCache": "link"}
            for cache in self.ov[owner].request_cache._identifiers.values():
                k = kinds.get(type(cache).__name__)
                if k is not None and k != not_kind:
                    return cache.number
        while True:
            num = self.rng.randrange(1, 65536)
            if num not in self.id_map and num not in self.id_owner:
                return num

    def forge_reply(self, x, spec_cid, kind, mode="unknown"):
        """the node at the end of circuit spec_cid answers something nobody asked: kind in IE / RE / LD / PR"""
        ov = self.ov[x]
        rc = self._exit_real(x, spec_cid)
        owner = next(n for n in self.names if any(self.cid(c) == spec_cid for c in self.ov[n].circuits))
        num = self._some_number(owner, mode, {"IE": "ip", "RE": "rp", "LD": "link", "PR": "peers"}[kind])
        pl = self.pl
        payload = {"IE": lambda: pl.IntroEstablishedPayload(rc, num),
                   "RE": lambda: pl.RendezvousEstablishedPayload(rc, num, self.nodes[x].address),
                   "LD": lambda: pl.LinkedE2EPayload(rc, num),
                   "PR": lambda: pl.PeersResponsePayload(rc, num, self.IH[1], [])}[kind]()
        self.forging = True
        try:
            self.loop.call(ov.send_cell, ov.exit_sockets[rc].hop.address, payload)
        finally:
            self.forging = False
        return self.log("Forge")

    def forge_link(self, d, spec_cid, cookie=None):
        """the owner of circuit spec_cid asks its far end to link it with a cookie (None: one nobody established)"""
        ov = self.ov[d]
        circuit = ov.circuits[self.real_cid(spec_cid)]
        ck = cookie if cookie is not None else self.rng.randbytes(20)
        num = self._some_number(d, "unknown", "link")
        self.forging = True
        try:
            self.loop.call(ov.send_cell, circuit.hop.address, self.pl.LinkE2EPayload(circuit.circuit_id, num, ck))
        finally:
            self.forging = False
        return self.log("Forge")

    def forge_created(self, index, mode):
        """the exit node of the downloader's data circuit sends a variant of a created-e2e it has relayed:
        'relabel' (another identifier: that of another e2e request of the downloader if there is one), 'junk' (the opaque
        part replaced by random bytes)"""
        d, real_c, data = self.seen_cd[index % len(self.seen_cd)]
        ov = self.ov[d]
        circuit = ov.circuits[real_c]
        x = self.name_of_peer(circuit.hops[-1].peer)
        ovx = self.ov[x]
        p, _ = ov.serializer.unpack_serializable(self.pl.CreatedE2EPayload, data, offset=23)
        ident, key, auth, enc = p.identifier, p.key, p.auth, p.rp_info_enc
        b = None
        if mode == "relabel":
            others = [c.number for c in ov.request_cache._identifiers.values()
                      if type(c).__name__ == "E2ERequestCache" and c.number != ident]
            ident = others[0] if others else self._some_number(d, "unknown", "e2e")
        else:
            auth, enc = self.rng.randbytes(len(auth)), self.rng.randbytes(len(enc))
            b = dict(self.NOBLOB, tag=self.tagn(auth, enc))
        rc = self._exit_real(x, self.cid(real_c))
        sock = ovx.exit_sockets[rc]
        payload = self.pl.CreatedE2EPayload(ident, key, auth, enc)
        packet = ovx.ezr_pack(payload.msg_id, payload, sig=False)
        origin = self.nodes[x].address
        self.forging = True
        try:
            self.send_log.append({"n": x, "how": "tunnel", "payload": payload, "circuit": sock, "dest": None, "forged": True,
                                  "cd_for": self.cid(real_c)})
            self.loop.call(ovx.send_data, sock.hop.address, rc, ("0.0.0.0", 0), origin, packet)
        finally:
            self.forging = False
        return self.log("Forge", b=b)
