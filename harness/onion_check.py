"""Shared runner for the four tunnel properties (C04, C05, C08, C09): model checking of Onion.tla configurations,
spec-level negative controls, recorded-trace families validated against OnionTrace.tla, scripted scenarios."""
from __future__ import annotations

import copy
import itertools

from . import onion_runs as R
from .tlc import MachineryError, run_tlc


def model_check(ctx, cfgs, timeout=3000):
    for cfg in cfgs:
        r = run_tlc("OnionMC.tla", cfg, timeout=timeout)
        if not r.ok:
            raise MachineryError("Onion.tla %s: TLC reports %s on the specification itself\n%s" % (
                cfg, r.violated, [lbl for lbl, _ in r.error_trace][-12:]))
        ctx.add_tlc(cfg.replace(".cfg", ""), r)


class Background:
    """TLC model-checking runs started at the beginning of a check and collected at its end (they are separate JVMs;
    the recordings and trace validations proceed meanwhile)"""

    def __init__(self, cfgs, controls=(), timeout=3000, workers=6):
        from concurrent.futures import ThreadPoolExecutor
        self.pool = ThreadPoolExecutor(max_workers=4)
        self.mc = [(cfg, self.pool.submit(run_tlc, "OnionMC.tla", cfg, timeout=timeout, workers=workers)) for cfg in cfgs]
        self.ctl = [(cfg, exp, name, self.pool.submit(run_tlc, "OnionMC.tla", cfg, coverage=False, timeout=timeout, workers=2))
                    for cfg, exp, name in controls]

    def collect(self, ctx):
        for cfg, exp, name, fut in self.ctl:
            r = fut.result()
            ctx.control(name, (not r.ok) and (r.violated == exp or exp in (r.violated or "")))
        for cfg, fut in self.mc:
            r = fut.result()
            if not r.ok:
                raise MachineryError("Onion.tla %s: TLC reports %s on the specification itself" % (cfg, r.violated))
            ctx.add_tlc(cfg.replace(".cfg", ""), r)
        self.pool.shutdown()


def spec_controls(ctx, controls, timeout=3000):
    for cfg, expected, name in controls:
        r = run_tlc("OnionMC.tla", cfg, coverage=False, timeout=timeout)
        ctx.control(name, (not r.ok) and (r.violated == expected or expected in (r.violated or "")))


def short(ev):
    return {k: v for k, v in ev.items() if k != "post"}


def report_rejection(ctx, pid, traces, r, where, family, topology=None, hdr=None, kw=None):
    """a recorded execution of the real nodes is not a behaviour of Onion.tla / breaks one of its properties"""
    tid, l = where if where else (None, None)
    tr = traces[tid - 1] if isinstance(tid, int) and 0 < tid <= len(traces) else None
    if tr is None:
        ctx.violation("trace:%s:?" % r.violated, "TLC rejected a recorded execution (%s) but the position could not be read"
                      % r.violated, {"family": family, "tlc_tail": r.output[-1500:]})
        return
    if r.violated == "TraceAccepted":
        ev = tr["events"][l - 1]
        sig = "trace:step-not-allowed:%s" % ev["a"]
        desc = ("real TunnelCommunity nodes took a step that Onion.tla does not allow: event %d %s of %s/%s seed %s"
                % (l, short(ev), tr["topology"], tr["profile"], tr["seed"]))
    else:
        ev = tr["events"][max(0, l - 2)]
        sig = "trace:%s:%s" % (r.violated, ev["a"])
        desc = ("recorded execution violates %s after event %d %s of %s/%s seed %s"
                % (r.violated, l - 1, short(ev), tr["topology"], tr["profile"], tr["seed"]))
    diff = None
    if r.violated == "TraceAccepted" and topology and hdr:
        try:
            diff = R.explain(tr, topology, hdr, l, **(kw or {}))
        except Exception as exc:  # noqa: BLE001
            diff = {"note": "no diff available: %r" % (exc,)}
        desc += "; spec vs real: %s" % (str(diff)[:1500])
    ctx.violation(sig, desc, {"family": family, "spec_vs_real": diff, "topology": tr["topology"], "profile": tr["profile"], "seed": tr["seed"],
                              "event_index": l, "events_before": [short(e) for e in tr["events"][max(0, l - 8):l]],
                              "failing_event_post": tr["events"][min(l, len(tr["events"])) - 1].get("post")})


def check_escapes(ctx, w, tr, family):
    for esc in w.escaped:
        ctx.violation("escape:%s@%s" % (esc["exc"], esc["site"]),
                      "an exception escaped the receive path while a datagram was delivered: %s" % esc,
                      {"family": family, "topology": tr["topology"], "profile": tr["profile"], "seed": tr["seed"],
                       "events": [short(e) for e in tr["events"][-6:]]})


def validate_family(ctx, pid, traces, topology, hdr, family, nontrivial_actions, **kw):
    if not traces:
        return True
    ok, r, where = R.validate(traces, topology, hdr, **kw)
    ctx.add_tlc("trace:" + family, r)
    nev = sum(len(t["events"]) for t in traces)
    ctx.evaluated(nev)
    if ok:
        gone = [t["aborted"] for t in traces if t.get("aborted")]
        if gone:
            raise MachineryError("scripted scenario of %s stopped early (%s) although Onion.tla accepts every recorded event: "
                                 "the script's assumption does not hold on this tree" % (family, gone[0]))
        ctx.traces(len(traces))
        for t in traces:
            acts = tuple(e["a"] for e in t["events"])
            if any(a in nontrivial_actions for a in acts):
                ctx.nontrivial((family, t["topology"], tuple((e["a"], e.get("id"), e.get("cid"), e.get("n")) for e in t["events"])))
    else:
        report_rejection(ctx, pid, traces, r, where, family, topology, hdr, kw)
    return ok


def random_family(ctx, pid, topology, profile, seeds, steps, nontrivial_actions, settings=None, goals=(1, 2, 3),
                  dual_stack=False, **kw):
    traces, hdr = [], None
    for seed in seeds:
        tr, w = R.random_run(topology, seed, profile, steps, settings=settings, goals=goals, dual_stack=dual_stack)
        check_escapes(ctx, w, tr, "%s/%s" % (topology, profile))
        traces.append(tr)
        hdr = w.header()
    fam = "%s/%s" % (topology, profile)
    ok = validate_family(ctx, pid, traces, topology, hdr, fam, nontrivial_actions, **kw)
    if traces:
        ctx.sample({"family": fam, "seed": traces[0]["seed"], "first_events": [short(e) for e in traces[0]["events"][:12]]})
    return ok, traces, hdr


def corrupted_copy(traces, mutate):
    """a copy of the first trace with one logged fact altered (trace-level negative control)"""
    last = None
    for src in traces:            # the first recorded execution that contains the fact to alter
        t = copy.deepcopy(src)
        try:
            mutate(t)
        except RuntimeError as exc:
            last = exc
            continue
        return [t]
    raise MachineryError("no recorded execution contains the fact the negative control alters: %s" % last)


def trace_control(ctx, name, traces, topology, hdr, mutate, **kw):
    bad = corrupted_copy(traces, mutate)
    ok, r, _ = R.validate(bad, topology, hdr, **kw)
    ctx.control(name, not ok)


# ---------------------------------------------------------------------------------------------------------
# scripted building blocks
# ---------------------------------------------------------------------------------------------------------
def build(w, o, goal, until=None):
    """create a circuit and deliver FIFO until it is ready (or `until(world)` says stop); returns spec cid"""
    ev = w.create_circuit(o, goal)
    if ev is None:
        raise MachineryError("could not create a circuit in the scripted scenario")
    cid = max(c["cid"] for c in ev["post"]["circ"][o])
    for _ in range(200):
        if until is not None and until(w):
            break
        if not w.net.inflight:
            break
        w.deliver(w.net.inflight[0].seq)
    return cid


def guarded(w, fn, *a, **k):
    """run a scripted scenario; if the real nodes lose an object the script relies on, stop there (the recorded events,
    including the step that lost it, are validated as usual). Returns the reason or None."""
    from .onion import Gone
    try:
        fn(*a, **k)
    except Gone as exc:
        return str(exc)
    return None


def nested_walk(w, goals=(2, 1)):
    """two circuits of one originator carry data; then hosts outside send the exits' outside sockets datagrams that are
    tunnel-community data messages naming every circuit id in use (OutsideNested); data flows again afterwards"""
    cids = [build(w, "o", g) for g in goals]
    # (only circuits that got ready carry data: with few relays a second long circuit may not find a path)
    ready = {c["cid"] for c in w.project()["circ"]["o"] if not c["closing"] and len(c["hops"]) == c["goal"]}
    cids = [c for c in cids if c in ready]
    for i, c in enumerate(cids):
        w.send_data("o", c, i + 1)
    while w.net.inflight:
        w.deliver(w.net.inflight[0].seq)
    known = sorted(set(w.cid_map.values()))
    for n in w.names:
        for e in w.project()["exit"][n]:
            if not e["open"]:
                continue
            for target in known:
                w.outside_nested(n, e["cid"], target)
                while w.net.inflight:
                    w.deliver(w.net.inflight[0].seq)
    for i, c in enumerate(cids):
        w.send_data("o", c, len(cids) + i + 1)      # (payloads are numbered in sending order)
    while w.net.inflight:
        w.deliver(w.net.inflight[0].seq)


def subsets(items, upto):
    for k in range(0, upto + 1):
        yield from itertools.combinations(items, k)


def replay_file(ctx, pid, path, nontrivial):
    """--replay <file>: re-executes the recorded scenario of a VIOLATION (seeded random families are regenerated from their
    seed, which reproduces the same steps on the same tree) and lets TLC judge it again; returns True if it was handled"""
    import json
    with open(path, encoding="utf-8") as f:
        rec = json.load(f).get("replay") or {}
    topo, prof, seed = rec.get("topology"), rec.get("profile"), rec.get("seed")
    if topo in R.TOPOLOGIES and prof in R.PROFILES and isinstance(seed, int):
        steps = max(300, int(rec.get("event_index") or 0) + 50)
        tr, w = R.random_run(topo, seed, prof, steps, max_circuits=6 if rec.get("family") == "six-circuits" else 3)
        check_escapes(ctx, w, tr, "replay:%s/%s" % (topo, prof))
        validate_family(ctx, pid, [tr], topo, w.header(), "replay:%s/%s" % (topo, prof), nontrivial)
        ctx.sample({"replayed": {"topology": topo, "profile": prof, "seed": seed, "events": len(tr["events"])}})
        return True
    return False
