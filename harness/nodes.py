"""Real overlays with their DEFAULT settings on the simulated network."""
from __future__ import annotations

from ipv8.keyvault.crypto import default_eccrypto
from ipv8.peer import Peer
from ipv8.peerdiscovery.network import Network

from . import vloop as _vloop


class Node:
    """One host: endpoint (+ optional TunnelEndpoint wrapper, as ipv8_service builds it), Network, key, overlays."""

    def __init__(self, net, key=None, wiring="plain", nat=None, ip=None, port=None, curve="curve25519"):
        self.net = net
        self.sim_endpoint = net.endpoint(ip=ip, port=port, nat=nat)
        self.endpoint = self.sim_endpoint
        if wiring == "tunnel":
            from ipv8.messaging.anonymization.endpoint import TunnelEndpoint
            self.endpoint = TunnelEndpoint(self.sim_endpoint)
        self.address6 = None
        if wiring == "dual":
            # a dual-stack host as ipv8_service builds it: a DispatcherEndpoint over an IPv4 and an IPv6 interface
            from ipv8.messaging.interfaces.dispatcher.endpoint import DispatcherEndpoint
            self.sim_endpoint6 = net.endpoint(ip="fd00::%x" % net.next_host, port=port)
            disp = DispatcherEndpoint([])
            disp.interfaces = {"UDPIPv4": self.sim_endpoint, "UDPIPv6": self.sim_endpoint6}
            disp.interface_order = ["UDPIPv4", "UDPIPv6"]
            disp._preferred_interface = self.sim_endpoint
            self.endpoint = disp
            self.address6 = self.sim_endpoint6.addr
        self.network = Network()
        self.key = key or default_eccrypto.generate_key(curve)
        self.address = self.sim_endpoint.addr
        self.my_peer = Peer(self.key, self.address)
        self.overlays = []

    def add(self, overlay_cls, **settings):
        s = overlay_cls.settings_class(my_peer=self.my_peer, endpoint=self.endpoint, network=self.network)
        for k, v in settings.items():
            setattr(s, k, v)
        ov = overlay_cls(s)
        ov.my_estimated_lan = self.address
        ov.my_estimated_wan = self.address if self.sim_endpoint.nat is None else ("0.0.0.0", 0)
        self.overlays.append(ov)
        _vloop.patch_ipv8_time(self.net.loop)
        return ov

    @property
    def overlay(self):
        return self.overlays[0]


def introduce_all(nodes, overlay_index=0):
    """Everybody walks to everybody (real introduction requests over the simulated wire)."""
    for a in nodes:
        for b in nodes:
            if a is not b:
                a.overlays[overlay_index].walk_to(b.address)
