"""G02 - worlds for the DHT crawl / node maintenance checks: one real DHTCommunity under test on the simulated network
(manual delivery, virtual clock) surrounded by puppet nodes with real keys whose answers the harness fabricates and signs.

Nodes are named by their rank of closeness to the crawl target (1 = closest), computed here with our own arithmetic
(crc32 prefix of the masked address + sha1 of the public key, XOR with the target)."""
from __future__ import annotations

import asyncio
import binascii
import hashlib
import heapq
import socket

from . import nodes, vloop
from .simnet import SimNet
from .tlc import FrozenDict, MachineryError


class VLoop(vloop.VLoop):      # the class name is what vloop.patch_ipv8_time recognises
    """Virtual clock that only moves when the driver fires a timer.  Every timer gets its own deadline (a microsecond
    later per timer created), ordered like the calls that created them, so find requests time out one by one in the
    order they were sent, and between two time-outs the driver can still deliver datagrams."""
    EPS = 1e-6

    def __init__(self, *a, **k):
        super().__init__(*a, **k)
        self._nth = 0

    def call_at(self, when, callback, *args, **kw):
        self._nth += 1
        return super().call_at(when + self._nth * self.EPS, callback, *args, **kw)

    def next_timer(self):
        while self._scheduled and self._scheduled[0]._cancelled:
            heapq.heappop(self._scheduled)._scheduled = False
        return self._scheduled[0] if self._scheduled else None

    def fire_next_timer(self):
        """jump to the earliest pending timer, run it and everything that becomes ready (no later timer fires)"""
        h = self.next_timer()
        if h is None:
            raise MachineryError("no timer pending")
        self._vt = max(self._vt, h._when)
        self.call_soon(self.stop)
        self.run_forever()          # one iteration: moves the due timer to the ready queue and runs it
        self.settle()


_LOOPS = {}
CRAWLS = []          # every Crawl object the code under test creates (observation from the harness side)
_SPIED = False


def get_loop(kind="tick"):
    if kind not in _LOOPS:
        _LOOPS[kind] = VLoop() if kind == "tick" else vloop.VLoop()
    loop = _LOOPS[kind]
    vloop.install(loop)
    return loop


def spy_crawls():
    global _SPIED
    if _SPIED:
        return
    from ipv8.dht import community
    orig = community.Crawl.__init__

    def init(self, *a, **k):
        orig(self, *a, **k)
        # what the routing table offered when the crawl was created: every node that is not BAD
        self._g02_rt = [n.public_key.key_to_bin() for bucket in self.routing_table.trie.values()
                        for n in list(bucket.nodes.values()) if n.status != 0]
        CRAWLS.append(self)
    community.Crawl.__init__ = init
    _SPIED = True


class KeyGen:
    """deterministic curve25519 keys (the whole check is a function of VERIF_SEED)"""

    def __init__(self, label):
        import random
        self.rng = random.Random("g02-%s" % (label,))

    def __call__(self):
        from ipv8.keyvault.crypto import default_eccrypto
        return default_eccrypto.key_from_private_bin(b"LibNaCLSK:" + self.rng.randbytes(64))


def own_node_id(address, public_key_bin):
    ip = socket.inet_aton(address[0])
    masked = bytes(b & m for b, m in zip(ip, b"\x03\x0f\x3f\xff"))
    crc = binascii.crc32(masked) % (2 ** 32)
    return crc.to_bytes(4, "big")[:3] + hashlib.sha1(public_key_bin).digest()[:17]


def xor_int(a, b):
    return int.from_bytes(a, "big") ^ int.from_bytes(b, "big")


class Escape(Exception):
    def __init__(self, where, exc):
        super().__init__("%s: %r" % (where, exc))
        self.where, self.exc = where, exc


class Puppets:
    """N nodes with real keys on one simulated network; they never answer by themselves."""

    def __init__(self, n, target, loop_kind="tick", seed=0):
        from ipv8.dht.community import DHTCommunity
        self.keygen = KeyGen("puppets-%d-%d" % (n, seed))
        self.loop = get_loop(loop_kind)
        self.net = SimNet(self.loop, auto=False)
        self.target = target
        spy_crawls()
        self.DHTCommunity = DHTCommunity
        self.crawler_node = None
        raw = []
        for _ in range(n):
            nd = nodes.Node(self.net, key=self.keygen())
            ov = nd.add(DHTCommunity)
            ov.cancel_all_pending_tasks()
            raw.append((nd, ov))
        keyed = sorted(raw, key=lambda t: xor_int(own_node_id(t[0].address, t[0].my_peer.public_key.key_to_bin()), target))
        self.n = n
        self.node = {r + 1: keyed[r][0] for r in range(n)}
        self.ov = {r + 1: keyed[r][1] for r in range(n)}
        self.pk = {r: self.node[r].my_peer.public_key.key_to_bin() for r in self.node}
        self.id = {r: own_node_id(self.node[r].address, self.pk[r]) for r in self.node}
        d = [xor_int(self.id[r], target) for r in range(1, n + 1)]
        if len(set(d)) != n or d != sorted(d):
            raise MachineryError("puppet distances are not strictly ordered")
        self.rank_of_addr = {tuple(self.node[r].address): r for r in self.node}
        self.rank_of_pk = {self.pk[r]: r for r in self.node}
        self.rank_of_id = {self.id[r]: r for r in self.node}
        self.crawler_key = None
        self.crawler_addr = None

    def token(self, r):
        return bytes([r]) * 20

    def value(self, v):
        return b"\x00" + b"value-%d" % v          # DHT_ENTRY_STR + StrPayload (unsigned value)

    def value_id(self, data):
        if not data.startswith(b"value-"):
            raise MachineryError("unknown value %r" % (data,))
        return int(data[6:])

    def dht_node(self, r):
        from ipv8.dht.routing import Node as DhtNode
        return DhtNode(self.pk[r], self.node[r].address)

    def decode(self, cls, data):
        """our own unpacking of a signed DHT message (signature verified with the library's primitive)"""
        from ipv8.messaging.payload_headers import BinMemberAuthenticationPayload
        ov = self.ov[1]
        auth, _ = ov.serializer.unpack_serializable(BinMemberAuthenticationPayload, data, offset=23)
        ok, rem = ov._verify_signature(auth, data)
        if not ok:
            raise MachineryError("datagram with a bad signature on the simulated wire")
        return auth.public_key_bin, ov.serializer.unpack_serializable_list([cls], rem, offset=23)[0]

    def fresh_crawler(self, cancel_tasks=True):
        """a new real DHTCommunity (same key and address every time, so the same node id)"""
        if self.crawler_node is not None:
            old = self.crawler_node.overlay
            old.cancel_all_pending_tasks()
            old.request_cache.cancel_all_pending_tasks()
            self.crawler_node.endpoint.close()
        if self.crawler_key is None:
            nd = nodes.Node(self.net, key=self.keygen())
            self.crawler_key, self.crawler_addr = nd.key, tuple(nd.address)
        else:
            nd = nodes.Node(self.net, key=self.crawler_key, ip=self.crawler_addr[0], port=self.crawler_addr[1])
        ov = nd.add(self.DHTCommunity)
        if cancel_tasks:
            ov.cancel_all_pending_tasks()      # maintenance runs are explicit actions
        self.crawler_node = nd
        self.net.inflight.clear()
        return ov

    def send_from(self, r, payload_cls, payload):
        """puppet r signs and sends one message to the node under test; the handler runs inside this call"""
        data = self.ov[r].ezr_pack(payload_cls.msg_id, payload)
        dg = self.net.inject(self.node[r].address, self.crawler_addr, data)
        try:
            self.net.deliver(dg)
        except Exception as e:  # noqa: BLE001
            raise Escape("delivery of %s from node %d" % (payload_cls.__name__, r), e) from e


class CrawlRun:
    """One find_values / find_nodes call of a fresh real DHTCommunity, driven action by action."""

    def __init__(self, world, consts=None):
        from ipv8.dht import community
        self.w = world
        self.community = community
        self.consts = consts or {}
        self.saved = {k: getattr(community, k) for k in ("MAX_CRAWL_NODES", "MAX_CRAWL_REQUESTS", "MAX_CRAWL_TASKS")}
        self.ov = world.fresh_crawler()
        self.fut = None
        self.mode = "values"
        self.crawl = None
        self.outst = []          # dict(to, kind, task, ident)  in the order seen on the wire
        self.launched = []       # (n, p)
        self.sent = []           # task nodes of direct requests, in order
        self.nreq = 0
        self.store = None        # dict(to, vals, tok, ident)
        self.store_sent = 0
        self.unexpected = []

    # ---- constants of the code under test (module globals read at call time)
    def _set_consts(self):
        for k, name in (("MaxInit", "MAX_CRAWL_NODES"), ("MaxReq", "MAX_CRAWL_REQUESTS"), ("MaxTasks", "MAX_CRAWL_TASKS")):
            if k in self.consts:
                setattr(self.community, name, self.consts[k])

    def close(self):
        for k, v in self.saved.items():
            setattr(self.community, k, v)
        if self.fut is not None and not self.fut.done():
            self.fut.cancel()
        self.ov.cancel_all_pending_tasks()
        self.ov.request_cache.cancel_all_pending_tasks()
        try:
            self.w.loop.settle()
        except Exception:  # noqa: BLE001
            pass
        self.w.net.inflight.clear()

    def _settle(self, where):
        try:
            self.w.loop.settle()
        except Exception as e:  # noqa: BLE001
            raise Escape(where, e) from e
        self._collect()

    def _collect(self):
        from ipv8.dht.payload import FindRequestPayload, StoreRequestPayload
        w = self.w
        while w.net.inflight:
            dg = w.net.inflight.popleft()
            to = w.rank_of_addr.get(tuple(dg.dst))
            mid = dg.data[22]
            if to is None:
                self.unexpected.append("datagram to unknown address %s" % (dg.dst,))
            elif mid == FindRequestPayload.msg_id:
                _pk, pl = w.decode(FindRequestPayload, dg.data)
                if pl.target == w.target:
                    kind, task = "find", to
                else:
                    kind, task = "punct", w.rank_of_id.get(pl.target, -1)
                want_force = self.mode == "nodes"
                if bool(pl.force_nodes) != want_force or (kind == "find" and pl.offset != 0):
                    self.unexpected.append("find request with force_nodes=%s offset=%s" % (pl.force_nodes, pl.offset))
                self.outst.append({"to": to, "kind": kind, "task": task, "ident": pl.identifier})
                self.nreq += 1
                if task not in [n for n, _p in self.launched]:
                    self.launched.append((task, to if kind == "punct" else 0))
                elif kind == "punct":
                    self.unexpected.append("second puncture request for node %d" % task)
                if kind == "find":
                    self.sent.append(task)
            elif mid == StoreRequestPayload.msg_id:
                _pk, pl = w.decode(StoreRequestPayload, dg.data)
                self.store_sent += 1
                tok = pl.token
                self.store = {"to": to, "vals": tuple(w.value_id(v[1:]) for v in pl.values),
                              "tok": tok[0] if tok == bytes([tok[0]]) * 20 else -1, "ident": pl.identifier,
                              "target_ok": pl.target == w.target}
            else:
                self.unexpected.append("message id %d to node %d" % (mid, to))

    # ---- actions
    def pause(self):
        pass

    def find(self, rt, mode):
        self.pause()
        self._set_consts()
        self.mode = mode
        probe = self.w.dht_node(1)
        table = self.ov.get_routing_table(probe)
        for r in sorted(rt):
            if table.add(self.w.dht_node(r)) is None:
                raise MachineryError("could not place node %d in the routing table" % r)
        before = len(CRAWLS)
        coro = self.ov.find_values(self.w.target) if mode == "values" else self.ov.find_nodes(self.w.target)
        self.fut = asyncio.ensure_future(coro, loop=self.w.loop)
        self._settle("find_%s" % mode)
        if len(CRAWLS) != before + 1:
            raise MachineryError("expected one Crawl object, saw %d" % (len(CRAWLS) - before))
        self.crawl = CRAWLS[-1]
        del CRAWLS[:]

    def respond(self, i, vals, nodelist):
        from ipv8.dht.payload import FindResponsePayload
        self.pause()
        req = self.outst.pop(i - 1)
        w = self.w
        pl = FindResponsePayload(req["ident"], w.token(req["to"]), [w.value(v) for v in vals],
                                 [w.dht_node(r) for r in nodelist])
        w.send_from(req["to"], FindResponsePayload, pl)
        return req

    def drain(self):
        self.pause()
        self._settle("drain")

    def expire(self):
        """virtual time jumps to the next deadline; which requests are gone afterwards is read from the real cache"""
        self.pause()
        req = self.outst[0]
        cache = self.ov.request_cache
        for _ in range(50):
            if not cache.has("find", req["ident"]):
                break
            try:
                self.w.loop.fire_next_timer()
            except MachineryError:
                raise
            except Exception as e:  # noqa: BLE001
                raise Escape("time-out of a find request", e) from e
        else:
            raise MachineryError("find request does not time out")
        before = list(self.outst)
        self.outst = []
        self._collect()
        self.outst = [r for r in before if cache.has("find", r["ident"])] + self.outst
        return req

    def store_ack(self):
        from ipv8.dht.payload import StoreResponsePayload
        self.pause()
        self.w.send_from(self.store["to"], StoreResponsePayload, StoreResponsePayload(self.store["ident"]))
        self._settle("store response")

    def store_expire(self):
        cache = self.ov.request_cache
        for _ in range(50):
            if not cache.has("store", self.store["ident"]):
                break
            try:
                self.w.loop.fire_next_timer()
            except MachineryError:
                raise
            except Exception as e:  # noqa: BLE001
                raise Escape("time-out of the store request", e) from e
        else:
            raise MachineryError("store request does not time out")
        self._settle("store time-out")

    # ---- projection (the same function for replay and for recorded traces)
    def rank(self, node):
        r = self.w.rank_of_pk.get(node.public_key.key_to_bin())
        if r is None:
            raise MachineryError("node outside the universe")
        return r

    def project(self):
        w = self.w
        p = {}
        if self.fut is None:
            p["phase"] = "idle"
        elif self.fut.done():
            p["phase"] = "done"
        elif self.store is not None and self.ov.request_cache.has("store", self.store["ident"]):
            p["phase"] = "cache"
        else:
            p["phase"] = "run"
        c = self.crawl
        if c is not None:
            p["todo"] = tuple((self.rank(t.node_to_contact), self.rank(t.node_to_puncture) if t.node_to_puncture else 0)
                              for t in c.nodes_todo)
            p["tried"] = frozenset(self.rank(n) for n in c.nodes_tried)
            rs = []
            for sender, resp in c.responses:
                if "values" in resp:
                    rs.append((self.rank(sender), "values", tuple(w.value_id(v[1:]) for v in resp["values"]), ()))
                else:
                    rs.append((self.rank(sender), "nodes", (), tuple(self.rank(n) for n in resp.get("nodes", []))))
            p["responses"] = tuple(rs)
        else:
            p["todo"], p["tried"], p["responses"] = (), frozenset(), ()
        live = {"find:%d" % r["ident"] for r in self.outst}
        real = {k for k in self.ov.request_cache._identifiers if k.startswith("find:")}
        p["outst"] = tuple((r["to"], r["kind"], r["task"]) for r in self.outst)
        p["cache_consistent"] = live <= real     # (futures resolved but not yet drained were popped already)
        p["launched"] = tuple(self.launched)
        p["sent"] = tuple(self.sent)
        p["nreq"] = self.nreq
        if w.n <= 8:
            known = set()
            for table in self.ov.routing_tables.values():
                for b in table.trie.values():
                    known |= {self.rank(n) for n in b.nodes.values()}
            p["known"] = frozenset(known)
        p["stored"] = (self.store["to"], self.store["vals"], self.store["tok"]) if self.store else (0, (), 0)
        if self.store and (not self.store["target_ok"] or self.store_sent != 1):
            p["stored"] = ("bad-store-request", self.store_sent)
        if p["phase"] == "done":
            exc = self.fut.exception() if not self.fut.cancelled() else "cancelled"
            if exc is not None:
                p["result"] = ("exception", repr(exc))
            elif self.mode == "values":
                res = self.fut.result()
                p["result"] = tuple(w.value_id(d) if pk is None else -1 for d, pk in res)
            else:
                p["result"] = tuple(self.rank(n) for n in self.fut.result())
        else:
            p["result"] = ()
        p["unexpected"] = tuple(self.unexpected)
        return p


def spec_crawl_projection(st):
    """TLC state of DhtCrawl.tla -> the shape CrawlRun.project() produces"""
    launched = st["launched"]
    p = {
        "phase": st["phase"],
        "todo": tuple((e["n"], e["p"]) for e in st["todo"]),
        "tried": frozenset(st["tried"]),
        "responses": tuple((r["n"], r["t"], tuple(r["vals"]), tuple(r["nodes"])) for r in st["responses"]),
        "outst": tuple((o["to"], o["kind"], launched[o["k"] - 1]["n"]) for o in st["outst"]),
        "cache_consistent": True,
        "launched": tuple((e["n"], e["p"]) for e in launched),
        "sent": tuple(launched[k - 1]["n"] for k in st["sent"]),
        "nreq": st["nreq"],
        "known": frozenset(st["known"]),
        "stored": (st["stored"]["to"], tuple(st["stored"]["vals"]), st["stored"]["tok"]),
        "result": tuple(st["result"]),
        "unexpected": (),
    }
    return FrozenDict(p)


# =====================================================================================================================
# one routing-table entry at a real serving node (specs/DhtNode.tla)
# =====================================================================================================================
class NodeWorld:
    """A real DHTCommunity S with its PingChurn strategy and one puppet c with a real key.  Plain virtual clock (exact
    arithmetic on whole seconds); maintenance tasks of S are cancelled, take_step is an explicit action."""

    def __init__(self, seed=0):
        from ipv8.dht.community import DHTCommunity
        self.keygen = KeyGen("nodeworld-%d" % seed)
        self.loop = get_loop("plain")
        self.net = SimNet(self.loop, auto=False)
        self.DHTCommunity = DHTCommunity
        self.puppet = nodes.Node(self.net, key=self.keygen())
        self.pov = self.puppet.add(DHTCommunity)
        self.pov.cancel_all_pending_tasks()
        self.pk = self.puppet.my_peer.public_key.key_to_bin()
        self.server_key = None
        self.server_addr = None
        self.server = None

    def fresh_server(self):
        if self.server is not None:
            old = self.server.overlay
            old.cancel_all_pending_tasks()
            old.request_cache.cancel_all_pending_tasks()
            self.server.endpoint.close()
        if self.server_key is None:
            nd = nodes.Node(self.net, key=self.keygen())
            self.server_key, self.server_addr = nd.key, tuple(nd.address)
        else:
            nd = nodes.Node(self.net, key=self.server_key, ip=self.server_addr[0], port=self.server_addr[1])
        ov = nd.add(self.DHTCommunity)
        ov.cancel_all_pending_tasks()
        self.server = nd
        self.net.inflight.clear()
        return ov


class NodeRun:
    KINDS = ("ping", "find")

    def __init__(self, world, consts, unit):
        """consts: the TLC constants of the configuration; unit: seconds per tick"""
        from ipv8.dht import routing
        from ipv8.dht.churn import PingChurn
        self.w = world
        self.c = consts
        self.unit = unit
        self.routing = routing
        self.saved = (routing.NODE_LIMIT_INTERVAL, routing.NODE_LIMIT_QUERIES)
        routing.NODE_LIMIT_INTERVAL = consts["Interval"] * unit
        routing.NODE_LIMIT_QUERIES = consts["Limit"]
        if consts.get("WithPing", True) and (consts["PingTimeout"] * unit != 5 or consts["GoodWindow"] * unit != 900
                                             or consts["MaxFail"] != 2):
            raise MachineryError("the ping time-out (5 s), the 15 minute window and the 2 failures are literals of the code")
        self.ov = world.fresh_server()
        self.churn = PingChurn(self.ov, ping_interval=consts["PingInterval"] * unit)
        self.nq = 0
        self.last = "-"
        self.pings = []          # identifiers of pings seen on the wire, not yet answered (our own record)
        self.lookups = []
        self.unexpected = []
        self.c_id = own_node_id(world.puppet.address, world.pk)

    def close(self):
        self.routing.NODE_LIMIT_INTERVAL, self.routing.NODE_LIMIT_QUERIES = self.saved
        for f in self.lookups:
            f.cancel()
        self.ov.cancel_all_pending_tasks()
        self.ov.request_cache.cancel_all_pending_tasks()
        try:
            self.w.loop.settle()
        except Exception:  # noqa: BLE001
            pass
        self.w.net.inflight.clear()

    # ---- plumbing
    def _settle(self, where):
        try:
            self.w.loop.settle()
        except Exception as e:  # noqa: BLE001
            raise Escape(where, e) from e

    def _wire(self):
        """datagrams S sent since the last call: {message id: [payload bytes]}"""
        out = {}
        while self.w.net.inflight:
            dg = self.w.net.inflight.popleft()
            if tuple(dg.dst) != tuple(self.w.puppet.address):
                self.unexpected.append("datagram to %s" % (dg.dst,))
                continue
            out.setdefault(dg.data[22], []).append(dg.data)
        return out

    def _send(self, data, where):
        dg = self.w.net.inject(self.w.puppet.address, self.w.server_addr, data)
        try:
            self.w.net.deliver(dg)
        except Exception as e:  # noqa: BLE001
            raise Escape(where, e) from e
        self._settle(where)

    def _note_pings(self, wire):
        from ipv8.dht.payload import PingRequestPayload
        from ipv8.messaging.payload_headers import BinMemberAuthenticationPayload
        n = 0
        for data in wire.get(PingRequestPayload.msg_id, []):
            ser = self.w.pov.serializer
            auth, _ = ser.unpack_serializable(BinMemberAuthenticationPayload, data, offset=23)
            ok, rem = self.w.pov._verify_signature(auth, data)
            pl = ser.unpack_serializable_list([PingRequestPayload], rem, offset=23)[0]
            self.pings.append(pl.identifier)
            n += 1
        return n

    def entry(self):
        for table in self.ov.routing_tables.values():
            node = table.get(self.c_id)
            if node is not None:
                return node
        return None

    # ---- actions
    def query(self):
        from ipv8.dht.payload import FindRequestPayload, FindResponsePayload, PingRequestPayload, PingResponsePayload
        kind = self.KINDS[self.nq % len(self.KINDS)]
        self.nq += 1
        ident = 70000 + self.nq
        if kind == "ping":
            data = self.w.pov.ezr_pack(PingRequestPayload.msg_id, PingRequestPayload(ident))
            want = PingResponsePayload.msg_id
        else:
            data = self.w.pov.ezr_pack(FindRequestPayload.msg_id,
                                       FindRequestPayload(ident, self.w.puppet.address, TARGET_ID, 0, False))
            want = FindResponsePayload.msg_id
        self._send(data, "query (%s request)" % kind)
        wire = self._wire()
        answers = len(wire.pop(want, []))
        self._note_pings(wire)
        if wire:
            self.unexpected.append("reaction to a %s request: message ids %s" % (kind, sorted(wire)))
        if answers > 1:
            self.unexpected.append("%d answers to one request" % answers)
        self.last = "served" if answers else "refused"

    def discover(self):
        held = self.entry() is not None
        data = self.w.pov.create_introduction_request(self.w.server_addr)
        self._send(data, "introduction request")
        self.w.pov.request_cache.clear()
        wire = self._wire()
        n = self._note_pings(wire)
        self.last = "discover-ping" if n else ("discover-known" if held else "discover-nothing")

    def churn_step(self):
        before = self.entry()
        try:
            self.churn.take_step()
        except Exception as e:  # noqa: BLE001
            raise Escape("PingChurn.take_step", e) from e
        self._settle("PingChurn.take_step")
        n = self._note_pings(self._wire())
        after = self.entry()
        if before is not None and after is None:
            self.last = "churn-removed"
        elif n:
            self.last = "churn-ping"
        else:
            self.last = "churn-idle"
        if n > 1:
            self.unexpected.append("%d pings in one take_step" % n)

    def lookup(self):
        """S.find_values: the crawl takes its first candidates (the table entries themselves) from the routing table"""
        import asyncio as aio
        fut = aio.ensure_future(self.ov.find_values(TARGET_ID), loop=self.w.loop)
        fut.add_done_callback(lambda f: f.cancelled() or f.exception())
        self.lookups.append(fut)
        self._settle("find_values")
        wire = self._wire()
        from ipv8.dht.payload import FindRequestPayload
        n = len(wire.pop(FindRequestPayload.msg_id, []))
        self._note_pings(wire)
        if n != 1:
            self.unexpected.append("%d find requests for one lookup" % n)
        self.last = "lookup"

    def answer(self, i):
        from ipv8.dht.payload import FindResponsePayload, PingResponsePayload
        live = self.outstanding()
        ident, _age, _stale, tmo = live[i - 1]
        if tmo == self.c["PingTimeout"]:
            data = self.w.pov.ezr_pack(PingResponsePayload.msg_id, PingResponsePayload(ident))
        else:
            data = self.w.pov.ezr_pack(FindResponsePayload.msg_id, FindResponsePayload(ident, b"t" * 20, [], []))
        self._send(data, "response")
        self._note_pings(self._wire())
        self.last = "-"

    def tick(self, d):
        try:
            self.w.loop.advance(d * self.unit)
        except Exception as e:  # noqa: BLE001
            raise Escape("time passing", e) from e
        self._settle("time passing")
        self._note_pings(self._wire())
        self.last = "-"

    # ---- projection
    def outstanding(self):
        """[(identifier, age in ticks, stale, time-out)] oldest first, read from the real request cache"""
        now = self.w.loop.time()
        cur = self.entry()
        rows = []
        for n, (key, cache) in enumerate(self.ov.request_cache._identifiers.items()):
            if key.startswith(("ping:", "find:")):
                rows.append((cache.start_time, n, cache.number, cache.node is not cur, self.age(cache.timeout_delay, 10 ** 9)))
        rows.sort()
        return [(num, self.age(now - t0, 10 ** 9), stale, tmo) for t0, _n, num, stale, tmo in rows]

    def age(self, seconds, cap):
        t = seconds / self.unit
        if abs(t - round(t)) > 1e-6:
            raise MachineryError("a time stamp off the tick grid: %r s" % seconds)
        return min(int(round(t)), cap)

    def project(self):
        c = self.c
        now = self.w.loop.time()
        node = self.entry()
        p = {"held": node is not None, "last": self.last, "unexpected": tuple(self.unexpected)}
        p["innet"] = any(peer.public_key.key_to_bin() == self.w.pk for peer in self.ov.network.verified_peers)
        if node is None:
            p.update(q=(), lq=-1, lr=-1, failed=0, lps=-1, status="none")
        else:
            p["q"] = tuple(self.age(now - t, c["Interval"]) for t in node.last_queries)
            p["lq"] = self.age(now - node.last_queries[-1], c["GoodWindow"]) if node.last_queries else -1
            p["lr"] = self.age(now - node.last_response, c["GoodWindow"]) if node.last_response else -1
            p["failed"] = min(node.failed, c["MaxFail"])
            p["lps"] = self.age(now - node.last_ping_sent, c["PingInterval"]) if node.last_ping_sent else -1
            p["status"] = {2: "GOOD", 1: "UNKNOWN", 0: "BAD"}.get(node.status, "?%r" % (node.status,))
        p["out"] = tuple((a, stale, tmo) for _n, a, stale, tmo in self.outstanding())
        return p


TARGET_ID = bytes(range(40, 60))


def spec_node_projection(st, consts):
    q = tuple(st["q"])
    p = dict(held=st["held"], innet=st["innet"], q=q, lq=st["lq"], lr=st["lr"], failed=st["failed"], lps=st["lps"],
             status=st["status"], last=st["last"], unexpected=(),
             out=tuple((o["age"], o["stale"], o["tmo"]) for o in st["out"]))
    return FrozenDict(p)


# =====================================================================================================================
# find over several routing tables (specs/DhtFind.tla)
# =====================================================================================================================
class FindWorld:
    """A fresh real DHTCommunity with up to two routing tables (IPv4, IPv6), one puppet node per table."""

    def __init__(self, seed=0):
        from ipv8.dht.community import DHTCommunity
        self.keygen = KeyGen("findworld-%d" % seed)
        self.loop = get_loop("tick")
        self.net = SimNet(self.loop, auto=False)
        self.DHTCommunity = DHTCommunity
        self.puppets = [nodes.Node(self.net, key=self.keygen()), nodes.Node(self.net, key=self.keygen(), ip="fd00::7", port=8090)]
        self.povs = [p.add(DHTCommunity) for p in self.puppets]
        for p in self.povs:
            p.cancel_all_pending_tasks()
        self.key = None
        self.addr = None
        self.node = None

    def fresh(self):
        if self.node is not None:
            self.node.overlay.cancel_all_pending_tasks()
            self.node.overlay.request_cache.cancel_all_pending_tasks()
            self.node.endpoint.close()
        if self.key is None:
            nd = nodes.Node(self.net, key=self.keygen())
            self.key, self.addr = nd.key, tuple(nd.address)
        else:
            nd = nodes.Node(self.net, key=self.key, ip=self.addr[0], port=self.addr[1])
        ov = nd.add(self.DHTCommunity)
        ov.cancel_all_pending_tasks()
        self.node = nd
        self.net.inflight.clear()
        return ov

    def run_find(self, tables, debug, mode="values"):
        """tables: tuple of value-id tuples.  -> the projection of what find_values / find_nodes returned"""
        from ipv8.dht.payload import FindRequestPayload, FindResponsePayload
        from ipv8.dht.routing import Node as DhtNode
        from ipv8.messaging.payload_headers import BinMemberAuthenticationPayload
        ov = self.fresh()
        for i in range(len(tables)):
            n = DhtNode(self.puppets[i].my_peer.public_key.key_to_bin(), self.puppets[i].address)
            if ov.get_routing_table(n).add(n) is None:
                raise MachineryError("could not fill routing table %d" % i)
        if len(ov.routing_tables) != len(tables):
            raise MachineryError("expected %d routing tables, the overlay has %d" % (len(tables), len(ov.routing_tables)))
        coro = ov.find_values(TARGET_ID, debug=debug) if mode == "values" else ov.find_nodes(TARGET_ID, debug=debug)
        fut = asyncio.ensure_future(coro, loop=self.loop)
        fut.add_done_callback(lambda f: f.cancelled() or f.exception())
        self.loop.settle()
        by_addr = {tuple(p.address): i for i, p in enumerate(self.puppets)}
        while self.net.inflight:
            dg = self.net.inflight.popleft()
            i = by_addr.get(tuple(dg.dst))
            if i is None or dg.data[22] != FindRequestPayload.msg_id:
                continue            # (a caching store request never appears: every responder has the values or nobody)
            ser = self.povs[i].serializer
            auth, _ = ser.unpack_serializable(BinMemberAuthenticationPayload, dg.data, offset=23)
            _ok, rem = self.povs[i]._verify_signature(auth, dg.data)
            pl = ser.unpack_serializable_list([FindRequestPayload], rem, offset=23)[0]
            vals = [b"\x00" + b"value-%d" % v for v in tables[i]]
            data = self.povs[i].ezr_pack(FindResponsePayload.msg_id, FindResponsePayload(pl.identifier, b"t" * 20, vals, []))
            self.net.deliver(self.net.inject(self.puppets[i].address, self.addr, data))
            self.loop.settle()
        if not fut.done():
            fut.cancel()
            return {"done": False, "ok": False, "values": (), "ncrawls": 0}
        if fut.exception() is not None:
            return {"done": True, "ok": False, "values": (), "ncrawls": 0, "exception": repr(fut.exception())}
        res = fut.result()
        crawls = 0
        try:
            if debug:
                res, cr = res
                crawls = len(cr) if all(type(c).__name__ == "Crawl" for c in cr) else -1
            if mode == "values":
                vals = tuple(int(d[6:]) if pk is None and d.startswith(b"value-") else -1 for d, pk in res)
            else:
                pks = [p.my_peer.public_key.key_to_bin() for p in self.puppets]
                vals = tuple(101 + pks.index(n.public_key.key_to_bin()) for n in res)
        except Exception as e:  # noqa: BLE001
            return {"done": True, "ok": False, "values": (), "ncrawls": 0, "exception": "malformed result: %r" % (e,)}
        return {"done": True, "ok": True, "ncrawls": crawls, "values": vals}
