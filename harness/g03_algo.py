"""G03: a transparent identity algorithm for driving AttestationCommunity state by state.

The wallet overlay (community.py + caches.py) is generic over IdentityAlgorithm.  For the replay of TLC state graphs
the cryptography is irrelevant (C18 covers it), but the SHAPE of the data matters: blobs of a chosen size (number of
800 byte chunks), a chosen number of challenges, deterministic honest answers, honesty checks.  The "encryption" of
this algorithm is nominal: an attestation carries the per-challenge answers of its value in the clear, a response is
the answer when the secret key matches the attested public key and 3 ("not one of 0, 1, 2") otherwise."""
from __future__ import annotations

import hashlib
import itertools
import os

from ipv8.attestation.identity_formats import Attestation, IdentityAlgorithm

FORMAT = "g03_stub"
_nonce = itertools.count(1)
MADE = []            # every blob attest() produced, in order of creation (harness bookkeeping)


def _pad(seed, n):
    out = b""
    i = 0
    while len(out) < n:
        out += hashlib.sha256(seed + i.to_bytes(4, "big")).digest()
        i += 1
    return out[:n]


class StubPK:
    def __init__(self, kid):
        self.kid = kid

    def serialize(self):
        return b"PK" + self.kid


class StubSK:
    def __init__(self, kid=None):
        self.kid = kid or os.urandom(8)

    def public_key(self):
        return StubPK(self.kid)

    def serialize(self):
        return b"SK" + self.kid


class StubAttestation(Attestation):
    def __init__(self, PK, ans, nonce, size, id_format=FORMAT):  # noqa: N803
        self.PK = PK
        self.ans = list(ans)
        self.nonce = nonce
        self.size = size
        self.id_format = id_format

    def serialize(self):
        head = b"ATT" + self.PK.kid + self.nonce + bytes([len(self.ans)]) + bytes(self.ans) + self.size.to_bytes(4, "big")
        return head + _pad(head, max(0, self.size - len(head)))

    def serialize_private(self, PK):  # noqa: N803
        return self.serialize()

    @classmethod
    def unserialize(cls, s, id_format):
        if s[:3] != b"ATT":
            raise ValueError("not a stub attestation")
        kid, nonce, n = s[3:11], s[11:19], s[19]
        ans = list(s[20:20 + n])
        size = int.from_bytes(s[20 + n:24 + n], "big")
        att = cls(StubPK(kid), ans, nonce, size, id_format)
        if att.serialize() != s:
            raise ValueError("malformed stub attestation")
        return att

    @classmethod
    def unserialize_private(cls, SK, s, id_format):  # noqa: N803
        return cls.unserialize(s, id_format)


class StubAlgorithm(IdentityAlgorithm):
    def __init__(self, id_format, formats):
        super().__init__(id_format, formats)
        self.honesty_check = True
        self.size = formats[id_format]["size"]

    def generate_secret_key(self):
        return StubSK()

    def load_secret_key(self, serialized):
        return StubSK(serialized[2:])

    def load_public_key(self, serialized):
        return StubPK(serialized[2:])

    def get_attestation_class(self):
        return StubAttestation

    def attest(self, PK, value):  # noqa: N803
        blob = StubAttestation(PK, list(value), next(_nonce).to_bytes(8, "big"), self.size, self.id_format).serialize()
        MADE.append(blob)
        return blob

    def certainty(self, value, aggregate):
        want = {k: 0 for k in range(4)}
        for a in value:
            want[a] += 1
        return 1.0 if all(aggregate.get(k, 0) == want[k] for k in range(4)) else 0.0

    def create_challenges(self, PK, attestation):  # noqa: N803
        return [b"C" + next(_nonce).to_bytes(8, "big") + bytes([j]) for j in range(len(attestation.ans))]

    def create_challenge_response(self, SK, attestation, challenge):  # noqa: N803
        if challenge[:1] == b"H":
            return bytes([challenge[-1]])
        j = challenge[-1]
        ok = challenge[:1] == b"C" and SK.kid == attestation.PK.kid and j < len(attestation.ans)
        return bytes([attestation.ans[j] if ok else 3])

    def create_certainty_aggregate(self, attestation):
        return {0: 0, 1: 0, 2: 0, 3: 0}

    def create_honesty_challenge(self, PK, value):  # noqa: N803
        return b"H" + next(_nonce).to_bytes(8, "big") + bytes([value])

    def process_honesty_challenge(self, value, response):
        return response[0] == value

    def process_challenge_response(self, aggregate, challenge, response):
        aggregate[response[0]] += 1
        return aggregate

    def import_blob(self, blob):
        raise NotImplementedError


def register(overlay, nchunks):
    """Make the stub format known to one AttestationCommunity (its own SchemaManager instance)."""
    overlay.schema_manager.algorithms["g03_stub"] = StubAlgorithm
    overlay.schema_manager.formats[FORMAT] = {"algorithm": "g03_stub", "size": (nchunks - 1) * 800 + 120}
