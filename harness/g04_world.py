"""G04 - real objects behind specs/Lifecycle.tla: one real ipv8_service.IPv8 built by its own __init__ from a
configuration dictionary, real Community overlays, recording strategies, under the step-mode loop.

One spec action = one call below; every call runs the loop until nothing is ready (drain), i.e. every task advances to
its next await.  The ticker only continues when the driver fires its sleep timer (Wake); an overlay's unload coroutine
only proceeds when the driver opens its gate (UnloadRun) - the gate is an extra await in front of the REAL unload."""
from __future__ import annotations

import asyncio
import base64
import warnings

from . import vloop

_CLASSES = {}
_KEYS = {}


class RecEndpoint:
    """Built lazily (needs ipv8 imported): an Endpoint that sends nowhere and remembers its life cycle."""
    cls = None

    @classmethod
    def make(cls):
        if cls.cls is None:
            from ipv8.messaging.interfaces.endpoint import Endpoint

            class _RecEndpoint(Endpoint):
                def __init__(self):
                    super().__init__()
                    self.state = "unopened"
                    self.opens = self.closes = 0
                    self.sent = []

                def assert_open(self):
                    assert self.state == "open"

                def is_open(self):
                    return self.state == "open"

                def get_address(self):
                    return ("127.0.0.1", 1)

                def send(self, socket_address, packet):
                    self.sent.append((socket_address, bytes(packet)))

                async def open(self):
                    self.opens += 1
                    self.state = "open"
                    return True

                def close(self, timeout=0.0):
                    self.closes += 1
                    self.state = "closed"

                def reset_byte_counters(self):
                    pass
            cls.cls = _RecEndpoint
        return cls.cls()


def overlay_class(o):
    """One Community subclass per overlay id (distinct community_id), made once."""
    if o not in _CLASSES:
        from ipv8.community import Community
        from ipv8.peerdiscovery.discovery import DiscoveryStrategy

        class Rec(DiscoveryStrategy):
            def __init__(self, overlay, sid, world, raises=False):
                super().__init__(overlay)
                self.sid, self.world, self.raises = sid, world, raises

            def take_step(self):
                self.world.steps.append(self.sid)
                if self.raises:
                    raise RuntimeError("take_step of strategy %d is broken (on purpose)" % self.sid)

        def hook(self, arg):
            state = getattr(self.endpoint, "state", None) or ("open" if self.endpoint.is_open() else "not-open")
            self.g04_world.hooks.append((arg, state))

        def get_available_strategies(self):
            return {"Rec": Rec}

        _CLASSES[o] = type("Ov%d" % o, (Community,), {"community_id": bytes([0x40 + o]) * 20, "hook": hook,
                                                        "get_available_strategies": get_available_strategies,
                                                        "g04_world": None, "Rec": Rec})
    return _CLASSES[o]


def key(name):
    if name not in _KEYS:
        from ipv8.keyvault.crypto import default_eccrypto
        _KEYS[name] = default_eccrypto.generate_key("curve25519")
    return _KEYS[name]


class SvcWorld:
    def __init__(self, loop, consts, raising=(1,)):
        """consts: Ov, ConfOv, St, ConfSt, OvOf{}, Target{}, WI, MaxPeers"""
        import ipv8_service
        from ipv8.peer import Peer
        self.loop = loop
        loop._ready.clear()
        loop._scheduled.clear()
        self.c = consts
        self.steps = []
        self.hooks = []
        self.ucalls = {o: 0 for o in consts["Ov"]}
        self.gates = {}
        self.done = {o: False for o in consts["Ov"]}
        self.tasks = []
        self.problems = []
        self.raising = set(raising)
        self.ep = RecEndpoint.make()
        self.stop_task = None
        self.started = False
        self.anon = None
        classes = {"Ov%d" % o: overlay_class(o) for o in consts["Ov"]}
        conf = {"logger": {"level": "CRITICAL"},
                "keys": [{"alias": "k", "bin": base64.b64encode(key("me").key_to_bin()).decode(), "file": ""}],
                "interfaces": [{"interface": "UDPIPv4", "ip": "127.0.0.1", "port": 0}],
                "walker_interval": float(consts["WI"]),
                "overlays": [{"class": "Ov%d" % o, "key": "k",
                              "walkers": [{"strategy": "Rec", "peers": consts["Target"][s],
                                           "init": {"sid": s, "world": self, "raises": s in self.raising}}
                                          for s in consts["ConfSt"] if consts["OvOf"][s] == o],
                              "bootstrappers": [], "initialize": {}, "on_start": [("hook", o)]}
                             for o in consts["ConfOv"]]}
        self.ipv8 = loop.call(ipv8_service.IPv8, conf, endpoint_override=self.ep, extra_communities=classes)
        self.inst = {}
        for o, inst in zip(consts["ConfOv"], self.ipv8.overlays):
            self.inst[o] = inst
        for o in consts["Ov"]:
            if o not in self.inst:     # a "fresh" overlay: exists, not registered with the service
                cl = classes["Ov%d" % o]
                self.inst[o] = loop.call(cl, cl.settings_class(my_peer=self.ipv8.keys["k"], endpoint=self.ep,
                                                               network=self.ipv8.network))
        self.strat = {}
        for (strategy, _t) in self.ipv8.strategies:
            self.strat[strategy.sid] = strategy
        for s in consts["St"]:
            if s not in self.strat:
                ov = self.inst[consts["OvOf"][s]]
                self.strat[s] = type(ov).Rec(ov, s, self, raises=s in self.raising)
        for o, inst in self.inst.items():
            inst.g04_world = self
            self._gate(o, inst)
        self.peerobjs = {o: [Peer(key("p%d.%d" % (o, i)).pub(), ("10.%d.0.%d" % (o, i + 1), 7000))
                             for i in range(consts["MaxPeers"])] for o in consts["Ov"]}
        self.npeers = {o: 0 for o in consts["Ov"]}
        loop.drain()

    # ------------------------------------------------------------------ plumbing
    def _gate(self, o, inst):
        real = inst.unload
        world = self

        def unload():
            world.ucalls[o] += 1
            fut = world.loop.create_future()
            world.gates.setdefault(o, []).append(fut)

            async def run():
                await fut
                await real()
                world.done[o] = True
            return run()
        inst.unload = unload

    def _spawn(self, coro):
        t = self.loop.call(asyncio.ensure_future, coro)
        self.tasks.append(t)
        self.loop.drain()
        return t

    def _ticker_timer(self):
        task = self.ipv8.state_machine_task
        if task is None or task.done():
            return None
        fw = task._fut_waiter
        for h in self.loop.timers():
            if h._args and h._args[0] is fw:
                return h
        return None

    # ------------------------------------------------------------------ spec actions
    def act(self, name, args):
        self.steps.clear()
        getattr(self, "a_" + name)(*args)
        for t in self.tasks:
            if t.done() and not t.cancelled() and t.exception() is not None:
                self.problems.append("%s raised %r" % (name, t.exception()))
        self.tasks = [t for t in self.tasks if not t.done()]

    def a_Start(self):
        self.started = True
        self._spawn(self.ipv8.start())

    def a_Wake(self):
        h = self._ticker_timer()
        if h is None:
            self.problems.append("Wake: the ticker task is not sleeping on a timer")
            return
        self.loop.fire_timer(h)
        self.loop.drain()

    def a_AddStrategy(self, s):
        self.ipv8.add_strategy(self.inst[self.c["OvOf"][s]], self.strat[s], self.c["Target"][s])
        self.loop.drain()

    def a_UnloadOverlay(self, o):
        self._spawn(self.loop.call(self.ipv8.unload_overlay, self.inst[o]))

    def a_UnloadRun(self, o):
        for fut in self.gates.get(o, []):
            if not fut.done():
                fut.set_result(None)
        self.loop.drain()

    def a_Stop(self):
        self.stop_task = self._spawn(self.ipv8.stop())

    def a_SetPeers(self, o, k):
        net = self.ipv8.network
        cid = type(self.inst[o]).community_id
        while self.npeers[o] < k:
            p = self.peerobjs[o][self.npeers[o]]
            net.add_verified_peer(p)
            net.discover_services(p, [cid])
            self.npeers[o] += 1
        while self.npeers[o] > k:
            self.npeers[o] -= 1
            net.remove_peer(self.peerobjs[o][self.npeers[o]])

    def a_ProduceAnon(self):
        t = self._spawn(self.ipv8.produce_anonymized_endpoint())
        if not t.done() or t.exception() is not None:
            self.problems.append("produce_anonymized_endpoint did not complete: %r" % (t,))
            return
        self.anon = t.result()
        from ipv8.messaging.anonymization.endpoint import TunnelEndpoint
        if not isinstance(self.anon, TunnelEndpoint):
            self.problems.append("produce_anonymized_endpoint returned %r" % (self.anon,))
        elif self.anon is self.ipv8.endpoint or self.anon.endpoint is self.ep:
            self.problems.append("produce_anonymized_endpoint returned the service's own endpoint")
        elif getattr(self.anon.endpoint, "_ip", None) != "127.0.0.1":
            self.problems.append("anonymized endpoint bound to %r, the configured UDPIPv4 interface is 127.0.0.1"
                                 % (getattr(self.anon.endpoint, "_ip", None),))

    # ------------------------------------------------------------------ projection
    def project(self):
        ipv8 = self.ipv8
        ids = {id(v): k for k, v in self.inst.items()}
        sids = {id(v): k for k, v in self.strat.items()}
        overlays = tuple(ids.get(id(x), "?") for x in ipv8.overlays)
        strategies = tuple(sids.get(id(s), "?") for s, _t in ipv8.strategies)
        for s, t in ipv8.strategies:
            if id(s) in sids and t != self.c["Target"][sids[id(s)]]:
                self.problems.append("strategy %d registered with target %r" % (sids[id(s)], t))
        ovst = []
        for o in sorted(self.inst):
            inst = self.inst[o]
            listening = inst in self.ep._listeners or any(inst in ls for ls in self.ep._prefix_map.values())
            if o in overlays:
                st = "loaded" if listening and not inst._shutdown else "loaded-but-dead"
            elif self.done[o]:
                st = "unloaded" if inst._shutdown and not listening else "unloaded-but-alive"
            elif self.ucalls[o]:
                st = "unloading"
            else:
                st = "fresh"
            ovst.append(st)
        task = ipv8.state_machine_task
        if task is None:
            tkst = "none"
        elif task.done():
            tkst = "dead"
        else:
            h = self._ticker_timer()
            if h is None:
                tkst = "not-sleeping"
            else:
                tkst = "idle" if abs((h._when - self.loop.time()) - float(self.c["WI"])) < 1e-9 else "mid"
        if self.stop_task is not None:
            svc = "stopped" if self.stop_task.done() else "stopping"
        else:
            svc = "running" if self.started else "new"
        hooks = tuple(a for a, _st in self.hooks)
        for a, st in self.hooks:
            if st != "open":
                self.problems.append("on_start hook of overlay %r ran while the endpoint was %s" % (a, st))
        if self.ep.opens > 1 or self.ep.closes > 1:
            self.problems.append("endpoint opened %d times, closed %d times" % (self.ep.opens, self.ep.closes))
        anon = "none" if self.anon is None else ("open" if self.anon.endpoint.is_open() else "closed")
        return {"overlays": overlays, "strategies": strategies, "ovst": tuple(ovst),
                "ucalls": tuple(self.ucalls[o] for o in sorted(self.ucalls)),
                "peers": tuple(len(self.inst[o].get_peers()) for o in sorted(self.inst)),
                "ep": self.ep.state, "svc": svc, "tkst": tkst, "steps": tuple(self.steps), "hooks": hooks,
                "anon": anon}

    def close(self):
        with warnings.catch_warnings():
            warnings.simplefilter("ignore")
            if self.anon is not None:
                try:
                    self.loop.call(self.anon.endpoint.close)
                except Exception:  # noqa: BLE001
                    pass
            task = self.ipv8.state_machine_task
            for t in list(self.tasks) + ([task] if task is not None else []) + \
                    ([self.stop_task] if self.stop_task is not None else []):
                if not t.done():
                    t.cancel()
            for inst in self.inst.values():
                for t in list(inst._pending_tasks.values()):
                    try:
                        t.cancel()
                    except Exception:  # noqa: BLE001
                        pass
            try:
                self.loop.drain()
            except Exception:  # noqa: BLE001
                pass
            self.loop._ready.clear()
            self.loop._scheduled.clear()


def spec_view(st):
    """TLC state of Lifecycle.tla -> the keys the projection has."""
    def tup(v):
        return tuple(v[k] for k in sorted(v)) if isinstance(v, dict) else tuple(v)
    return {"overlays": tuple(st["overlays"]), "strategies": tuple(st["strategies"]), "ovst": tup(st["ovst"]),
            "ucalls": tup(st["ucalls"]), "peers": tup(st["peers"]), "ep": st["ep"], "svc": st["svc"],
            "tkst": st["tk"]["st"], "steps": tuple(st["steps"]), "hooks": tuple(st["hooks"]), "anon": st["anon"]}


def new_loop():
    return vloop.install(vloop.StepLoop(start=vloop.EPOCH))
