"""Virtual-time asyncio loops.

VLoop   (run mode)  : time() is virtual; when nothing is ready the clock jumps to the next timer.
StepLoop (step mode): the driver runs exactly one ready handle or fires exactly one timer at a time, which makes
                      'same loop iteration' races enumerable.
install(loop) replaces time.time by the loop clock, also in every ipv8 module that did `from time import time`.
"""
from __future__ import annotations

import asyncio
import heapq
import sys
import time as _time_mod
from asyncio import events

_REAL_TIME = _time_mod.time
EPOCH = 1_000_000.0


class VLoop(asyncio.SelectorEventLoop):
    def __init__(self, start=EPOCH):
        super().__init__()
        self._vt = start

    def time(self):
        return self._vt

    def _run_once(self):
        if not self._ready and self._scheduled:
            while self._scheduled and self._scheduled[0]._cancelled:
                h = heapq.heappop(self._scheduled)
                h._scheduled = False
            if self._scheduled and self._scheduled[0]._when > self._vt:
                self._vt = self._scheduled[0]._when
        super()._run_once()

    def advance(self, seconds):
        """Run everything that becomes due within `seconds` of virtual time (including newly created timers)."""
        end = self._vt + seconds

        async def _sleep():
            await asyncio.sleep(end - self._vt)
        self.run_until_complete(_sleep())

    def settle(self, max_iter=100000):
        """Run ready callbacks until the ready queue is empty; the clock does not move, future timers do not fire."""
        for _ in range(max_iter):
            if not self._ready:
                return
            self.call_soon(self.stop)
            self.run_forever()
        raise RuntimeError("settle: ready queue does not empty")


class StepLoop(asyncio.SelectorEventLoop):
    def __init__(self, start=0.0):
        super().__init__()
        self._vt = start

    def time(self):
        return self._vt

    # -- inspection
    def ready_handles(self):
        return [h for h in self._ready if not h._cancelled]

    def timers(self):
        return sorted((h for h in self._scheduled if not h._cancelled), key=lambda h: h._when)

    # -- stepping
    def _run_handle(self, h):
        events._set_running_loop(self)
        try:
            h._run()
        finally:
            events._set_running_loop(None)

    def fire_timer(self, handle=None):
        """Advance the clock to the (given or earliest) timer and run exactly that timer's callback."""
        while self._scheduled and self._scheduled[0]._cancelled:
            heapq.heappop(self._scheduled)._scheduled = False
        if handle is None:
            handle = heapq.heappop(self._scheduled)
        else:
            self._scheduled.remove(handle)
            heapq.heapify(self._scheduled)
        handle._scheduled = False
        self._vt = max(self._vt, handle._when)
        if not handle._cancelled:
            self._run_handle(handle)

    def run_ready(self, handle=None):
        """Run exactly one ready handle (the first one by default)."""
        if handle is None:
            handle = self._ready.popleft()
        else:
            self._ready.remove(handle)
        if not handle._cancelled:
            self._run_handle(handle)

    def drain(self, limit=100000):
        """Run ready handles until none is left (timers do not fire, the clock does not move)."""
        n = 0
        while self._ready:
            self.run_ready()
            n += 1
            if n > limit:
                raise RuntimeError("drain: ready queue does not empty")

    def call(self, fn, *a, **k):
        """Call fn as if from inside the running loop (so get_running_loop / ensure_future work)."""
        events._set_running_loop(self)
        try:
            return fn(*a, **k)
        finally:
            events._set_running_loop(None)

    def advance_to(self, when):
        """Fire every timer due at or before `when` (in deadline order), draining ready handles in between."""
        self.drain()
        while True:
            ts = self.timers()
            if not ts or ts[0]._when > when:
                break
            self.fire_timer(ts[0])
            self.drain()
        self._vt = max(self._vt, when)


def install(loop):
    """Make `loop` the event loop and the wall clock of ipv8."""
    asyncio.set_event_loop(loop)
    _time_mod.time = loop.time
    patch_ipv8_time(loop)
    try:
        import ipv8.overlay as ov
        ov.get_providers = lambda: []   # LAN address discovery would start executor threads
    except Exception:  # noqa: BLE001
        pass
    return loop


def patch_ipv8_time(loop):
    for name, mod in list(sys.modules.items()):
        if name.startswith("ipv8") and mod is not None:
            t = getattr(mod, "time", None)
            if t is _REAL_TIME or getattr(t, "__self__", None).__class__.__name__ in ("VLoop", "StepLoop"):
                try:
                    mod.time = loop.time
                except Exception:  # noqa: BLE001
                    pass


def uninstall():
    _time_mod.time = _REAL_TIME
    for name, mod in list(sys.modules.items()):
        if name.startswith("ipv8") and mod is not None:
            t = getattr(mod, "time", None)
            if getattr(t, "__self__", None).__class__.__name__ in ("VLoop", "StepLoop"):
                mod.time = _REAL_TIME
