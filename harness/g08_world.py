"""G08 - the real endpoint stack driven action by action (binding R of specs/EndpointStack.tla).

A World is one stack   [StatisticsEndpoint ->] [DispatcherEndpoint ->] interface(s)   built from the real classes:
  kind "fake": the interfaces are recording subclasses of the real Endpoint base class (real listener registry, real
               notify_listeners; send records instead of transmitting),
  kind "udp" : real UDPEndpoint / UDPv6Endpoint on loopback sockets under a real asyncio loop; peer sockets of the harness
               play the remote side (what left an interface = what a peer socket received, from which source port).
Nothing in /repo is patched: the state is read from the objects (_listeners, _prefix_map, _running, _transport, byte
counters, statistics), arrivals are seen by an instance attribute over datagram_received."""
from __future__ import annotations

import asyncio
import os
import select
import socket

from .tlc import FrozenDict, MachineryError

IFNAME = {"v4": "UDPIPv4", "v6": "UDPIPv6"}
PFX = {"p1": b"\x00\x02" + b"1" * 20, "p2": b"\x00\x02" + b"2" * 20, "px": b"\x00\x02" + b"x" * 20}
PFX_NAME = {v: k for k, v in PFX.items()}
LAN_STUB = ["192.168.7.7", "fd00::7"]


def payload(p, m, s):
    body = PFX[p] + bytes([m]) + b"z" * 64
    return body[:s]


def count_socket_fds():
    n = 0
    for fd in os.listdir("/proc/self/fd"):
        try:
            if os.readlink("/proc/self/fd/" + fd).startswith("socket:"):
                n += 1
        except OSError:
            pass
    return n


class Harness:
    """One event loop and one pair of peer sockets shared by every world of a run."""

    def __init__(self):
        self.loop = asyncio.new_event_loop()
        self.peer4 = socket.socket(socket.AF_INET, socket.SOCK_DGRAM)
        self.peer4.bind(("127.0.0.1", 0))
        self.peer4.setblocking(False)
        self.peer6 = socket.socket(socket.AF_INET6, socket.SOCK_DGRAM)
        self.peer6.bind(("::1", 0))
        self.peer6.setblocking(False)
        self.run(asyncio.sleep(0))
        self.baseline = count_socket_fds()
        self.port_fallbacks = 0       # opens that found their port taken
        import ipv8.messaging.interfaces.endpoint as epmod
        self._epmod = epmod
        self._orig_lan = epmod.get_lan_addresses
        epmod.get_lan_addresses = lambda: list(LAN_STUB)     # outside the unit under test: no provider threads

    def run(self, coro):
        return self.loop.run_until_complete(coro)

    def drain(self, wait=0.0):
        """-> list of (family, source port, data) that reached the peer sockets."""
        out = []
        if wait:
            select.select([self.peer4, self.peer6], [], [], wait)
        for fam, s in (("v4", self.peer4), ("v6", self.peer6)):
            while True:
                try:
                    data, src = s.recvfrom(70000)
                except BlockingIOError:
                    break
                out.append((fam, src[1], data))
        return out

    def close(self):
        self._epmod.get_lan_addresses = self._orig_lan
        self.peer4.close()
        self.peer6.close()
        self.loop.run_until_complete(asyncio.sleep(0))
        self.loop.close()


def make_classes():
    """The classes of the harness that derive from the real base classes (imported late: after setup_repo_path)."""
    from ipv8.messaging.interfaces.endpoint import Endpoint, EndpointClosedException, EndpointListener

    class Recorder(EndpointListener):
        def __init__(self, endpoint, name):
            super().__init__(endpoint)
            self.name = name
            self.got = []

        def on_packet(self, packet):
            self.got.append(packet)

    class FakeInterface(Endpoint):
        """Recording interface: the real listener registry, an open/closed flag, a list instead of a socket."""
        ADDRESS = ("10.0.0.4", 4000)

        def __init__(self, **kwargs):
            super().__init__()
            self.kwargs = kwargs
            self.state = "new"
            self.sent = []
            self.bytes_up = 0
            self.bytes_down = 0

        def assert_open(self):
            if self.state != "open":
                raise EndpointClosedException(self)

        def is_open(self):
            return self.state == "open"

        def get_address(self):
            self.assert_open()
            return self.ADDRESS

        def send(self, socket_address, packet):
            self.assert_open()
            self.sent.append((socket_address, packet))
            self.bytes_up += len(packet)

        async def open(self):
            self.state = "open"
            return True

        def close(self):
            if self.state == "open":
                self.state = "closed"

        def reset_byte_counters(self):
            self.bytes_up = 0
            self.bytes_down = 0

        def datagram_received(self, datagram, addr):
            if self.state == "open":
                self.bytes_down += len(datagram)
                self.notify_listeners((addr, datagram))

    class FakeInterface6(FakeInterface):
        ADDRESS = ("fd00::6", 6000)
        SOCKET_FAMILY = socket.AF_INET6

    return Recorder, FakeInterface, FakeInterface6


def free_port(family, host):
    """A currently free port with head-room for the endpoint's own port fallback (port + 1, + 2, ...)."""
    for _ in range(50):
        with socket.socket(family, socket.SOCK_DGRAM) as probe:
            probe.bind((host, 0))
            port = probe.getsockname()[1]
        if port < 64000:
            return port
    raise MachineryError("no free UDP port below 64000")


def drive_sync(x):
    """close() of the stack is awaited by its callers but never suspends: step it without turning the loop."""
    if asyncio.iscoroutine(x):
        try:
            x.send(None)
        except StopIteration as e:
            return e.value
        x.close()
        raise MachineryError("close() of the endpoint stack suspended")
    return x


class World:
    def __init__(self, har, kind, stack, consts):
        from ipv8.messaging.interfaces.dispatcher import endpoint as dmod
        from ipv8.messaging.interfaces.endpoint import EndpointClosedException
        from ipv8.messaging.interfaces.statistics_endpoint import StatisticsEndpoint
        from ipv8.messaging.interfaces.udp.endpoint import (DomainAddress, UDPEndpoint, UDPv4Address, UDPv4LANAddress,
                                                           UDPv6Address)
        self.har = har
        self.kind = kind
        self.stack = stack                       # "disp" | "stats-disp" | "bare" | "stats-bare"
        self.consts = consts
        self.Closed = EndpointClosedException
        self.ifnames = sorted(consts["Ifaces"])
        self.with_stats_spec = consts["WithStats"]
        Recorder, Fake4, Fake6 = make_classes()
        self.problems = []
        names = [IFNAME[i] for i in self.ifnames]
        if "bare" in stack:
            if self.ifnames != ["v4"]:
                raise MachineryError("a bare stack has exactly the IPv4 interface")
            ep = Fake4() if kind == "fake" else UDPEndpoint(port=free_port(socket.AF_INET, "127.0.0.1"), ip="127.0.0.1")
            self.disp = None
            self.ifaces = {"v4": ep}
            below = ep
        else:
            if kind == "fake":
                saved = dict(dmod.INTERFACES)
                dmod.INTERFACES.update({"UDPIPv4": Fake4, "UDPIPv6": Fake6})
                try:
                    self.disp = dmod.DispatcherEndpoint(list(reversed(names)), UDPIPv4={"tag": 4})
                finally:
                    dmod.INTERFACES.clear()
                    dmod.INTERFACES.update(saved)
                if "v4" in self.ifnames and self.disp.interfaces["UDPIPv4"].kwargs != {"tag": 4}:
                    self.problems.append("interface launch arguments are not handed to the interface class")
            else:
                self.disp = dmod.DispatcherEndpoint(
                    list(reversed(names)), UDPIPv4={"port": free_port(socket.AF_INET, "127.0.0.1"), "ip": "127.0.0.1"},
                    UDPIPv6={"port": free_port(socket.AF_INET6, "::1"), "ip": "::1"})
            self.ifaces = {i: self.disp.interfaces[IFNAME[i]] for i in self.ifnames}
            if set(self.disp.interfaces) != set(names):
                self.problems.append("dispatcher loaded %s, asked for %s" % (sorted(self.disp.interfaces), names))
            below = self.disp
        self.stats = StatisticsEndpoint(below) if stack.startswith("stats") else None
        self.top = self.stats or below
        self.listeners = {l: Recorder(self.top, l) for l in sorted(consts["Listeners"])}
        self.sockets = {i: [] for i in self.ifnames}
        self.first_port = {}
        self.nopen = 0
        self.ports_seen = {i: set() for i in self.ifnames}
        self.wire_bytes = {i: 0 for i in self.ifnames}
        self.arrived = 0
        self._last_sent = None
        self._last_payload = None
        if kind == "udp":
            for i, ep in self.ifaces.items():
                orig = ep.datagram_received

                def spy(data, addr, orig=orig):
                    self.arrived += 1
                    return orig(data, addr)
                ep.datagram_received = spy          # instance attribute: the transport looks the handler up on the object
        p4, p6 = har.peer4.getsockname()[1], har.peer6.getsockname()[1]
        if kind == "fake":
            p4, p6, h4, h6 = 4444, 6666, "1.2.3.4", "2001:db8::6"
        else:
            h4, h6 = "127.0.0.1", "::1"
        self.addr = {"c4": UDPv4Address(h4, p4), "t4": (h4, p4), "lan4": UDPv4LANAddress(h4, p4),
                     "c6": UDPv6Address(h6, p6), "t6": (h6, p6),
                     "dom": DomainAddress("localhost", p4), "junk": ("not-an-ip", p4)}

    # ------------------------------------------------------------------------------------------ actions
    def step(self, name, args):
        """Execute one action of the specification; -> the observable outcome (the fields of `last` that are observable)."""
        for l in self.listeners.values():
            l.got.clear()
        if self.kind == "fake":
            for ep in self.ifaces.values():
                ep.sent.clear()
        else:
            self.har.drain()
        out = "ok"
        sent = None
        act = "other"
        try:
            if name == "Add":
                self.top.add_listener(self.listeners[args[0]])
            elif name == "AddP":
                self.top.add_prefix_listener(self.listeners[args[0]], PFX[args[1]])
            elif name == "Remove":
                self.top.remove_listener(self.listeners[args[0]])
            elif name == "Recv":
                act = "recv"
                self._recv(*args)
            elif name == "Notify":
                act = "notify"
                p, m, s = args
                self._last_payload = payload(p, m, s)
                self.top.notify_listeners((self.addr["c4"], self._last_payload))
            elif name == "Send":
                act = "send"
                k, x, p, m, s = args
                sent = payload(p, m, s)
                if x == "auto":
                    self.top.send(self.addr[k], sent)
                else:
                    self.top.send(self.addr[k], sent, interface=IFNAME[x])
            elif name == "DOpen":
                blockers = self._block_ports(self.ifnames)
                try:
                    if self.har.run(self.top.open()) is not True:
                        self.problems.append("open() of the stack did not report success")
                finally:
                    self._unblock(blockers)
            elif name == "IOpen":
                blockers = self._block_ports([args[0]])
                try:
                    if self.har.run(self.ifaces[args[0]].open()) is not True:
                        self.problems.append("open() of the interface did not report success")
                finally:
                    self._unblock(blockers)
            elif name == "DClose":
                drive_sync(self.top.close())
            elif name == "IClose":
                drive_sync(self.ifaces[args[0]].close())
            elif name == "Settle":
                self.har.run(asyncio.sleep(0))
            elif name == "ErrorCb":
                act = "error"
                ep = self.ifaces[args[0]]
                if hasattr(ep, "error_received"):
                    ep.error_received(ConnectionRefusedError(111, "Connection refused"))
            elif name == "Reset":
                act = "reset"
                self.top.reset_byte_counters()
                self.wire_bytes = {i: 0 for i in self.ifnames}
            elif name == "Enable":
                self.stats.enable_community_statistics(PFX[args[0]], args[1])
            else:
                raise MachineryError("unknown action " + name)
        except self.Closed:
            out = "raise"
        except MachineryError:
            raise
        except Exception as exc:  # noqa: BLE001
            out = "exc:" + type(exc).__name__
        self._track_sockets()
        wire = self.observe_wire(sent)
        if act == "send" and out == "ok":
            out = "sent" if wire else "dropped"
        deliv = FrozenDict({l: len(r.got) for l, r in self.listeners.items()})
        for l, r in self.listeners.items():
            for src, data in r.got:
                if act in ("recv", "notify") and data != self._last_payload:
                    self.problems.append("listener %s was handed other bytes than the datagram" % l)
        self._last_sent = sent
        return {"act": act, "deliv": deliv, "wire": frozenset(wire), "out": out}

    def _block_ports(self, names):
        """Every third open() of a UDP interface finds its port taken (by a socket of the harness): open() has to fall back
        to the next free port.  (The loop turns first - open() includes that turn anyway - so that a transport that is
        still closing has released the port and the blocker can take it.)"""
        if self.kind != "udp":
            return []
        self.har.run(asyncio.sleep(0))
        out = []
        for i in names:
            ep = self.ifaces[i]
            if ep._running:
                continue
            self.nopen += 1
            if self.nopen % 3 != 2:
                continue
            fam, host = (socket.AF_INET6, "::1") if i == "v6" else (socket.AF_INET, "127.0.0.1")
            b = socket.socket(fam, socket.SOCK_DGRAM)
            try:
                b.bind((host, ep._port))
            except OSError:
                b.close()
                continue
            out.append((i, ep._port, b))
        return out

    def _unblock(self, blockers):
        for i, port, b in blockers:
            b.close()
            ep = self.ifaces[i]
            if ep._running:
                got = ep.get_address()[1]
                self.har.port_fallbacks += 1
                if got == port or got != ep._port:
                    self.problems.append("open() of %s with port %d taken: endpoint reports port %d (_port %d)"
                                         % (i, port, got, ep._port))

    def _recv(self, i, p, m, s):
        ep = self.ifaces[i]
        data = payload(p, m, s)
        self._last_payload = data
        if self.kind == "fake":
            ep.datagram_received(data, self.addr["c6" if i == "v6" else "c4"])
            return
        if not ep.is_open():
            # the kernel delivers nothing to a socket that is not read any more: the handler is called as a late
            # transport callback would call it
            ep.datagram_received(data, ("::1", 1, 0, 0) if i == "v6" else ("127.0.0.1", 1))
            return
        peer = self.har.peer6 if i == "v6" else self.har.peer4
        dst = ep.get_address()
        before = self.arrived
        peer.sendto(data, dst[:2])

        async def wait():
            for n in range(2000):
                if self.arrived > before:
                    return
                await asyncio.sleep(0 if n < 20 else 0.0005)
        self.har.run(wait())
        if self.arrived == before:
            raise MachineryError("loopback datagram did not arrive at the open endpoint %s (%s over %s, address %r, transport %r)"
                                 " within a second" % (i, self.stack, self.kind, dst, ep._transport))

    def observe_wire(self, sent, wait=0.0):
        """-> set of spec interface names through which the payload of this action left."""
        wire = set()
        if self.kind == "fake":
            for i, ep in self.ifaces.items():
                for addr, data in ep.sent:
                    if sent is None or data != sent:
                        self.problems.append("interface %s transmitted bytes nobody sent" % i)
                    wire.add(i)
                    self.wire_bytes[i] += len(data)
                if len(ep.sent) > 1:
                    self.problems.append("interface %s transmitted the packet %d times" % (i, len(ep.sent)))
                ep.sent.clear()
            return wire
        ports = {}          # (family, port): the IPv4 and the IPv6 interface may well own the same port number
        for i, ep in self.ifaces.items():
            for port in self.ports_seen[i]:
                ports[(i, port)] = i
        seen = {}
        for fam, sport, data in self.har.drain(wait):
            i = ports.get((fam, sport))
            if i is None:
                self.problems.append("a datagram from port %s reached the %s peer" % (sport, fam))
                continue
            if sent is None or data != sent:
                self.problems.append("interface %s transmitted bytes nobody sent" % i)
            seen[i] = seen.get(i, 0) + 1
            wire.add(i)
            self.wire_bytes[i] += len(data)
        for i, n in seen.items():
            if n > 1:
                self.problems.append("interface %s transmitted the packet %d times" % (i, n))
        return wire

    def _track_sockets(self):
        if self.kind != "udp":
            return
        for i, ep in self.ifaces.items():
            t = ep._transport
            if t is not None:
                s = t.get_extra_info("socket")
                if s is not None and not any(s is k for k in self.sockets[i]):
                    self.sockets[i].append(s)
                if ep._running:
                    port = s.getsockname()[1]
                    self.ports_seen[i].add(port)
                    self.first_port.setdefault(i, port)

    # ------------------------------------------------------------------------------------------ projection
    def _name(self, listener):
        if listener is self.stats:
            return "S"
        return getattr(listener, "name", "?")

    def _bag(self, lst, with_s):
        names = sorted(self.consts["Listeners"]) + (["S"] if with_s else [])
        bag = {n: 0 for n in names}
        for l in lst:
            n = self._name(l)
            if n == "S" and not with_s:
                continue            # transparency runs: the statistics layer itself is not part of the specification
            if n not in bag:
                self.problems.append("unknown listener %r in a registry" % (l,))
                continue
            bag[n] += 1
        return FrozenDict(bag)

    def project(self):
        with_s = self.with_stats_spec
        ifs, socks, gen, pm, up, down = {}, {}, {}, {}, {}, {}
        for i, ep in self.ifaces.items():
            if self.kind == "fake":
                ifs[i] = ep.state
                socks[i] = 1 if ep.state == "open" else 0
            else:
                t = ep._transport
                live = [s for s in self.sockets[i] if s.fileno() != -1]
                socks[i] = len(live)
                if ep._running:
                    ifs[i] = "open"
                elif t is None:
                    ifs[i] = "new"
                else:
                    ifs[i] = "closing" if t.get_extra_info("socket").fileno() != -1 else "closed"
            if ep.is_open() != (ifs[i] == "open"):
                self.problems.append("is_open() of %s disagrees with its state %s" % (i, ifs[i]))
            gen[i] = self._bag(ep._listeners, with_s)
            zero = self._bag([], with_s)
            m = {}
            for p in sorted(self.consts["Prefixes"]):
                lst = ep._prefix_map.get(PFX[p])
                m[p] = FrozenDict({"on": lst is not None, "m": self._bag(lst, with_s) if lst is not None else zero})
            for key in ep._prefix_map:
                if PFX_NAME.get(key) not in self.consts["Prefixes"]:
                    self.problems.append("prefix map of %s has a key nobody registered" % i)
            pm[i] = FrozenDict(m)
            up[i] = ep.bytes_up
            down[i] = ep.bytes_down
        st = {"ifs": FrozenDict(ifs), "socks": FrozenDict(socks), "gen": FrozenDict(gen), "pm": FrozenDict(pm),
              "up": FrozenDict(up), "down": FrozenDict(down), "sentB": FrozenDict(self.wire_bytes)}
        if self.top.bytes_up != sum(up.values()) or self.top.bytes_down != sum(down.values()):
            self.problems.append("byte counters of the stack are not the sum over its interfaces")
        if self.top.is_open() != any(v == "open" for v in ifs.values()):
            self.problems.append("is_open() of the stack is not 'any interface is open'")
        if with_s:
            z4 = FrozenDict({"nu": 0, "nd": 0, "bu": 0, "bd": 0})
            tracked = set()
            stat = {p: {m: z4 for m in self.consts["MsgIds"]} for p in self.consts["Prefixes"]}
            for key, per in self.stats.statistics.items():
                p = PFX_NAME.get(key)
                if p not in self.consts["Prefixes"]:
                    self.problems.append("statistics hold a prefix that was never enabled")
                    continue
                tracked.add(p)
                for mid, ns in per.items():
                    if mid not in stat[p] or ns.identifier != mid:
                        self.problems.append("statistics of %s hold message id %r" % (p, mid))
                        continue
                    stat[p][mid] = FrozenDict({"nu": ns.num_up, "nd": ns.num_down, "bu": ns.bytes_up, "bd": ns.bytes_down})
                self._check_getters(key, per)
            st["tracked"] = frozenset(tracked)
            st["stat"] = FrozenDict({p: FrozenDict(v) for p, v in stat.items()})
        elif self.stats is not None and self.stats.statistics:
            self.problems.append("statistics appeared although no prefix was enabled")
        return st

    def _check_getters(self, key, per):
        s = self.stats
        intro, punct, depr = s.IDS_INTRODUCTION, s.IDS_PUNCTURE, s.IDS_DEPRECATED
        for flags in ((False, False, False), (True, False, False), (True, True, True)):
            keep = [ns for mid, ns in per.items()
                    if not ((mid in intro and not flags[0]) or (mid in punct and not flags[1]) or (mid in depr and not flags[2]))]
            want = (sum(n.num_up for n in keep), sum(n.num_down for n in keep), sum(n.bytes_up for n in keep),
                    sum(n.bytes_down for n in keep))
            got = (s.get_message_sent(key, *flags), s.get_message_received(key, *flags), s.get_bytes_sent(key, *flags),
                   s.get_bytes_received(key, *flags))
            if want != got:
                self.problems.append("statistics getters %s disagree with the per-message table %s (flags %s)" % (got, want, flags))
        agg = s.get_aggregate_statistics(key)
        tot = (sum(n.num_up for n in per.values()), sum(n.num_down for n in per.values()),
               sum(n.bytes_up for n in per.values()), sum(n.bytes_down for n in per.values()))
        if (agg["num_up"], agg["num_down"], agg["bytes_up"], agg["bytes_down"]) != tot:
            self.problems.append("aggregate statistics disagree with the per-message table")
        if s.get_statistics(key) is not per:
            self.problems.append("get_statistics does not return the table of the prefix")

    # ------------------------------------------------------------------------------------------ queries
    def check_lan(self, ifs):
        """EndpointListener.my_estimated_lan against the specification's LanIsNull."""
        any_open = any(v == "open" for v in ifs.values())
        pref = "v4" if "v4" in self.ifnames else self.ifnames[0]
        if any_open and ifs[pref] != "open":
            return          # get_address() of the stack asks the preferred interface only: left open
        for l, r in self.listeners.items():
            try:
                lan = r.my_estimated_lan
            except Exception as exc:  # noqa: BLE001
                self.problems.append("my_estimated_lan raises %s" % type(exc).__name__)
                return
            if not any_open:
                if tuple(lan) not in (("0.0.0.0", 0), ("::1", 0)):
                    self.problems.append("my_estimated_lan is %r while the endpoint is closed" % (lan,))
            else:
                ep = self.ifaces[pref]
                port = self.first_port.get(pref) if self.kind == "udp" else ep.ADDRESS[1]
                ip = LAN_STUB[1] if pref == "v6" else LAN_STUB[0]
                if tuple(lan) != (ip, port):
                    self.problems.append("my_estimated_lan is %r, the open endpoint is at port %s (LAN %s)" % (lan, port, ip))

    def teardown(self):
        """Close everything; -> number of sockets that stay behind."""
        try:
            drive_sync(self.top.close())
            for ep in self.ifaces.values():
                drive_sync(ep.close())
        except Exception:  # noqa: BLE001
            pass
        if self.kind == "udp":
            self.har.run(asyncio.sleep(0))
            self.har.drain()
            return sum(1 for i in self.ifnames for s in self.sockets[i] if s.fileno() != -1)
        return 0
