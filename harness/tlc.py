"""Running TLC and reading what it prints: summaries, coverage, dot dumps, simulate files, TLA+ values."""
from __future__ import annotations

import os
import re
import shutil
import subprocess
import tempfile
import time

SPECS = os.path.join(os.path.dirname(os.path.dirname(os.path.abspath(__file__))), "specs")
JAR = "/opt/veriftools/tla/tla2tools.jar:/opt/veriftools/tla/CommunityModules-deps.jar"


class MachineryError(Exception):
    """The verification machinery itself failed (exit code 2, never a verdict)."""


class FrozenDict(dict):
    """Hashable dict used for TLA+ records and functions."""

    def __hash__(self):  # type: ignore[override]
        return hash(frozenset(self.items()))

    def _ro(self, *a, **k):
        raise TypeError("immutable")

    __setitem__ = __delitem__ = clear = pop = popitem = setdefault = update = _ro  # type: ignore[assignment]


# ----------------------------------------------------------------------------------------------
# TLA+ value parser (what TLC prints for states)
# ----------------------------------------------------------------------------------------------
_TOKEN = re.compile(r"""\s*(?:
    (?P<str>"(?:[^"\\]|\\.)*")|
    (?P<num>-?\d+)|
    (?P<sym><<|>>|\|->|:>|@@|\.\.|[\[\](){},])|
    (?P<id>[A-Za-z_][A-Za-z0-9_!]*)
)""", re.X)


def _tokenize(text):
    pos, out = 0, []
    n = len(text)
    while pos < n:
        m = _TOKEN.match(text, pos)
        if not m:
            if text[pos:].strip() == "":
                break
            raise MachineryError("cannot tokenize TLA+ value at %r" % text[pos:pos + 40])
        pos = m.end()
        kind = m.lastgroup
        out.append((kind, m.group(kind)))
    return out


def parse_value(text):
    toks = _tokenize(text)
    val, i = _parse(toks, 0)
    if i != len(toks):
        raise MachineryError("trailing tokens in TLA+ value %r" % text[:80])
    return val


def _parse(toks, i):
    kind, tok = toks[i]
    if kind == "num":
        v = int(tok)
        if i + 1 < len(toks) and toks[i + 1][1] == "..":
            hi = int(toks[i + 2][1])
            return frozenset(range(v, hi + 1)), i + 3
        return v, i + 1
    if kind == "str":
        return bytes(tok[1:-1], "utf-8").decode("unicode_escape"), i + 1
    if kind == "id":
        if tok == "TRUE":
            return True, i + 1
        if tok == "FALSE":
            return False, i + 1
        return tok, i + 1
    if tok == "{":
        items, i = _parse_list(toks, i + 1, "}")
        return frozenset(items), i
    if tok == "<<":
        items, i = _parse_list(toks, i + 1, ">>")
        return tuple(items), i
    if tok == "[":
        d = {}
        i += 1
        if toks[i][1] == "]":
            return FrozenDict(), i + 1
        while True:
            key = toks[i][1]
            assert toks[i + 1][1] == "|->", toks[i:i + 3]
            v, i = _parse(toks, i + 2)
            d[key] = v
            if toks[i][1] == ",":
                i += 1
                continue
            assert toks[i][1] == "]"
            return FrozenDict(d), i + 1
    if tok == "(":
        d = {}
        i += 1
        while True:
            k, i = _parse(toks, i)
            assert toks[i][1] == ":>", toks[i]
            v, i = _parse(toks, i + 1)
            d[k] = v
            if toks[i][1] == "@@":
                i += 1
                continue
            assert toks[i][1] == ")"
            return FrozenDict(d), i + 1
    raise MachineryError("unexpected token %r" % (tok,))


def _parse_list(toks, i, close):
    items = []
    if toks[i][1] == close:
        return items, i + 1
    while True:
        v, i = _parse(toks, i)
        items.append(v)
        if toks[i][1] == ",":
            i += 1
            continue
        assert toks[i][1] == close, (toks[i], close)
        return items, i + 1


def parse_state(text):
    """'/\\ a = 1\n/\\ b = {}' -> {'a': 1, 'b': frozenset()}"""
    out = {}
    parts = re.split(r"(?:^|\n)\s*/\\ ", "\n" + text.strip())
    for part in parts:
        part = part.strip()
        if not part:
            continue
        name, _, val = part.partition(" = ")
        if not _:
            name, _, val = part.partition("=")
        out[name.strip()] = parse_value(val)
    return out


def to_tla(v):
    """Python value -> TLA+ expression text (for generated cfg/modules)."""
    if isinstance(v, bool):
        return "TRUE" if v else "FALSE"
    if isinstance(v, int):
        return str(v)
    if isinstance(v, str):
        return '"' + v.replace("\\", "\\\\").replace('"', '\\"') + '"'
    if isinstance(v, (bytes, bytearray)):
        return "<<" + ", ".join(str(b) for b in v) + ">>"
    if isinstance(v, (tuple, list)):
        return "<<" + ", ".join(to_tla(x) for x in v) + ">>"
    if isinstance(v, (set, frozenset)):
        return "{" + ", ".join(sorted(to_tla(x) for x in v)) + "}"
    if isinstance(v, dict):
        if not v:
            return "<<>>"
        if all(isinstance(k, str) and re.fullmatch(r"[A-Za-z_][A-Za-z0-9_]*", k) for k in v):
            return "[" + ", ".join("%s |-> %s" % (k, to_tla(x)) for k, x in v.items()) + "]"
        return "(" + " @@ ".join("%s :> %s" % (to_tla(k), to_tla(x)) for k, x in v.items()) + ")"
    raise MachineryError("cannot render %r as TLA+" % (v,))


# ----------------------------------------------------------------------------------------------
# Running TLC
# ----------------------------------------------------------------------------------------------
class TlcResult:
    def __init__(self):
        self.ok = False
        self.generated = 0
        self.distinct = 0
        self.depth = 0
        self.violated = None  # name of violated invariant/property or 'deadlock'
        self.error_trace = []  # list of (action label, state dict)
        self.coverage = {}  # action name -> (distinct, total)
        self.output = ""
        self.wall = 0.0
        self.prints = []  # values printed with PrintT / Print


def scratch_dir(prefix="verif-"):
    base = os.environ.get("VERIF_SCRATCH") or tempfile.gettempdir()
    return tempfile.mkdtemp(prefix=prefix, dir=base)


def run_tlc(module, cfg, *, workers=None, dump=None, simulate=None, depth=None, seed=None, coverage=True,
            deadlock_off=True, timeout=3600, env=None, cwd=None, java_opts=(), extra=(), metadir=None,
            continue_=False):
    """Run TLC on specs/<module>.tla with specs/<cfg>. Returns TlcResult. Raises MachineryError on tool failure."""
    cwd = cwd or SPECS
    own_meta = metadir is None
    metadir = metadir or scratch_dir("tlc-md-")
    if workers is None:
        workers = int(os.environ.get("VERIF_TLC_WORKERS", "0")) or (os.cpu_count() or 4)
        try:   # do not pile 16 more threads onto a machine that is already saturated (several checks in parallel)
            load = os.getloadavg()[0]
            if load > 3 * workers:
                workers = max(2, workers // 4)
            elif load > 1.5 * workers:
                workers = max(2, workers // 2)
        except OSError:
            pass
    cmd = ["java", "-XX:+UseParallelGC", "-Xmx8g", *java_opts, "-cp", JAR, "tlc2.TLC",
           "-workers", str(workers), "-metadir", metadir, "-noGenerateSpecTE", "-config", cfg]
    if deadlock_off:
        cmd.append("-deadlock")
    if coverage:
        cmd += ["-coverage", "1"]
    if continue_:
        cmd.append("-continue")
    if dump:
        cmd += ["-dump", "dot,actionlabels", dump]
    if simulate:
        cmd += ["-simulate", simulate]
    if depth is not None:
        cmd += ["-depth", str(depth)]
    if seed is not None:
        cmd += ["-seed", str(seed)]
    cmd += list(extra)
    cmd.append(module)
    e = dict(os.environ)
    e.pop("JAVA_TOOL_OPTIONS", None)
    if env:
        e.update(env)
    t0 = time.monotonic()  # not time.time(): checks with a virtual clock re-bind it while TLC runs in a thread
    try:
        p = subprocess.run(cmd, cwd=cwd, env=e, capture_output=True, text=True, timeout=timeout)
    except subprocess.TimeoutExpired as exc:
        raise MachineryError("TLC timed out after %ss: %s" % (timeout, " ".join(cmd))) from exc
    finally:
        if own_meta:
            shutil.rmtree(metadir, ignore_errors=True)
    r = parse_output(p.stdout + p.stderr)
    r.wall = time.monotonic() - t0
    r.returncode = p.returncode
    if not r.ok and r.violated is None:
        raise MachineryError("TLC failed (rc=%s) on %s/%s:\n%s" % (p.returncode, module, cfg, r.output[-3000:]))
    return r


_RE_STATES = re.compile(r"(\d+) states generated, (\d+) distinct states found")
_RE_DEPTH = re.compile(r"depth of the complete state graph search is (\d+)")
_RE_INV = re.compile(r"Error: Invariant (\S+) is violated")
_RE_PROP = re.compile(r"Error: (?:Action|Temporal) propert(?:y|ies) (\S+)? ?(?:is|were) violated")
_RE_COV = re.compile(r"^<(\w+) line (\d+), col (\d+) to line (\d+), col (\d+) of module (\w+)(?: \(\d+ \d+ \d+ \d+\))?>: (\d+):(\d+)", re.M)
_RE_TRSTATE = re.compile(r"^State (\d+): <(.*?)>$", re.M)


def parse_output(out):
    r = TlcResult()
    r.output = out
    m = None
    for m in _RE_STATES.finditer(out):
        pass
    if m:
        r.generated, r.distinct = int(m.group(1)), int(m.group(2))
    m = _RE_DEPTH.search(out)
    if m:
        r.depth = int(m.group(1))
    for m in _RE_COV.finditer(out):
        name = m.group(1)
        d, t = int(m.group(7)), int(m.group(8))
        od, ot = r.coverage.get(name, (0, 0))
        r.coverage[name] = (od + d, ot + t)
    m = _RE_INV.search(out)
    if m:
        r.violated = m.group(1)
    elif "Action property" in out and "violated" in out:
        mm = re.search(r"Action property (\S+) is violated", out) or re.search(
            r"Action property line (\d+)", out)
        r.violated = mm.group(1) if mm else "action-property"
    elif "Temporal properties were violated" in out:
        r.violated = "temporal-property"
    elif "Deadlock reached" in out:
        r.violated = "deadlock"
    elif "The postcondition" in out and "violated" in out or "Error: Evaluating assumption PostCondition failed" in out:
        r.violated = "postcondition"
    r.ok = ("Model checking completed. No error has been found." in out or
            ("Finished in" in out and "Error:" not in out and r.violated is None))
    if r.violated:
        r.ok = False
        # error trace
        blocks = re.split(r"^State \d+: ", out, flags=re.M)[1:]
        for b in blocks:
            head, _, rest = b.partition("\n")
            body = rest.split("\n\n")[0]
            try:
                st = parse_state(body)
            except Exception:  # noqa: BLE001
                st = {"_raw": body}
            r.error_trace.append((head.strip("<>"), st))
    return r


# ----------------------------------------------------------------------------------------------
# dot dumps
# ----------------------------------------------------------------------------------------------
_RE_NODE = re.compile(r'^(-?\d+) \[label="((?:[^"\\]|\\.)*)"(,style = filled)?', re.M)
_RE_EDGE = re.compile(r'^(-?\d+) -> (-?\d+) \[label="((?:[^"\\]|\\.)*)"', re.M)


class Graph:
    def __init__(self):
        self.states = {}  # id -> dict
        self.init = []
        self.edges = []  # (src, name, args tuple, dst)
        self.out = {}  # src -> list of edge index

    def finish(self):
        for i, (s, _n, _a, _d) in enumerate(self.edges):
            self.out.setdefault(s, []).append(i)


def _unescape(lbl):
    return lbl.replace("\\n", "\n").replace("\\\\", "\\").replace('\\"', '"')


def parse_label(lbl):
    """'Gather(1)' -> ('Gather', (1,)); 'Tick' -> ('Tick', ())"""
    lbl = lbl.strip()
    m = re.match(r"^(\w+)\((.*)\)$", lbl, re.S)
    if not m:
        return lbl, ()
    args = parse_value("<<" + m.group(2) + ">>")
    return m.group(1), args


def parse_dot(path, keep_vars=None):
    g = Graph()
    with open(path, encoding="utf-8") as f:
        text = f.read()
    for m in _RE_NODE.finditer(text):
        sid = int(m.group(1))
        if sid in g.states:
            continue
        st = parse_state(_unescape(m.group(2)))
        if keep_vars is not None:
            st = {k: v for k, v in st.items() if k in keep_vars}
        g.states[sid] = st
        if m.group(3):
            g.init.append(sid)
    seen = set()
    for m in _RE_EDGE.finditer(text):
        s, d = int(m.group(1)), int(m.group(2))
        name, args = parse_label(_unescape(m.group(3)))
        key = (s, name, args, d)
        if key in seen:
            continue
        seen.add(key)
        g.edges.append(key)
    g.finish()
    return g


# ----------------------------------------------------------------------------------------------
# simulate files  (one file per behaviour: '\* <Action line ...>' + 'STATE_n == ...')
# ----------------------------------------------------------------------------------------------
_RE_SIMSTATE = re.compile(r"^STATE_(\d+) == *\n?(.*?)(?=^\\\*|^STATE_|\Z)", re.M | re.S)
_RE_SIMACT = re.compile(r"^\\\* <(\w+)(\(.*\))? line \d+, col \d+ to line", re.M)   # args may contain '>' (records, sequences)


def parse_simulate_file(path):
    """-> list of (label, args, state) ; first entry has label 'Init'."""
    with open(path, encoding="utf-8") as f:
        text = f.read()
    out = []
    chunks = re.split(r"^(?=\\\* <|STATE_1 ==)", text, flags=re.M)
    label, args = "Init", ()
    for ch in chunks:
        m = _RE_SIMACT.match(ch)
        if m:
            label = m.group(1)
            args = parse_value("<<" + m.group(2)[1:-1] + ">>") if m.group(2) else ()
        sm = re.search(r"^STATE_(\d+) ==\s*(.*)", ch, re.M | re.S)
        if sm:
            body = re.sub(r"\n=+\s*$", "", sm.group(2).strip())   # the module's closing ==== line
            out.append((label, args, parse_state(body)))
    return out


def sany(module, cwd=None):
    p = subprocess.run(["java", "-cp", JAR, "tla2sany.SANY", module], cwd=cwd or SPECS, capture_output=True,
                       text=True)
    ok = p.returncode == 0 and "Semantic errors" not in p.stdout and "Parse Error" not in p.stdout \
        and "Fatal errors" not in p.stdout and "*** Errors" not in p.stdout
    return ok, p.stdout + p.stderr
