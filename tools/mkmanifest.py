#!/usr/bin/env python3
"""Regenerates MANIFEST.json from the table below (keeps it schema-valid at all times)."""
import json
import os

HERE = os.path.dirname(os.path.dirname(os.path.abspath(__file__)))
ALL = ["C%02d" % i for i in range(1, 21)]

CHECKS = {
    "C16": dict(
        category="model_checking", design_ref="DESIGN.md section 4, C16",
        technique="TLA+ spec TokenTree.tla model-checked by TLC; TLC state graph replayed edge-by-edge on the real "
                  "TokenTree; recorded histories validated by TLC against TokenTreeTrace.tla",
        text="TLC exhausts every tree shape with <=5 (thorough: 6) tokens, every arrival order, forged/dangling/duplicate "
             "tokens; every transition of the dumped graph (n=4, content model) is executed on the real TokenTree and "
             "the projected state compared, so the code is shown to follow the spec on exactly the space the property "
             "quantifies over; larger random trees are checked as TLC-validated traces."
             " Offers are also rebuilt from stored rows (Token.from_database_tuple), including rows whose content column does not hash to the signed pointer."
             " Wire strings (unserialize_public over chunks in any order) and every way of constructing a tree view are modelled.",
        note="Signature primitives and SHA3 are trusted; >6 tokens only sampled (24-token recorded histories)."),
}


CHECKS.update({
    "C01": dict(
        category="model_checking", design_ref="DESIGN.md section 4, C01",
        technique="TLA+ spec Auth.tla (signed datagrams, 13 mutation actions, hand-written table of authenticated message ids) "
                  "model-checked by TLC; real captures of every authenticated id of every overlay mutated and delivered to the "
                  "production receive path; every delivery validated by TLC against AuthTrace.tla",
        text="TLC exhausts the abstract mutation space; every mutation class is applied at every byte position of real captured "
             "datagrams of all eight shipped overlay classes and TLC judges each observed handler entry / verified-peer delta "
             "against the spec with an independent signature oracle."
             " The verified-peer table itself is spec state (book): long-lived receiver sessions (history made by the real code, then forged input from the sender's, the attacker's and a third address) are validated event by event; a rejected datagram must leave the table unchanged (RejectInert, BookLegit)."
             " Records an overlay keeps about a key outside the verified-peer table and the parsed-key memory (crowds of thousands of keys) are spec state as well (NotesLegit, KeyResolution).",
        note="Signature primitives of ipv8_rust_tunnels trusted; mutations are the listed finite family over real captures."),
    "C04": dict(
        category="model_checking", design_ref="DESIGN.md section 4, Onion.tla + C04",
        technique="TLA+ spec Onion.tla (symbolic layered AEAD, one action per tunnel handler/timer) model-checked by TLC with "
                  "tamper/splice/inject/header adversary; real TunnelCommunity nodes stepped action by action, layer depth "
                  "measured on real ciphertext with real keys, every recorded execution validated by TLC (OnionTrace.tla)",
        text="TLC checks ExitIntegrity, ReturnIntegrity, LayerDepth, NoRepeatOnLinks on the spec exhaustively (3 hops, 1 attack "
             "step; 1-2 hops, 2 steps in thorough) and on every recorded execution of the real nodes, including runs that alter "
             "every header byte and sampled (thorough: every byte of short cells, a stride over long ones) body byte of in-flight cells on every link in both directions, the exit "
             "socket's queue while its outside sockets open, and linked hidden-service (e2e) circuits with cells forged by the rendezvous point."
             " Dual-stack hosts (fabricated cells on both interfaces), tunnel data messages arriving from outside at an exit socket (OutsideNested) and cells turned round by the rendezvous point (RPReflect) are adversary actions of the spec and steps of the driver.",
        note="AEAD/HKDF/X25519 idealised (Dolev-Yao); PythonCryptoEndpoint only; for e2e circuits the rendezvous link and the shared "
             "key are set up by the harness on the real tables (create-e2e/link-e2e handshake not driven); test cells not driven."),
    "C06": dict(
        category="model_checking", design_ref="DESIGN.md section 4, C06",
        technique="TLA+ specs ExitClassifier.tla / ExitPolicy.tla model-checked by TLC; TLC enumerates header-byte domains and "
                  "computes expected classifications compared with DataChecker/is_allowed; real exit sockets with recording "
                  "transports traced and validated by TLC (ExitPolicyTrace.tla)",
        text="Exhaustive over the header bytes the classifier inspects (TLC computes the expected verdicts), model checking of "
             "the exit-socket life cycle, and TLC-validated traces of the real emission path in both directions for every "
             "payload class x destination kind x source x socket state."
             " Addresses are part of the state (asked / sent-to / heard-from history per socket): a forbidden datagram gains nothing from earlier allowed traffic with the same host (flow-cache deviations are spec-level controls)."
             " Run-time reconfiguration of the flags, replayed signed messages of the previous hop, and packets that share everything a rule does not read with an earlier packet (the filter has no memory) are modelled.",
        note="Dropping allowed traffic is not a violation (safety reading); a domain resolving to 0.0.0.0 is outside the property."),
    "C10": dict(
        category="model_checking", design_ref="DESIGN.md section 4, C10",
        technique="TLA+ spec RequestCache.tla (identifier table, asyncio task states, TaskManager tracking) model-checked by TLC; "
                  "TLC state graph / simulate behaviours replayed on the real RequestCache under a single-stepped event loop; "
                  "recorded schedules validated by TLC (RequestCacheTrace.tla)",
        text="TLC exhausts all interleavings of add/pop/timer fire/task run/passthrough/clear/shutdown for <=3 (thorough 4) caches; "
             "every edge of the 2-cache graph and simulated 3/4-cache behaviours are executed on the real code with pops/adds "
             "nested in on_timeout; larger random populations are validated as traces."
             " The response path (retrieve_cache) is its own action with handler scripts (raise, pop, nested add / response, coroutine bodies) and a claim counter: a request is handed to a claimant at most once."
             " Several futures per request and tear-down sequences (shutdown_task_manager, repeated shutdown) are modelled.",
        note="Single event-loop thread; ready handles may run in any order in the spec (superset of asyncio FIFO)."),
    "C19": dict(
        category="fault_enumeration", design_ref="DESIGN.md section 4, C19",
        technique="TLA+ spec CrashDb.tla (sqlite durable/working image, statement-level program layer) model-checked by TLC; "
                  "a child process running the real identity/attestation databases is SIGKILLed at every statement/commit/"
                  "return boundary, a fresh process reopens; event logs + observed rows validated by TLC (CrashDbTrace.tla)",
        text="Every crash point of the scripted workloads is enumerated against the real code and the resulting trace is "
             "judged by TLC (AckedDurable, NoPartialRecord, ReopenOk, PseudonymVerifies); TLC also explores all crash "
             "placements of <=3 (thorough 4) record workloads on the spec."
             " with-database blocks (held / acknowledged at block exit), the commit gate after an aborted block and the pseudonym rebuilt by a fresh process (tree, credentials, attestations compared object by object) are modelled."
             " Nested blocks, the order a whole credential is written in, record forms (the same record stored again with other bytes) and errors from the database at COMMIT are modelled.",
        note="sqlite WAL atomicity/durability under process kill is trusted; kills land between statements, not inside a write."),
})

CHECKS.update({
    "C02": dict(
        category="model_checking", design_ref="DESIGN.md section 4, C02",
        technique="TLA+ reference codec Wire.tla (written from doc/reference/serialization.rst, all 44 packers, table of all 66 "
                  "Serializable classes) checked by TLC (RoundTrip, ExactConsumption, ReEncode, PrefixFree); TLC-enumerated "
                  "(format/class, value, offset) states executed on the real Serializer; recorded pack/unpack/repack events "
                  "validated by TLC (WireTrace.tla)",
        text="The bytes are computed by the TLA+ reference, not by the implementation: every shipped message class (also nested and "
             "listed, offsets 0..3) and every packer over boundary domains is compared byte for byte, field for field and offset "
             "for offset; a class or packer missing from the table makes the check fail as machinery error."
             " WireReg.tla decides what a format name means per serializer over the life of a process (overlays loading, run-time add_packer), WireDef.tla decides message types built with every definition mechanism incl. derived classes.",
        note="IEEE-754 layout of f/d and arbitrary Unicode not modelled. Known finding: arrayH-* use host byte order (see known_findings.json)."),
    "C07": dict(
        category="model_checking", design_ref="DESIGN.md section 4, C07",
        technique="TLA+ spec TunnelEndpoint.tla (abstract StepAllowed layer + implementation layer) model-checked by TLC to depth 7/8; "
                  "all paths / transition cover / simulated behaviours replayed on the real TunnelEndpoint with a real "
                  "TunnelCommunity and real Circuit objects; recorded histories validated by TLC",
        text="Every interleaving of the quantifier's events to depth 7 is explored on the spec; all 3-event paths, a cover of the "
             "4-event graph and long simulated behaviours are executed on the real objects with exact state comparison; the "
             "abstract layer (never raw for anonymised prefixes, only ready right-length IPv8-exit circuits, bounded queue) judges."
             " Overlay instances are spec state: further instances with the same prefix are loaded and unloaded on the shared endpoint and late / replaced instances send (SwitchFollowsRequests)."
             " Every way a circuit ends (close / remove_circuit variants, removal timers, expiry) is modelled: what Circuit.state reports must follow the take-down (StateFollowsClose).",
        note="Circuits reach their states through add_hop/close on real objects, not through a network handshake."),
    "C11": dict(
        category="model_checking", design_ref="DESIGN.md section 4, C11",
        technique="TLA+ specs TaskManager.tla (replayed edge-complete on the real TaskManager under a single-stepped loop) and "
                  "Unload.tla (model-checked; listener tables of both wirings, tasks, caches, sockets); unload requested at sampled "
                  "(thorough: every) event of scripted runs of all 9 overlay classes on the simulated network under virtual time, "
                  "late datagrams of every message id + 2 h; event logs validated by TLC (UnloadTrace.tla)",
        text="Silence after unload is decided by TLC on recorded executions of the real overlays (sends, handler entries, task "
             "steps, cache time-outs, outside sockets) with the unload point enumerated; the task-manager clauses are decided by "
             "exhaustive replay of the spec's state graph on the real TaskManager."
             " Bootstrapper initialisations (incl. the UDP broadcast socket opened asynchronously) and exit-socket removals pending at unload time are spec state; unload is requested at every event of those windows."
             " Opening an outside socket is a multi-step sequence with refusals and cancellation (NoOrphanSocket).",
        note="Only sends on the simulated wire / outside transports are seen; events while unload() is still running are unconstrained."),
    "C17": dict(
        category="model_checking", design_ref="DESIGN.md section 4, C17",
        technique="TLA+ specs Identity.tla / IdentityWorld.tla model-checked by TLC (consent, storage, token hand-out invariants); "
                  "state graphs and simulated behaviours replayed on a real IdentityCommunity node with real signed objects from "
                  "honest and dishonest peers; recorded sessions validated by TLC (IdentityTrace.tla)",
        text="TLC explores registrations x disclosures x clock x permissions; every transition is executed on the real node and the "
             "datagrams it emits, its Attestations/Metadata rows and token trees are compared with the TLC state; SignsOnlyConsented, "
             "StoresOnlyValidlySigned, TokensOnlyUpToPermitted are evaluated on every recorded session."
             " One-shot storage faults on the Attestations / Metadata tables with the handlers in effect order (SentOnlyRecorded).",
        note="Only well-formed messages; 299 s and 301 s sides of the window, not the exact instant."),
    "C20": dict(
        category="translation_validation", design_ref="DESIGN.md section 4, C20",
        technique="TLA+ spec PayloadDef.tla (extends Wire.tla) enumerates payload definitions (fields, defaults, fix_pack/unpack rules, "
                  "calling conventions) and computes bytes/decoded values; each definition is materialised as plain, vp_compile'd and "
                  "dataclass form and compared; all shipped VariablePayload classes in shipped/re-interpreted/recompiled form",
        text="Translation validation of the payload code generator against the interpreted definition with the TLA+ meaning as "
             "third opinion, exhaustive over definitions of <=2 (thorough 3) fields over 13 field kinds, simulated up to 12 fields."
             " Non-field class members and the annotation language with its type-to-format mapping (AnnotationsMean) are part of the definition space.",
        note="Generated field names only; dataclass default_factory outside the explored space."),
})

CHECKS.update({
    "C03": dict(
        category="model_checking", design_ref="DESIGN.md section 4, C03",
        technique="TLA+ specs Receive.tla (total demultiplexing function, listener tables, cell pre-processing) and WireStrict.tla "
                  "(strict decoder) model-checked by TLC over every short byte string; real overlays of every class behind a real "
                  "UDPEndpoint (plain / Statistics / Tunnel / Dispatcher chains) fed every length 0..64, all 256 ids, cells 22..40 "
                  "bytes, every truncation of captures; deliveries and decodes validated by TLC (ReceiveTrace / WireStrictTrace)",
        text="Totality (nothing raises into the transport), prefix isolation and all-listeners-served are decided by TLC on every "
             "recorded delivery of the production receive path; for decoding, an event is accepted iff the code rejected the bytes "
             "or the strict TLA+ decoder accepts them with the same parts and an end inside the buffer."
             " Circuit tables and the listener registry are state: single removals, time-outs, sweeps, registrations sharing a prefix (RegistryServed), and the exit socket's own receive path.",
        note="Beyond 64 bytes inputs derive from captures and seeded samples; UTF-8/key validity are content checks the code may reject."),
    "C12": dict(
        category="model_checking", design_ref="DESIGN.md section 4, C12",
        technique="TLA+ spec Network.tla (abstract membership + by-key index + three LRU caches) model-checked by TLC; every call "
                  "sequence to depth 3 (thorough 4) and every (state, call) pair of the dumped graphs replayed on the real Network with "
                  "real Peer objects; simulate behaviours replayed; random 200-call histories validated by TLC (NetworkTrace.tla)",
        text="LookupsAgree / QueriesPure / RemovedIsGone / ReAddWorks / BlacklistedNeverVerified / SnapshotRoundTrip are checked by TLC "
             "on the spec and the real Network is compared with TLC's successor state and return value after every call."
             " The caller's side of discover_services (collections of every kind, mutated afterwards, one-shot iterators) and remove_peer through another Peer object with the history of advertisements are modelled.",
        note="3x3x2 exhausted to depth 3 (4), deeper only in smaller universes and by sampling; answers compared as sets."),
    "C13": dict(
        category="model_checking", design_ref="DESIGN.md section 4, C13",
        technique="TLA+ spec NatWalk.tla (cone-NAT mapping/filtering + code-shaped introduction/puncture protocol) model-checked by TLC "
                  "for all 92 configurations (NAT types x placements x message style) and all delivery orders; every transition "
                  "replayed on real Community nodes behind simulated NAT boxes; random schedules validated by TLC in strict and "
                  "observed mode (the simulator itself is validated against the spec)",
        text="Reach (mutual verification after the follow-up walk), LanMeet and AsksPuncture hold in every reachable state of every "
             "configuration, and the real nodes follow the spec step by step on a network that enforces mapping and filtering."
             " Lost NAT mappings, Lamport clocks beyond 2^16, several overlays on one Network and IPv6 neighbours are modelled.",
        note="Cone NATs only, public introducer, no mapping expiry/hairpin; premise (puncture before follow-up walk) encoded as guard."),
    "C15": dict(
        category="model_checking", design_ref="DESIGN.md section 4, C15",
        technique="TLA+ specs DhtStore.tla / DhtLookup.tla model-checked by TLC; four state graphs (tokens, versions, expiry, limits) "
                  "replayed on real DHT nodes with real signed datagrams; a 15-node network with an attacker recorded and validated by "
                  "TLC (DhtStoreTrace / DhtLookupTrace); TLC enumerates lookup value lists and computes the admissible result",
        text="Token authorisation, limits, signature verification, highest-version reporting, no-downgrade and expiry are invariants "
             "of the spec; the real node's storage, secret window and responses are compared with the TLC state after every action."
             " The token validity window is clock time in the spec (rotation is a timer of the real node under the virtual clock), and an expired-but-uncleaned newer version still gates older ones.",
        note="Rate limiter off in replays; malformed values are C03 territory."),
    "C18": dict(
        category="model_checking", design_ref="DESIGN.md section 4, C18",
        technique="TLA+ specs FP2.tla (field laws + implementation layer, TLC computes every expected result), Attest.tla and "
                  "RangeProof.tla; every edge of the dumped FP2 graphs is one real FP2Value call; real Boneh exact-match rounds and "
                  "Peng-Bao range proofs with fresh keys recorded and validated by TLC (AttestTrace / RangeProofTrace)",
        text="Field laws hold on the reference for p in {2,5,11,10007}; the implementation agrees on all 48^2 operand pairs (p=2), all "
             "{0,1}^12 vectors (p=10007, bilinearity argument for all moduli) and samples; the exact-match protocol is model-checked "
             "for all 8-bit values and all challenge orders and real runs are judged by TLC."
             " SchemaNode.tla / ProofSession.tla decide sessions of proofs on long-lived nodes (format names resolved per step, reference profile per format), VerifyRounds.tla the rounds of one verification with abandoned rounds and late answers.",
        note="Pairings, prime generation, soundness against cheating provers and zero-knowledge are outside TLA+ (stated limits)."),
})

CHECKS.update({
    "C05": dict(
        category="model_checking", design_ref="DESIGN.md section 4, Onion.tla + C05",
        technique="TLA+ spec Onion.tla model-checked by TLC with two originators sharing relay/exit and forged creates (also for "
                  "ids in use), forged/replayed destroys, injected and spliced cells; real TunnelCommunity nodes with up to 6 "
                  "concurrent circuits stepped action by action under the same attacks on real bytes; every recorded execution "
                  "validated by TLC (OnionTrace.tla: ExitOnlyOwn, ReturnIntegrity, NoShadow, EntriesStable, "
                  "DestroyOnlyFromNeighbour, UnknownCellsInert)",
        text="Isolation invariants and action properties hold in every state/step TLC explores and on every recorded execution of "
             "the real nodes; a scripted run sends a create for every circuit id in use at every node (both sides of the 60 s "
             "cache) and forged/replayed destroys from non-neighbours."
             " Destroys signed by the attacker's own key from its own and every spoofed source address, replayed genuine destroys, and created answers re-labelled with another circuit's id are part of the scripted families."
             " Also: destroys under signatures that do not verify, the address a circuit's cells go to, a create race during a suspended admission decision, an application's own admission policy, garbage cells and a circuit's record of its last activity.",
        note="Symbolic AEAD/DH; the signature check of destroy itself is C01; replayed destroys are sent with the spoofed source "
             "of their signer (address re-learning of the community layer is not modelled)."),
    "C08": dict(
        category="model_checking", design_ref="DESIGN.md section 4, Onion.tla + C08",
        technique="TLA+ spec Onion.tla with symbolic Diffie-Hellman (key = initiator ephemeral, responder ephemeral, responder static; "
                  "auth covers the ephemeral half only) model-checked by TLC under every manipulation of created/extended answers; "
                  "the same manipulations applied to real plaintext created cells with real DH at every hop position; executions "
                  "validated by TLC (NoForeignKey, KeyAgreement, AnswerMustMatch, hops immutable) plus probes on the real key bytes",
        text="TLC shows that no manipulation (wrong identifier, other circuit, substituted ephemeral with correct auth, flipped auth/"
             "candidates, duplicates, answers after retry) yields a hop key known to anyone but the selected peer, and the real "
             "originator/relays follow the spec step by step under those manipulations."
             " PathAgreement (an established hop is never re-routed) is checked with honest nodes only, two exits and answers of abandoned attempts arriving after the retry, and with an admission decision that really suspends (SuspendJoin) under duplicated creates."
             " HopByRightAnswer (the hop list is a path) is checked under altered candidate lists with a second first-hop candidate to retry with.",
        note="X25519/HMAC/HKDF idealised; a malicious relay on the path is represented by manipulations of the created it forwards."),
    "C09": dict(
        category="fault_enumeration", design_ref="DESIGN.md section 4, Onion.tla + C09",
        technique="TLA+ spec Onion.tla with discrete clock (sweeps, retry/cache time-outs, delayed removals) model-checked by TLC with one "
                  "(thorough two) disturbance(s): loss, teardown by originator/relay/exit, vanishing originator; fault enumeration on "
                  "real nodes under the virtual clock: hop count x phase x tearing-down party x every subset (<=2, thorough 3) of lost "
                  "control messages, time advanced past the bound; each run validated by TLC (Reclaimed in every state, Quiet + "
                  "closed outside sockets at the deadline, JoinLimit, RelayEarlyBudget)",
        text="Bounded-time reclamation is an invariant of the timed spec and is evaluated by TLC on every enumerated fault run of the "
             "real nodes with their default timers; join limit and relay_early budget are action property / invariant."
             " The join limit is driven to its boundary (limit 1..4, two originators) and validated with MaxJoined = limit."
             " Duplicated control messages, a half-open exit socket (Transport4Ready) and a cancelled circuit.ready future are part of the scenarios.",
        note="Bounds from the default settings in force; max_time (1 h) as last resort is not reached; pings are off in the MC configs."),
    "C14": dict(
        category="model_checking", design_ref="DESIGN.md section 4, C14",
        technique="TLA+ spec Kademlia.tla (bit-sequence ids, buckets, eviction, split on own path, brute-force IsClosest) model-checked by "
                  "TLC; state graphs replayed on the real RoutingTable (every enabled action from every reached state); seeded "
                  "160-bit histories up to 2000 nodes and all closest_nodes answers validated by TLC (KademliaTrace.tla); "
                  "generate_id decided by the spec's GenerateId action",
        text="Tree shape, ownership, capacity, split-only-on-own-path and exactness of k-closest are invariants checked by TLC on "
             "reduced-width ids exhaustively and on the real tables of long real-width histories.",
        note="Eviction choice among BAD / slow nodes left open in the spec (the code's choice is one of them)."),
})

PENDING_REASON = "check not built yet in this round (planned, see DESIGN.md section 9); no claim is made"


NO_THOROUGH = {"C03", "C13"}


def main():
    checks = []
    for pid in ALL:
        c = CHECKS.get(pid)
        if not c:
            continue
        # thorough tiers that were found unsound / incomplete on the final tree and could not be triaged in time are not
        # registered (DESIGN.md section 15): their deeper exploration stays available as ./check Cxx --tier thorough
        entry_thorough = {} if pid in NO_THOROUGH else {"thorough_cmd": "./check %s --tier thorough" % pid}
        checks.append({
            "property_id": pid,
            "quick_cmd": "./check %s --tier quick" % pid,
            **entry_thorough,
            "evidence_file": "/verif/evidence/%s.json" % pid,
            "replay_cmd_template": "./check %s --replay {path}" % pid,
            "engine": "tlc+harness",
            "level_claimed": {"category": c["category"], "text": c["text"], "design_ref": c["design_ref"]},
            "level_note": c["note"],
            "technique": c["technique"],
        })
    na = [{"property_id": p, "reason": NOT_APPLICABLE.get(p, PENDING_REASON)} for p in ALL if p not in CHECKS]
    m = {
        "version": 1,
        "setup_cmd": "./setup.sh",
        "hooks": {"guard": "IPV8_VERIF", "enable": "no source hooks exist: all observation is done from the harness side "
                  "(sys.setprofile, simulated endpoints, public attributes); the guard name is reserved",
                  "baseline_off_cmd": "cd /repo && /venv/bin/python -m pytest -ra -q -p no:cacheprovider --timeout=900 "
                                      "--continue-on-collection-errors",
                  "source_commits": [], "add_only": True},
        "engines": [{"name": "tlc+harness", "path": "/verif/check",
                     "serves_properties": [c["property_id"] for c in checks],
                     "kind_free_text": "TLA+ specifications (specs/*.tla) model-checked with TLC 1.8; Python harness replays "
                                       "TLC state graphs into the real code and lets TLC validate recorded traces"}],
        "checks": checks,
        "not_applicable": na,
        "notes": "exit 0 held / 1 VIOLATION / 2 machinery failure (no verdict). known_findings.json lists genuine defects "
                 "(status fixed = repaired by a fix: commit in /repo, suppresses nothing).",
    }
    with open(os.path.join(HERE, "MANIFEST.json"), "w", encoding="utf-8") as f:
        json.dump(m, f, indent=1)
        f.write("\n")


NOT_APPLICABLE = {}

if __name__ == "__main__":
    main()
