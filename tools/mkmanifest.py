#!/usr/bin/env python3
"""Regenerates MANIFEST.json from the table below (keeps it schema-valid at all times)."""
import json
import os

HERE = os.path.dirname(os.path.dirname(os.path.abspath(__file__)))
ALL = ["C%02d" % i for i in range(1, 21)]

CHECKS = {
    "C16": dict(
        category="model_checking", design_ref="DESIGN.md section 4, C16",
        technique="TLA+ spec TokenTree.tla model-checked by TLC; TLC state graph replayed edge-by-edge on the real "
                  "TokenTree; recorded histories validated by TLC against TokenTreeTrace.tla",
        text="TLC exhausts every tree shape with <=5 (thorough: 6) tokens, every arrival order, forged/dangling/duplicate "
             "tokens; every transition of the dumped graph (n=4, content model) is executed on the real TokenTree and "
             "the projected state compared, so the code is shown to follow the spec on exactly the space the property "
             "quantifies over; larger random trees are checked as TLC-validated traces.",
        note="Signature primitives and SHA3 are trusted; >6 tokens only sampled (24-token recorded histories)."),
}

PENDING_REASON = "check not built yet in this round (planned, see DESIGN.md section 9); no claim is made"


def main():
    checks = []
    for pid in ALL:
        c = CHECKS.get(pid)
        if not c:
            continue
        checks.append({
            "property_id": pid,
            "quick_cmd": "./check %s --tier quick" % pid,
            "thorough_cmd": "./check %s --tier thorough" % pid,
            "evidence_file": "/verif/evidence/%s.json" % pid,
            "replay_cmd_template": "./check %s --replay {path}" % pid,
            "engine": "tlc+harness",
            "level_claimed": {"category": c["category"], "text": c["text"], "design_ref": c["design_ref"]},
            "level_note": c["note"],
            "technique": c["technique"],
        })
    na = [{"property_id": p, "reason": NOT_APPLICABLE.get(p, PENDING_REASON)} for p in ALL if p not in CHECKS]
    m = {
        "version": 1,
        "setup_cmd": "./setup.sh",
        "hooks": {"guard": "IPV8_VERIF", "enable": "no source hooks exist: all observation is done from the harness side "
                  "(sys.setprofile, simulated endpoints, public attributes); the guard name is reserved",
                  "baseline_off_cmd": "cd /repo && /venv/bin/python -m pytest -ra -q -p no:cacheprovider --timeout=900 "
                                      "--continue-on-collection-errors",
                  "source_commits": [], "add_only": True},
        "engines": [{"name": "tlc+harness", "path": "/verif/check",
                     "serves_properties": [c["property_id"] for c in checks],
                     "kind_free_text": "TLA+ specifications (specs/*.tla) model-checked with TLC 1.8; Python harness replays "
                                       "TLC state graphs into the real code and lets TLC validate recorded traces"}],
        "checks": checks,
        "not_applicable": na,
        "notes": "exit 0 held / 1 VIOLATION / 2 machinery failure (no verdict). known_findings.json lists genuine defects "
                 "(status fixed = repaired by a fix: commit in /repo, suppresses nothing).",
    }
    with open(os.path.join(HERE, "MANIFEST.json"), "w", encoding="utf-8") as f:
        json.dump(m, f, indent=1)
        f.write("\n")


NOT_APPLICABLE = {}

if __name__ == "__main__":
    main()
