#!/bin/sh
# usage: tools/seed_sweep.sh "<checks>" "<seeds>"   - runs quick checks for several seeds on the unchanged tree, prints a line each
for c in $1; do for s in $2; do
  out=$(VERIF_SEED=$s VERIF_EVIDENCE_DIR=/tmp/sweep-ev-$$ VERIF_REPLAY_DIR=/tmp/sweep-ev-$$ ./check $c --tier quick 2>&1); rc=$?
  echo "$c seed=$s rc=$rc $(echo "$out" | grep -c VIOLATION) violations; $(echo "$out" | tail -1 | cut -c1-160)"
  if [ $rc -ne 0 ]; then echo "$out" | grep -A1 "VIOLATION\|MACHINERY" | cut -c1-1200; fi
done; done
rm -rf /tmp/sweep-ev-$$
