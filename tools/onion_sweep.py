#!/venv/bin/python
"""Seed sweep of the tunnel trace families on the unchanged tree (looks for false alarms / spec-harness mismatches):
   tools/onion_sweep.py <first seed> <count> [steps]"""
import os
import sys
HERE = os.path.dirname(os.path.dirname(os.path.abspath(__file__)))
sys.path.insert(0, HERE)
os.environ.setdefault("PYTHONHASHSEED", "0")
from harness.common import setup_repo_path  # noqa: E402
setup_repo_path()
from harness import onion_runs as R  # noqa: E402

first, count = int(sys.argv[1]), int(sys.argv[2])
steps = int(sys.argv[3]) if len(sys.argv) > 3 else 220
FAM = [("line4", "honest"), ("line4", "lossy"), ("line4", "tamper"), ("line4", "isolation"), ("line4", "handshake"),
       ("line4", "reclaim"), ("two_origins", "isolation"), ("two_origins", "tamper"), ("two_exits", "isolation"),
       ("two_origins", "lossy"), ("two_exits", "handshake"), ("two_origins", "reclaim")]
bad = 0
for topo, prof in FAM:
    for base in range(first, first + count, 8):
        traces, esc, hdr = [], [], None
        for seed in range(base, min(base + 8, first + count)):
            tr, w = R.random_run(topo, seed, prof, steps, max_circuits=6 if topo == "two_exits" else 3)
            traces.append(tr)
            hdr = w.header()
            esc += [(seed, e) for e in w.escaped]
        ok, r, where = R.validate(traces, topo, hdr)
        print(topo, prof, "seeds", base, "..", base + len(traces) - 1, "events", sum(len(t["events"]) for t in traces),
              "ok" if ok else "REJECTED %s %s" % (r.violated, where), "escaped %s" % esc if esc else "", flush=True)
        if not ok:
            bad += 1
            if where and where[0]:
                tr = traces[where[0] - 1]
                print("   seed", tr["seed"], [{k: v for k, v in e.items() if k not in ("post", "now")}
                                             for e in tr["events"][max(0, where[1] - 4):where[1]]], flush=True)
                try:
                    print("   ", str(R.explain(tr, topo, hdr, where[1]))[:1500], flush=True)
                except Exception as exc:  # noqa: BLE001
                    print("   explain failed", exc)
print("rejected batches:", bad)
