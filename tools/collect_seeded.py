#!/usr/bin/env python3
"""Copies confirmed seeded changes from /tmp/seed-out into /verif/seeded/<id>/ (patch.diff, demo.py, README.md, meta.json)."""
import glob
import json
import os
import shutil

for d in sorted(glob.glob("/tmp/seed-out/c??-?")):
    name = os.path.basename(d)
    pid = name[:3].upper()
    res = None
    for f in ("/tmp/seed-eval/%s.json" % name,):
        if os.path.exists(f):
            try:
                res = json.load(open(f))
            except Exception:  # noqa: BLE001
                res = None
    if not res or not res.get("applies") or res.get("demo_clean_rc") != 0 or res.get("demo_mutant_rc") in (0, None) \
            or "602 passed" not in (res.get("tests") or ""):
        print("NOT CONFIRMED", name, res and {k: res.get(k) for k in ("applies", "demo_clean_rc", "demo_mutant_rc", "tests")})
        continue
    dst = "/verif/seeded/%s" % name
    os.makedirs(dst, exist_ok=True)
    for fn in ("patch.diff", "demo.py", "README.md"):
        shutil.copy(os.path.join(d, fn), os.path.join(dst, fn))
    readme = open(os.path.join(d, "README.md")).read().strip().splitlines()
    meta = {"id": name, "property": pid,
            "origin": "written by an independent sub-agent that saw only the property record and its own git worktree",
            "summary": " ".join(readme[:4])[:900],
            "needs_to_manifest": next((l for l in readme if l.lower().startswith(("needs", "what it needs", "- **needs", "- needs"))), ""),
            "confirmed_by_me": {"patch_applies_on_repo_head": True, "test_suite_with_change": res["tests"],
                                "demo_on_unchanged_tree_rc": res["demo_clean_rc"], "demo_with_change_rc": res["demo_mutant_rc"],
                                "how": "tools/eval_seeded.py in a scratch worktree under /tmp (removed afterwards)"}}
    json.dump(meta, open(os.path.join(dst, "meta.json"), "w"), indent=1)
print(len(glob.glob("/verif/seeded/*/meta.json")), "seeded changes stored")
